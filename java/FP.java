/*
 * FP.java -- TLC module override for the TLA+ module FP (spec/FP.tla).
 *
 * TLC looks for a class with the same name as a module (default package) on its classpath and
 * replaces the module's operators by the public static methods of the same name.  This class
 * gives TLC IEEE-754 binary64 arithmetic.  A float is the TLA+ tuple <<hi, lo>>: the two signed
 * 32-bit halves of its bit pattern (exact, JSON-safe, NaN/inf/-0 representable).
 *
 * Only primitives live here (StrictMath for the transcendental ones, so results do not depend on
 * the JVM's intrinsics).  Every definition, recurrence, tolerance and property is TLA+.
 */
import tlc2.value.impl.BoolValue;
import tlc2.value.impl.IntValue;
import tlc2.value.impl.StringValue;
import tlc2.value.impl.TupleValue;
import tlc2.value.impl.Value;
import util.UniqueString;

public class FP {

  static double d(final Value v) {
    final TupleValue t = (TupleValue) v.toTuple();
    if (t == null || t.elems.length != 2) {
      throw new RuntimeException("FP: not a float <<hi, lo>>: " + v);
    }
    final long hi = ((IntValue) t.elems[0]).val;
    final long lo = ((IntValue) t.elems[1]).val;
    return Double.longBitsToDouble((hi << 32) | (lo & 0xFFFFFFFFL));
  }

  static Value v(final double x) {
    final long b = Double.doubleToRawLongBits(x);
    return new TupleValue(new Value[] {IntValue.gen((int) (b >> 32)), IntValue.gen((int) (b & 0xFFFFFFFFL))});
  }

  static Value b(final boolean x) {
    return x ? BoolValue.ValTrue : BoolValue.ValFalse;
  }

  static int i(final Value v) {
    return ((IntValue) v).val;
  }

  // ---- arithmetic ------------------------------------------------------------------------
  public static Value FAdd(final Value a, final Value c) { return v(d(a) + d(c)); }
  public static Value FSub(final Value a, final Value c) { return v(d(a) - d(c)); }
  public static Value FMul(final Value a, final Value c) { return v(d(a) * d(c)); }
  public static Value FDiv(final Value a, final Value c) { return v(d(a) / d(c)); }
  public static Value FNeg(final Value a) { return v(-d(a)); }
  public static Value FAbs(final Value a) { return v(Math.abs(d(a))); }
  public static Value FSqrt(final Value a) { return v(StrictMath.sqrt(d(a))); }
  public static Value FExp(final Value a) { return v(StrictMath.exp(d(a))); }
  public static Value FLog(final Value a) { return v(StrictMath.log(d(a))); }
  public static Value FLog10(final Value a) { return v(StrictMath.log10(d(a))); }
  public static Value FSin(final Value a) { return v(StrictMath.sin(d(a))); }
  public static Value FCos(final Value a) { return v(StrictMath.cos(d(a))); }
  public static Value FTan(final Value a) { return v(StrictMath.tan(d(a))); }
  public static Value FAtan2(final Value a, final Value c) { return v(StrictMath.atan2(d(a), d(c))); }
  public static Value FPow(final Value a, final Value c) { return v(StrictMath.pow(d(a), d(c))); }
  public static Value FHypot(final Value a, final Value c) { return v(StrictMath.hypot(d(a), d(c))); }
  public static Value FMin(final Value a, final Value c) { return v(Math.min(d(a), d(c))); }
  public static Value FMax(final Value a, final Value c) { return v(Math.max(d(a), d(c))); }
  /** fused a*b+c is NOT used: numpy does not fuse.  */

  // ---- comparisons -----------------------------------------------------------------------
  public static Value FLt(final Value a, final Value c) { return b(d(a) < d(c)); }
  public static Value FLe(final Value a, final Value c) { return b(d(a) <= d(c)); }
  public static Value FEq(final Value a, final Value c) { return b(d(a) == d(c)); }
  public static Value FIsFinite(final Value a) { final double x = d(a); return b(!Double.isNaN(x) && !Double.isInfinite(x)); }
  public static Value FIsNaN(final Value a) { return b(Double.isNaN(d(a))); }
  public static Value FSign(final Value a) { final double x = d(a); return IntValue.gen(x > 0 ? 1 : (x < 0 ? -1 : 0)); }

  // ---- conversions -----------------------------------------------------------------------
  public static Value FInt(final Value a) { return v((double) i(a)); }
  public static Value FRat(final Value p, final Value q) { return v(((double) i(p)) / ((double) i(q))); }
  public static Value FStr(final Value s) { return v(Double.parseDouble(((StringValue) s).val.toString())); }
  public static Value FShow(final Value a) { return new StringValue(UniqueString.uniqueStringOf(Double.toString(d(a)))); }

  static Value toInt(final double x) {
    if (Double.isNaN(x) || x > 2147483647.0 || x < -2147483648.0) {
      throw new RuntimeException("FP: float does not fit a TLC integer: " + x);
    }
    return IntValue.gen((int) x);
  }
  public static Value FFloor(final Value a) { return toInt(StrictMath.floor(d(a))); }
  public static Value FCeil(final Value a) { return toInt(StrictMath.ceil(d(a))); }
  /** truncation towards zero, like Python's int(x) */
  public static Value FTrunc(final Value a) { final double x = d(a); return toInt(x < 0 ? StrictMath.ceil(x) : StrictMath.floor(x)); }
  /** round half to even, like numpy.round / Python's round */
  public static Value FRound(final Value a) { return toInt(StrictMath.rint(d(a))); }
  /** next representable double above / below (for bracketing) */
  public static Value FNextUp(final Value a) { return v(Math.nextUp(d(a))); }
  public static Value FNextDown(final Value a) { return v(Math.nextDown(d(a))); }
}

/*
 * TableIO.java -- TLC module override for spec/TableIO.tla: fast loading of integer tables.
 *
 * IntTable(path): a text file, one row per line, integers separated by blanks, becomes a tuple of
 * tuples of integers.  Used for lock-step implementation tables (hundreds of thousands of rows),
 * where the CommunityModules JSON reader needs ~1 s per MB.  Pure I/O: no arithmetic, no decisions.
 */
import java.io.BufferedReader;
import java.io.FileReader;
import java.util.ArrayList;
import tlc2.value.impl.IntValue;
import tlc2.value.impl.StringValue;
import tlc2.value.impl.TupleValue;
import tlc2.value.impl.Value;

public class TableIO {
  public static Value IntTable(final Value path) throws Exception {
    final String p = ((StringValue) path).val.toString();
    final ArrayList<Value> rows = new ArrayList<Value>();
    try (BufferedReader br = new BufferedReader(new FileReader(p), 1 << 20)) {
      String line;
      while ((line = br.readLine()) != null) {
        final int n = line.length();
        final ArrayList<Value> row = new ArrayList<Value>();
        int i = 0;
        while (i < n) {
          while (i < n && line.charAt(i) == ' ') i++;
          if (i >= n) break;
          int j = i;
          while (j < n && line.charAt(j) != ' ') j++;
          row.add(IntValue.gen(Integer.parseInt(line.substring(i, j))));
          i = j;
        }
        rows.add(new TupleValue(row.toArray(new Value[0])));
      }
    }
    return new TupleValue(rows.toArray(new Value[0]));
  }
}

#!/bin/sh
# Offline build of the verification framework: compile the FP override, parse every module.
set -e
cd "$(dirname "$0")"
mkdir -p build/classes work evidence replays
javac -nowarn -cp /opt/veriftools/tla/tla2tools.jar -d build/classes java/*.java
/venv/bin/python - <<'PY'
import sys, os
sys.path.insert(0, os.getcwd())
from harness import common, tlc
n = common.selftest_enc()
bad = []
for f in sorted(os.listdir("spec")):
    if f.endswith(".tla"):
        ok, out = tlc.sany(f[:-4])
        if not ok:
            bad.append(f)
            print(out[-1500:])
print("setup: encoder self-test on %d values ok; %s" % (n, "all modules parse" if not bad else "PARSE ERRORS: %s" % bad))
sys.exit(1 if bad else 0)
PY

#!/bin/sh
# usage: harness/seedlanes.sh <nlanes> <property> ...   re-runs every seeded and property-preserving change of the given properties
# (lanes never run two changes of the same property at once: the checks share a work directory per property)
cd "$(dirname "$0")/.."
N=$1; shift
i=0
for p in "$@"; do eval "L$((i % N))=\"\$L$((i % N)) $p\""; i=$((i + 1)); done
lane() { for p in "$@"; do
    ids=$(ls seeded | grep "^${p}_" | tr '\n' ' ')
    /venv/bin/python harness/seedtest.py --no-confirm $ids > seedlane_$p.log 2>&1
    idb=$(ls seeded_benign | grep "^${p}_" | tr '\n' ' ')
    /venv/bin/python harness/seedtest.py --benign --no-confirm $idb > seedlane_${p}_benign.log 2>&1
    echo "$p done $(date +%H:%M)"
  done; }
k=0
while [ $k -lt $N ]; do eval "lane \$L$k &"; k=$((k + 1)); done
wait
echo ALLDONE

"""The cluster object model (spec/ClusterObj.tla) bound to eqsig.Cluster in both directions.

spec -> code
  * graph(): TLC generates every interleaving of {set_master, time_match, same_start, comp_add, comp_delay} up to a
    depth from a set of small exact clusters (MC_ClusterObj, Emit = TRUE) and prints every transition; each (state,
    operation) is executed on a real Cluster built in that state and the object's new state must be one of the model's
    successors.
  * walks(): TLC -simulate behaviours of the same model are replayed on ONE object from the start (history included).
code -> spec
  * sessions(): random sessions on real clusters of float records, logged event by event and validated by
    Trace_ClusterObj, which carries the model state from event to event.

Clauses are those of C18 (LengthsUnchanged, ValuesStayArrays, MasterUnchanged, LagRemoved, SameStartAligned) and, for the
reads of the components' derived quantities, of C04 (Read_<what>, ClusterRead_<what>); the caller says which family it
reports (`family` = "C18" or "C04").
"""
import os
import re
import warnings

import numpy as np

from harness import tlc, gen
from harness.common import enc, dec, enc_seq, workdir, write_ndjson

DT = 0.5
C18_CLAUSES = {"LengthsUnchanged", "ValuesStayArrays", "MasterUnchanged", "LagRemoved", "SameStartAligned"}
BASE = [3, 1, 4, 1, 5, 9, 2, 6]
SHAPES = [[2, 7, 1, 8, 2, 8, 1, 8], [0, 0, 1, 3, 3, 0, -2, -2], [5, 5, 5, 4, 3, 3, 3, 9], [1, -1, 1, -1, 2, -2, 2, -2]]

MC_CFG = """SPECIFICATION Spec
CONSTANTS
 Emit = %s
 Depth = %d
 StepSet = {2, 3}
CONSTRAINT Bound
INVARIANT TypeOK
INVARIANT AlignedAfterSameStart
PROPERTY AlignKeepsMaster
PROPERTY LagIsMinimiser
PROPERTY SameStartIdempotent
CHECK_DEADLOCK FALSE
"""
SIM_CFG = """SPECIFICATION Spec
CONSTANTS
 Emit = TRUE
 Depth = 99
 StepSet = {2, 3}
CHECK_DEADLOCK FALSE
"""


def delayed(base, lag):
    b = np.asarray(base, dtype=float)
    n = len(b)
    return b[np.clip(np.arange(n) - lag, 0, n - 1)]


def initial_clusters(tier, seed):
    """small exact clusters (whole numbers and halves): delayed copies of a master, other shapes, offsets; k = 2..4"""
    rng = np.random.default_rng(seed + 1800)
    out = []
    nini = 3 if tier == "quick" else 14
    for c in range(nini):
        k = [2, 3, 2, 4, 3, 2][c % 6]
        n = int(rng.integers(6, 9))
        master = int(rng.integers(k))
        base = np.array((BASE + BASE)[int(rng.integers(4)):][:n], dtype=float)
        sigs = []
        for i in range(k):
            if i == master:
                sigs.append(base.copy())
            else:
                kind = int(rng.integers(3))
                if kind == 0:
                    s = delayed(base, int(rng.integers(-2, 3)))
                elif kind == 1:
                    s = np.array(SHAPES[int(rng.integers(len(SHAPES)))][:n], dtype=float)
                else:
                    s = delayed(base, int(rng.integers(-2, 3))) + float(rng.choice([0.5, -1.0, 2.0]))
                sigs.append(s)
        out.append((k, master, sigs))
    return out


def write_cfg(path, inits):
    with open(path, "w") as f:
        for cid, (k, master, sigs) in enumerate(inits, 1):
            row = [cid, k, len(sigs[0]), master + 1]
            for s in sigs:
                for x in s:
                    row += enc(float(x))
            f.write(" ".join(map(str, row)) + "\n")


_RE_E = re.compile(r'<<"E", (\d+), (\d+), <<([-\d, ]*)>>, <<"(\w+)", (-?\d+), (-?\d+)>>, <<([-\d, ]*)>>>>')


def _state(txt):
    v = [int(t) for t in txt.split(",")]
    k, n, master = v[0], v[1], v[2]
    fl = [dec((v[3 + 2 * j], v[4 + 2 * j])) for j in range(k * n)]
    return (master - 1, tuple(tuple(fl[i * n:(i + 1) * n]) for i in range(k)))


def parse_edges(out):
    flat = " ".join(out.split()).replace("<< ", "<<").replace(" >>", ">>")
    edges = []
    for m in _RE_E.finditer(flat):
        edges.append((int(m.group(1)), int(m.group(2)), _state(m.group(3)), (m.group(4), int(m.group(5)), int(m.group(6))), _state(m.group(7))))
    return edges


def build(state, variant):
    """a real Cluster holding `state`; variant picks component class, container and how the master was chosen"""
    import eqsig
    master, sigs = state
    k = len(sigs)
    vals = [np.array(s, dtype=float) for s in sigs]
    if variant % 3 == 1:
        vals = [v.tolist() for v in vals]
    stype = "acc" if variant % 2 else "custom"
    with warnings.catch_warnings():
        warnings.simplefilter("ignore")
        if variant % 4 == 2 and k > 1:
            c = eqsig.Cluster(vals, DT, master_index=(master + 1) % k, stypes=stype)
            c.master_index = master
        else:
            c = eqsig.Cluster(vals, DT, master_index=master, stypes=stype)
    return c


def observe(c):
    k = len(c.signals)
    raw = [c.values_by_index(i) for i in range(k)]
    arr = all(isinstance(v, np.ndarray) and v.dtype.kind in "fiu" for v in raw)
    return (int(c.master_index), tuple(tuple(float(x) for x in np.asarray(v, dtype=float)) for v in raw)), arr


def apply(c, op, variant=0):
    name, a, b = op
    with warnings.catch_warnings():
        warnings.simplefilter("ignore")
        if name == "set_master":
            c.master_index = a - 1
        elif name == "time_match":
            c.time_match(steps=a if variant % 2 else np.int64(a))
        elif name == "same_start":
            c.same_start(start=a * DT, end=(b - 1) * DT)
        elif name == "comp_add":
            c.signal_by_index(a - 1).add_constant(b / 2.0)
        elif name == "comp_delay":
            s = c.signal_by_index(a - 1)
            v = np.asarray(s.values, dtype=float)
            w = delayed(v, b)
            s.reset_values(w if variant % 2 else w.tolist())
        else:
            raise ValueError(name)


def _close(s, t, tol=1e-12):
    if s[0] != t[0] or len(s[1]) != len(t[1]):
        return False
    for x, y in zip(s[1], t[1]):
        if len(x) != len(y):
            return False
        sc = max(1.0, max(abs(v) for v in x), max(abs(v) for v in y))
        if any(abs(p - q) > tol * sc for p, q in zip(x, y)):
            return False
    return True


def classify(op, src, got, arr):
    """name the C18 clause that a wrong successor of an alignment operation breaks"""
    m = src[0]
    if len(got[1]) != len(src[1]) or any(len(x) != len(y) for x, y in zip(got[1], src[1])):
        return "LengthsUnchanged"
    if not arr:
        return "ValuesStayArrays"
    if got[0] != m or got[1][m] != src[1][m]:
        return "MasterUnchanged"
    return "LagRemoved" if op[0] == "time_match" else "SameStartAligned"


def _exec_chunk(tasks):
    out = []
    for vi, s, op in tasks:
        try:
            c = build(s, vi)
            apply(c, op, vi)
            got, arr = observe(c)
            out.append((vi, got, arr, None))
        except Exception as ex:          # the code under test raised on an in-domain call
            import traceback
            out.append((vi, None, False, "%s: %s | %s" % (type(ex).__name__, ex, traceback.format_exc().splitlines()[-3:])))
    return out


def graph(rep, tier, seed, job):
    """every transition of the bounded model executed on a real object"""
    wd = workdir(job)
    inits = initial_clusters(tier, seed)
    cfgp = os.path.join(wd, "clusters.txt")
    write_cfg(cfgp, inits)
    depth = 3          # two operations per behaviour (TLC level 3); long histories are the walks' part
    r = tlc.run("MC_ClusterObj", cfg=MC_CFG % ("TRUE", depth), env={"CONFIG_FILE": cfgp}, workers=1, job=job + "/mc", timeout=1800)
    if r.invariant_violated:
        raise tlc.MachineryError("model property violated in MC_ClusterObj: %s" % r.invariant_violated)
    edges = parse_edges(r.stdout)
    if len(edges) != r.generated - len(inits):
        raise tlc.MachineryError("MC_ClusterObj printed %d transitions, TLC generated %d states from %d initial ones" % (len(edges), r.generated, len(inits)))
    rep.add_tlc("MC_ClusterObj(depth=%d)" % (depth - 1), r,
                "%d initial clusters (k = 2..4, n = 6..8, exact values); every interleaving of set_master / time_match(2,3) / same_start(4 windows) / "
                "comp_add / comp_delay; model properties AlignedAfterSameStart, AlignKeepsMaster, LagIsMinimiser, SameStartIdempotent; "
                "every transition executed on a real Cluster" % len(inits))
    succ = {}
    for lvl, cid, s, op, t in edges:
        succ.setdefault((s, op), set()).add(t)
    items = sorted(succ.items(), key=lambda kv: repr(kv[0]))
    tasks = [(vi, s, op) for vi, ((s, op), _) in enumerate(items)]
    import multiprocessing
    chunks = [tasks[i::32] for i in range(32)]
    with multiprocessing.get_context("fork").Pool(16) as pool:
        results = [x for part in pool.map(_exec_chunk, chunks) for x in part]
    nexec = 0
    for vi, got, arr, err in sorted(results):
        (s, op), targets = items[vi]
        nexec += 1
        rep.count("graph:" + op[0])
        case = {"state": {"master_index": s[0], "signals": [list(x) for x in s[1]]}, "op": list(op)}
        if err is not None:
            rep.fail("Raises", "clusterobj:graph", dict(case, error=err))
            continue
        if op[0] in ("time_match", "same_start"):
            if not (arr and any(_close(got, t) for t in targets)):
                rep.fail(classify(op, s, got, arr), "clusterobj:graph", dict(case, got=[list(x) for x in got[1]], model=[[list(x) for x in t[1]] for t in sorted(targets)][:3]))
        elif not any(_close(got, t) for t in targets):
            rep.extra.setdefault("clusterobj_model_divergence", []).append({"op": list(op), "state": repr(s)[:200]})
    rep.evaluations += nexec
    rep.extra["clusterobj_graph"] = {"transitions": len(edges), "state_operation_pairs_executed": nexec, "initial_clusters": len(inits), "operations_per_behaviour": depth - 1}
    return inits, cfgp


def walks(rep, tier, seed, job, cfgp, ninits):
    """random behaviours of the model replayed on one real object each, state compared after every call"""
    num = 40 if tier == "quick" else 400
    dep = 9 if tier == "quick" else 14
    r = tlc.run("MC_ClusterObj", cfg=SIM_CFG, env={"CONFIG_FILE": cfgp}, workers=1, job=job + "/sim", timeout=1800,
                simulate="num=%d" % num, extra=["-depth", str(dep), "-seed", str(seed + 7)])
    edges = parse_edges(r.stdout)
    if not edges:
        raise tlc.MachineryError("MC_ClusterObj -simulate printed no transitions")
    # TLC's simulator evaluates one (randomly chosen) disjunct of Next completely and then picks one of its successors: every
    # successor of that disjunct is printed.  Consecutive edges with the same level and source form one step; the successor
    # that was taken is the one the next step starts from (any of them for the last step of a behaviour).
    groups = []
    for e in edges:
        if groups and groups[-1][0][0] == e[0] and groups[-1][0][2] == e[2]:
            groups[-1].append(e)
        else:
            groups.append([e])
    behaviours, cur = [], []
    for gi, g in enumerate(groups):
        if g[0][0] == 1 and cur:
            behaviours.append(cur)
            cur = []
        nxt = groups[gi + 1] if gi + 1 < len(groups) and groups[gi + 1][0][0] == g[0][0] + 1 else None
        pick = g[0]
        if nxt is not None:
            cands = [e for e in g if e[4] == nxt[0][2]]
            if not cands:
                raise tlc.MachineryError("MC_ClusterObj -simulate: cannot chain the printed transitions at level %d" % g[0][0])
            pick = cands[0]
        cur.append(pick)
    if cur:
        behaviours.append(cur)
    steps = 0
    for bi, beh in enumerate(behaviours):
        c = build(beh[0][2], bi)
        hist = []
        for lvl, cid, s, op, t in beh:
            apply(c, op, bi + lvl)
            got, arr = observe(c)
            steps += 1
            hist.append(list(op))
            rep.count("walk:" + op[0])
            if op[0] in ("time_match", "same_start"):
                # the model's successor is one of possibly several (ties between lags): accept any residual-minimising outcome
                ok = arr and (_close(got, t) or _alt_ok(s, op, got))
                if not ok:
                    rep.fail(classify(op, s, got, arr), "clusterobj:walk", {"behaviour": bi, "history": hist, "state": {"master_index": s[0], "signals": [list(x) for x in s[1]]},
                                                                       "got": [list(x) for x in got[1]], "model": [list(x) for x in t[1]]})
                    break
                if not _close(got, t):
                    break          # another minimiser was removed: the rest of the behaviour no longer describes this object
            elif not _close(got, t):
                rep.extra.setdefault("clusterobj_model_divergence", []).append({"op": list(op), "behaviour": bi})
                break
    rep.evaluations += steps
    rep.extra["clusterobj_walks"] = {"behaviours": len(behaviours), "steps_replayed": steps, "depth": dep}
    rep.jobs.append({"job": "MC_ClusterObj -simulate", "distinct_states": 0, "states_generated": len(edges), "depth": dep, "wall_s": round(r.wall_s, 2),
                     "note": "%d random behaviours, each replayed on one real Cluster from its start" % len(behaviours), "coverage": None})


def _ssr(om, bm, L, st):
    n = len(bm)
    om, bm = np.asarray(om), np.asarray(bm)
    if L >= 0:
        return float(np.sum((om[L:n - st + L] - bm[:n - st]) ** 2))
    return float(np.sum((bm[-L:n - st - L] - om[:n - st]) ** 2))


def _alt_ok(s, op, got):
    """time_match with ties: every other component was shifted by SOME residual-minimising lag (values are exact here)"""
    if op[0] != "time_match":
        return False
    m, sigs = s
    st = op[1]
    if got[0] != m or got[1][m] != sigs[m]:
        return False
    for i, x in enumerate(sigs):
        if i == m:
            continue
        res = {L: _ssr(x, sigs[m], L, st) for L in range(1 - st, st)}
        best = min(res.values())
        if not any(res[L] == best and tuple(delayed(x, -L)) == got[1][i] for L in res):
            return False
    return True


# ------------------------------------------------------------------------------------------------------------------
def sessions(path, tier, seed, family):
    """random sessions on real clusters of float records -> ndjson for Trace_ClusterObj; returns meta per tid"""
    import eqsig
    from eqsig import im
    rng = np.random.default_rng(seed + (1801 if family == "C18" else 401))
    nsess = (14 if tier == "quick" else 90) if family == "C18" else (8 if tier == "quick" else 50)
    nev = 10 if tier == "quick" else 16
    recs, meta = [], {}
    for tid in range(1, nsess + 1):
        k = int(rng.integers(2, 5))
        n = int(rng.integers(40, 110))
        dt = float(rng.choice([0.01, 0.02, 0.05]))
        steps0 = int(rng.integers(2, 7))
        base = np.cumsum(rng.standard_normal(n + 2 * steps0)) * float(rng.choice([1.0, 1.0, 1e-6, 1e4]))
        master = int(rng.integers(k))
        sigs = []
        for j in range(k):
            lg = 0 if j == master else int(rng.integers(1 - steps0, steps0))
            s = base[steps0 - lg: steps0 - lg + n].copy()
            if j != master and rng.integers(2):
                s = s + 0.01 * np.std(base) * rng.standard_normal(n)
            if j != master and rng.integers(2):
                s = s + float(rng.uniform(-1, 1)) * np.std(base)
            sigs.append(s)
        stype = "acc" if (family == "C04" or rng.integers(2)) else "custom"
        with warnings.catch_warnings():
            warnings.simplefilter("ignore")
            c = eqsig.Cluster([s.copy() if rng.integers(2) else s.tolist() for s in sigs], dt, master_index=gen.intlike(rng, master), stypes=stype)
            ev = [{"op": "construct", "sigs": [enc_seq(s) for s in sigs], "dt": enc(dt), "master": master + 1}]
            ops = []

            def after():
                raw = [c.values_by_index(i) for i in range(k)]
                arr = all(isinstance(v, np.ndarray) and v.dtype.kind in "fiu" for v in raw)
                return [enc_seq(np.asarray(v, dtype=float)) for v in raw], bool(arr)

            def comp_read(i):
                o = c.signal_by_index(i)
                whats = ["npts", "values_k", "time_last", "fas", "fas_bins"]
                if stype == "acc":
                    whats += ["pga", "pgv", "pgd", "velocity_last", "displacement_last", "arias_last", "cav_last"] * 2
                w = whats[int(rng.integers(len(whats)))]
                kk = 0
                if w == "npts":
                    v = float(o.npts)
                elif w == "values_k":
                    kk = int(rng.integers(o.npts))
                    v = float(o.values[kk])
                elif w == "time_last":
                    v = float(o.time[-1])
                elif w == "fas_bins":
                    v = float(len(o.fa_spectrum))
                elif w == "fas":
                    kk = int(rng.integers(len(o.fa_spectrum)))
                    z = complex(o.fa_spectrum[kk])
                    return {"op": "read", "i": i + 1, "what": w, "k": kk, "val": [enc(z.real), enc(z.imag)]}
                elif w == "pga":
                    v = float(o.pga)
                elif w == "pgv":
                    v = float(o.pgv)
                elif w == "pgd":
                    v = float(o.pgd)
                elif w == "velocity_last":
                    v = float(o.velocity[-1])
                elif w == "displacement_last":
                    v = float(o.displacement[-1])
                elif w == "arias_last":
                    v = float(im.calc_arias_intensity(o)[-1])
                else:
                    v = float(im.calc_cav(o)[-1])
                return {"op": "read", "i": i + 1, "what": w, "k": kk, "val": [enc(v), enc(0.0)]}

            def cluster_read():
                w = ["n_signals", "values_by_index", "values_by_name", "time_last", "master_values"][int(rng.integers(5))]
                i, kk = int(rng.integers(k)), int(rng.integers(n))
                if w == "n_signals":
                    v = float(c.n_signals)
                elif w == "values_by_index":
                    v = float(c.values_by_index(i)[kk])
                elif w == "values_by_name":
                    v = float(c.values(c.name_by_index(i))[kk])
                elif w == "time_last":
                    v = float(c.time[-1])
                else:
                    v = float(c.signal_by_index(c.master_index).values[kk])
                return {"op": "cread", "what": w, "i": i + 1, "k": kk, "val": [enc(v), enc(0.0)]}

            for _ in range(nev):
                u = rng.random()
                if u < (0.30 if family == "C18" else 0.55):
                    ev.append(comp_read(int(rng.integers(k))))
                    ops.append("read")
                elif u < (0.36 if family == "C18" else 0.62):
                    ev.append(cluster_read())
                    ops.append("cread")
                elif u < 0.50:
                    m = int(rng.integers(k))
                    c.master_index = gen.intlike(rng, m)
                    master = m
                    ev.append({"op": "set_master", "m": m + 1})
                    ops.append("set_master")
                elif u < 0.66:
                    st = int(rng.integers(2, 8))
                    c.time_match(steps=gen.intlike(rng, st))
                    a, arr = after()
                    ev.append({"op": "time_match", "st": st, "after": a, "arr": arr})
                    ops.append("time_match(%d)" % st)
                elif u < 0.82:
                    e_idx = int(rng.integers(3, n // 2))
                    s_idx = int(rng.integers(0, e_idx - 1))
                    start_t, end_t = (s_idx + 0.4) * dt, (e_idx - 1 + 0.4) * dt
                    if int(start_t / dt) != s_idx or int(end_t / dt) + 1 != e_idx:
                        continue
                    c.same_start(start=start_t, end=end_t)
                    a, arr = after()
                    ev.append({"op": "same_start", "s": s_idx, "e": e_idx, "after": a, "arr": arr})
                    ops.append("same_start(%d,%d)" % (s_idx, e_idx))
                elif u < 0.90:
                    i = int(rng.integers(k))
                    cst = float(rng.uniform(-1, 1) * np.std(base))
                    c.signal_by_index(i).add_constant(cst)
                    ev.append({"op": "comp_add", "i": i + 1, "c": enc(cst), "after": enc_seq(np.asarray(c.values_by_index(i), dtype=float))})
                    ops.append("comp_add(%d)" % i)
                elif u < 0.96:
                    i = int(rng.integers(k))
                    y = np.asarray(c.values_by_index(i), dtype=float) * float(rng.uniform(0.5, 1.5)) + 0.02 * np.std(base) * rng.standard_normal(n)
                    c.signal_by_index(i).reset_values(y if rng.integers(2) else y.tolist())
                    ev.append({"op": "comp_reset", "i": i + 1, "vals": enc_seq(y)})
                    ops.append("comp_reset(%d)" % i)
                elif k >= 2 and n >= 60:
                    lo, hi = [int(x) for x in rng.choice(k, size=2, replace=False)]
                    c.combine_motions(0.1 / dt, low_index=lo, high_index=hi)
                    a, arr = after()
                    ev.append({"op": "havoc", "name": "combine_motions", "after": a})
                    ops.append("combine_motions(%d,%d)" % (lo, hi))
        recs.append({"tid": tid, "events": ev})
        meta[tid] = {"kind": "cluster session", "k": k, "n": n, "dt": dt, "components": stype, "operations": ops}
    write_ndjson(path, recs)
    return meta


def run_sessions(rep, tier, seed, job, family):
    wd = workdir(job)
    tr = os.path.join(wd, "sessions.ndjson")
    meta = sessions(tr, tier, seed, family)
    r = tlc.run("Trace_ClusterObj", cfg="Trace_ClusterObj", env={"TRACE_FILE": tr}, job=job + "/trace")
    rep.add_tlc("Trace_ClusterObj", r, "sessions on real clusters (k = 2..4, float records): set_master / time_match / same_start / component changes / "
                                       "combine_motions / reads, the model state carried from event to event")
    for t in meta:
        if t not in r.verdicts:
            raise tlc.MachineryError("no verdict for cluster session %d" % t)
        rep.traces += 1
        for cl in r.verdicts[t][0]:
            mine = (cl in C18_CLAUSES) if family == "C18" else (cl.startswith("Read_") or cl.startswith("ClusterRead_"))
            if mine:
                rep.fail(cl, "clusterobj:session", meta[t])
            else:
                rep.extra.setdefault("clusterobj_other_clauses", []).append({"session": t, "clause": cl})
    rep.sample(meta[1])

"""External tracer: records sessions of Signal / AccSignal objects while the repository's own
test-suite (or any other program) runs, without touching the source tree.

Enabled only when EQSIG_VERIF_TRACE=<output ndjson> is set; loaded as a pytest plugin
(`-p harness.tracer` with PYTHONPATH=/verif) or imported explicitly.  It wraps the public methods and
property getters/setters of eqsig.single.Signal / AccSignal at import time and logs ONE event per
OUTERMOST public call on an object (depth counter; logged in `finally`, so the error path is logged
too), mapped onto the operation names of spec/SignalCache.tla.  After each event the projection pi of
the real object is logged: per memoised quantity 0 = memo bit off, 1 = flagged and equal to what a
freshly constructed object reports, 2 = flagged and stale.  (A quantity whose memo bit is off is
recomputed on the next read, hence fresh by construction: only flagged quantities are compared.)

A call outside the property's operation alphabet (explicit generators with non-default arguments,
deprecated statistics, ...) ends the object's session at that point: the prefix is validated.
"""
import atexit
import copy
import json
import os
import warnings

import numpy as np

OUT = os.environ.get("EQSIG_VERIF_TRACE")
_state = {"depth": 0, "busy": False, "sessions": {}, "order": [], "closed": set()}

QORDER = {"AccSignal": ["fa", "smooth", "dv", "rs", "pga", "pgv", "pgd"], "Signal": ["fa", "smooth"]}
QREADS = {"fa": ["fa_spectrum", "fa_freqs"], "smooth": ["smooth_fa_spectrum"], "dv": ["velocity", "displacement"],
          "rs": ["s_a", "s_v", "s_d"], "pga": ["pga"], "pgv": ["pgv"], "pgd": ["pgd"]}
FLAGATTR = {"fa": "_cached_fa", "smooth": "_cached_smooth_fa", "dv": "_cached_disp_and_velo", "rs": "_cached_response_spectra"}
GETTERS = ["values", "npts", "time", "dt", "fa_spectrum", "fa_spectrum_abs", "fa_freqs", "fa_frequencies", "smooth_fa_spectrum",
           "smooth_fa_freqs", "velocity", "displacement", "pga", "pgv", "pgd", "s_a", "s_v", "s_d", "response_times"]
SETTERS = {"smooth_fa_freqs": "set_smooth_fa_freqs", "smooth_fa_frequencies": "set_smooth_fa_frequencies",
           "smooth_freq_range": "set_smooth_freq_range", "smooth_freq_points": "set_smooth_freq_points",
           "response_times": "set_response_times"}
PLAIN = ["reset_values", "add_constant", "add_signal", "butter_pass", "remove_average", "remove_poly", "running_average",
         "correct_me", "rebase_displacement", "set_zero_residual_velocity", "set_zero_residual_displacement",
         "set_zero_residual_displacement_and_velocity", "get_section_average", "set_smooth_fa_frequecies_by_range"]


def _same(a, b):
    a, b = np.asarray(a), np.asarray(b)
    if a.shape != b.shape:
        return False
    if a.size == 0 or np.array_equal(a, b):
        return True
    scale = max(float(np.max(np.abs(b))), 1e-300)
    with np.errstate(all="ignore"):
        return bool(np.all(np.abs(a - b) <= 1e-12 * scale))


def _project(obj):
    kind = type(obj).__name__
    import eqsig
    codes = []
    fresh_obj = None
    for q in QORDER[kind]:
        try:
            fl = bool(getattr(obj, FLAGATTR[q])) if q in FLAGATTR else (q in obj._cached_params)
        except AttributeError:
            codes.append(-1)
            continue
        if not fl:
            codes.append(0)
            continue
        if fresh_obj is None:
            kw = {"smooth_fa_freqs": np.array(obj.smooth_fa_freqs, copy=True)}
            if kind == "AccSignal":
                kw["response_times"] = np.array(obj.response_times, copy=True)
            fresh_obj = type(obj)(np.array(obj.values, copy=True), obj.dt, **kw)
        ok = True
        for r in QREADS[q]:
            got = getattr(copy.deepcopy(obj), r)
            want = getattr(fresh_obj, r)
            ok = ok and _same(got, want)
        codes.append(1 if ok else 2)
    return codes


def _opname(name, args, kwargs, raised):
    """model operation for a public call, or None if the call is outside the property's alphabet"""
    if name in PLAIN:
        return name
    if name == "add_series":
        return "add_series_bad_length" if raised else "add_series"
    if name == "clear_cache":
        return "clear_cache_noop"
    if name == "remove_rolling_average":
        m = kwargs.get("mtype", args[0] if args else "velocity")
        return "remove_rolling_average_velocity" if m == "velocity" else "remove_rolling_average_acc"
    if name in ("generate_fa_spectrum",):
        return name
    if name == "gen_fa_spectrum":
        return name if (kwargs.get("p2_plus", args[0] if args else 0) == 0 and kwargs.get("n", args[1] if len(args) > 1 else None) is None) else None
    if name == "generate_smooth_fa_spectrum":
        return name if kwargs.get("band", args[0] if args else 40) == 40 else None
    if name == "gen_smooth_fa_spectrum":
        if kwargs.get("band", args[1] if len(args) > 1 else 40) != 40:
            return None
        return "gen_smooth_fa_spectrum" if kwargs.get("smooth_fa_freqs", args[0] if args else None) is None else "gen_smooth_fa_spectrum_freqs"
    if name in ("gen_response_spectrum", "generate_response_spectrum"):
        rt = kwargs.get("response_times", args[0] if args else None)
        xi = kwargs.get("xi", args[1] if len(args) > 1 else -1)
        ratio = kwargs.get("min_dt_ratio", args[2] if len(args) > 2 else 4)
        if xi != -1 or ratio != 4:
            return None
        return name if rt is None else "gen_response_spectrum_rt"
    if name == "generate_displacement_and_velocity_series":
        return name if kwargs.get("trap", args[0] if args else True) is True else None
    if name == "response_series":
        rt = kwargs.get("response_times", args[0] if args else None)
        return "response_series" if rt is None else "response_series_rt"
    return None


def _log(obj, op):
    sid = id(obj)
    if sid in _state["closed"] or sid not in _state["sessions"]:
        return
    if op is None:
        _state["closed"].add(sid)
        return
    _state["busy"] = True
    try:
        with warnings.catch_warnings():
            warnings.simplefilter("ignore")
            pi = _project(obj)
    except Exception as ex:      # projection impossible (e.g. the object is in a broken state): end the session
        _state["closed"].add(sid)
        return
    finally:
        _state["busy"] = False
    _state["sessions"][sid]["events"].append({"op": op, "pi": pi})


def _wrap_method(cls, name):
    orig = cls.__dict__[name]

    def wrapper(self, *a, **k):
        if _state["busy"]:
            return orig(self, *a, **k)
        _state["depth"] += 1
        raised = False
        try:
            return orig(self, *a, **k)
        except BaseException:
            raised = True
            raise
        finally:
            _state["depth"] -= 1
            if _state["depth"] == 0:
                _log(self, _opname(name, a, k, raised))
    wrapper.__name__ = name
    setattr(cls, name, wrapper)


def _wrap_property(cls, name):
    prop = cls.__dict__[name]
    fget, fset = prop.fget, prop.fset

    def getter(self):
        if _state["busy"]:
            return fget(self)
        _state["depth"] += 1
        try:
            return fget(self)
        finally:
            _state["depth"] -= 1
            if _state["depth"] == 0 and name in GETTERS:
                _log(self, name)

    def setter(self, v):
        if _state["busy"] or fset is None:
            return fset(self, v)
        _state["depth"] += 1
        try:
            return fset(self, v)
        finally:
            _state["depth"] -= 1
            if _state["depth"] == 0:
                _log(self, SETTERS.get(name))
    setattr(cls, name, property(getter, setter if fset is not None else None, prop.fdel, prop.__doc__))


def _wrap_init(cls):
    orig = cls.__dict__["__init__"]

    def init(self, *a, **k):
        if _state["busy"]:
            return orig(self, *a, **k)
        _state["depth"] += 1
        try:
            return orig(self, *a, **k)
        finally:
            _state["depth"] -= 1
            if _state["depth"] == 0 and type(self).__name__ in QORDER:
                sid = id(self)
                _state["closed"].discard(sid)
                rec = {"kind": type(self).__name__, "src": "testsuite", "npts": int(len(np.atleast_1d(self.values))), "events": [], "keep": self}
                _state["sessions"][sid] = rec
                _state["order"].append(rec)
    setattr(cls, "__init__", init)


def install():
    from eqsig import single
    for cls in (single.Signal, single.AccSignal):
        _wrap_init(cls)
        for name, member in list(cls.__dict__.items()):
            if name.startswith("_"):
                continue
            if isinstance(member, property):
                _wrap_property(cls, name)
            elif callable(member):
                _wrap_method(cls, name)
    atexit.register(dump)


def dump():
    if not OUT:
        return
    with open(OUT, "w") as f:
        for i, rec in enumerate(_state["order"]):
            if rec["events"]:
                f.write(json.dumps({"tid": i + 1, "kind": rec["kind"], "src": rec["src"], "npts": rec["npts"], "events": rec["events"]}) + "\n")


if OUT:
    install()

"""The file store model (spec/FileStore.tla) bound to eqsig.loader in both directions (property C16 over histories).

spec -> code: -simulate behaviours of FileStore (paths x contents, Save / Load / Scribble) are replayed on real files with
concrete records standing for the content ids; every Load must return the content the model says the path holds.
code -> spec: the same real sessions are logged (records as exact floats) and validated by Trace_FileStore, which carries
the files from event to event.
"""
import os
import re
import shutil
import warnings

import numpy as np

from harness import tlc
from harness.common import enc, enc_seq, workdir, write_ndjson

SIM_CFG = """SPECIFICATION Spec
CONSTANTS
 NPaths = 2
 NContents = 3
 Emit = TRUE
INVARIANT TypeOK
PROPERTY LoadReturnsFile
PROPERTY OnlySaveWrites
CHECK_DEADLOCK FALSE
"""
_RE_F = re.compile(r'<<"F", (\d+), "(\w+)", (-?\d+), (-?\d+), <<([-\d, ]*)>>, <<(-?\d+), (-?\d+)>>>>')


def behaviours(out):
    flat = " ".join(out.split()).replace("<< ", "<<").replace(" >>", ">>")
    edges = [(int(m.group(1)), m.group(2), int(m.group(3)), int(m.group(4)), tuple(int(v) for v in m.group(5).split(",")), (int(m.group(6)), int(m.group(7))))
             for m in _RE_F.finditer(flat)]
    # the simulator prints every successor of the disjunct it evaluates; the one taken is the state the next level starts from.
    # the model is deterministic per (op, args), so a behaviour is recovered by keeping, per level, the edge whose resulting
    # state is consistent with the next level's operations (any edge for the last level)
    groups = []
    for e in edges:
        if groups and groups[-1][0][0] == e[0]:
            groups[-1].append(e)
        else:
            groups.append([e])
    behs, cur, state = [], [], None
    for gi, g in enumerate(groups):
        if g[0][0] == 1 and cur:
            behs.append(cur)
            cur = []
        nxt = groups[gi + 1] if gi + 1 < len(groups) and groups[gi + 1][0][0] == g[0][0] + 1 else None
        pick = g[0]
        if nxt is not None:
            # a successor is the one taken iff every edge printed at the next level starts from it: loads printed there return its files
            def consistent(e):
                files, held = e[4], e[5]
                for ne in nxt:
                    if ne[1] == "load" and files[ne[2] - 1] != ne[3]:
                        return False
                    if ne[1] == "scribble" and held[0] <= 0:
                        return False
                    if ne[1] == "save":
                        f2 = list(files)
                        f2[ne[2] - 1] = ne[3]
                        if tuple(f2) != ne[4]:
                            return False
                return True
            cands = [e for e in g if consistent(e)]
            if not cands:
                raise tlc.MachineryError("FileStore -simulate: cannot chain the printed transitions at level %d" % g[0][0])
            pick = cands[0]
        cur.append(pick)
    if cur:
        behs.append(cur)
    return behs


def run(rep, tier, seed, job, loaders, load):
    """`loaders` / `load(k, path)` are the C16 driver's table of entry points"""
    import eqsig
    from eqsig import loader
    wd = workdir(job)
    num = 100 if tier == "quick" else 600
    dep = 12 if tier == "quick" else 18
    r = tlc.run("FileStore", cfg=SIM_CFG, workers=1, job=job + "/sim", timeout=900, simulate="num=%d" % num, extra=["-depth", str(dep), "-seed", str(seed + 16)])
    behs = behaviours(r.stdout)
    if not behs:
        raise tlc.MachineryError("FileStore -simulate printed no transitions")
    rng = np.random.default_rng(seed + 1616)
    tmp = os.path.join(wd, "files")
    shutil.rmtree(tmp, ignore_errors=True)
    os.makedirs(tmp, exist_ok=True)
    recs, meta = [], {}
    steps = 0
    for bi, beh in enumerate(behs):
        # concrete records for the content ids of this behaviour: same length or not, whole numbers or reals, close or far apart
        same_len = bool(rng.integers(2))
        n0 = int(rng.integers(1, 30))
        contents = {}
        for c in (1, 2, 3):
            n = n0 if same_len else int(rng.integers(1, 30))
            x = rng.standard_normal(n) * 10.0 ** rng.uniform(-3, 4) if rng.integers(3) else (rng.integers(-50, 51, size=n) * 10.0).astype(float)
            contents[c] = (x, float(rng.choice([0.01, 0.005, 1.5, 0.02])), "rec %d" % c)
        paths = {p: os.path.join(tmp, "b%d_p%d.txt" % (bi, p)) for p in (1, 2)}
        held = None
        ev = []
        for lvl, op, a, b, files, mheld in beh:
            steps += 1
            rep.count("filestore:" + op)
            if op == "save":
                x, dt, lab = contents[b]
                if rng.integers(2):
                    loader.save_signal(paths[a], (eqsig.AccSignal if rng.integers(2) else eqsig.Signal)(x.copy(), dt, label=lab))
                else:
                    loader.save_values_and_dt(paths[a], x.copy() if rng.integers(2) else x.tolist(), dt, lab)
                ev.append({"op": "save", "p": a, "x": enc_seq(x), "dt": enc(dt)})
            elif op == "load":
                k = 0 if rng.integers(3) == 0 else int(rng.integers(len(loaders)))      # (entry 0 hands out the parsed array itself)
                want_lab = contents[b][2]
                raised, n2, dt2, y, lab_ok, cls_ok, m = False, 0, 0.0, [], False, False, 1.0
                try:
                    with warnings.catch_warnings():
                        warnings.simplefilter("ignore")
                        v, dt2, lab, cls_ok, o, m = load(k, paths[a])
                    held = v
                    vv = np.asarray(v, dtype=float)
                    n2 = int(vv.size) if vv.ndim > 0 else -1
                    y = np.atleast_1d(vv).copy()
                    lab_ok = True if lab is None else (lab == (want_lab if "label" in loaders[k] else "m1"))
                except Exception:
                    raised = True
                ev.append({"op": "load", "p": a, "m": enc(m), "raised": raised, "npts2": n2, "dt2": enc(float(dt2)), "y": enc_seq(y),
                           "label_ok": bool(lab_ok), "class_ok": bool(cls_ok), "loader": loaders[k]})
            else:
                if isinstance(held, np.ndarray) and held.ndim == 1 and held.flags.writeable:
                    held *= -3.0
                    held += 1.0
                ev.append({"op": "scribble"})
        recs.append({"tid": bi + 1, "npaths": 2, "events": ev})
        meta[bi + 1] = {"kind": "file session", "operations": [(e["op"], e.get("p"), e.get("loader")) for e in ev]}
    shutil.rmtree(tmp, ignore_errors=True)
    tr = os.path.join(wd, "sessions.ndjson")
    write_ndjson(tr, recs)
    r2 = tlc.run("Trace_FileStore", cfg="Trace_FileStore", env={"TRACE_FILE": tr}, job=job + "/trace")
    rep.add_tlc("Trace_FileStore", r2, "%d FileStore behaviours (-simulate, 2 paths x 3 contents, Save / Load / Scribble, %d operations) replayed on real files; "
                                       "every load validated against the file the model holds" % (len(behs), steps))
    rep.jobs.append({"job": "FileStore -simulate", "distinct_states": 0, "states_generated": steps, "depth": dep, "wall_s": round(r.wall_s, 2),
                     "note": "behaviours of the file store model; properties LoadReturnsFile, OnlySaveWrites", "coverage": None})
    for t in meta:
        if t not in r2.verdicts:
            raise tlc.MachineryError("no verdict for file session %d" % t)
        rep.traces += 1
        for cl in r2.verdicts[t][0]:
            rep.fail(cl, "filestore:session", meta[t])
    rep.evaluations += steps
    rep.extra["filestore"] = {"behaviours": len(behs), "operations": steps}

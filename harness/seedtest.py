"""Runs the checks against the seeded changes in /verif/seeded/<id>/ (mutation self-test).

For each seed: copy /repo to a scratch directory outside /repo and /verif, apply patch.diff there,
confirm (a) the repository's test-suite still passes, (b) demo.py fails with the change and passes
without it, then run the property's check with VERIF_REPO pointing at the scratch copy and record
whether it reported a VIOLATION.  The scratch copy is removed afterwards.  Results are written to
seeded/<id>/result.json (and summarised in seeded/RESULTS.md by --summary).

usage: python harness/seedtest.py [--tier quick] [--no-confirm] <seed id> ...
"""
import json
import os
import shutil
import subprocess
import sys
import tempfile
import time

VERIF = os.path.dirname(os.path.dirname(os.path.abspath(__file__)))
PY = "/venv/bin/python"


def sh(cmd, cwd=None, env=None, timeout=3600):
    e = dict(os.environ)
    if env:
        e.update(env)
    p = subprocess.run(cmd, cwd=cwd, env=e, stdout=subprocess.PIPE, stderr=subprocess.STDOUT, timeout=timeout)
    return p.returncode, p.stdout.decode("utf-8", "replace")


def run_seed(sid, tier="quick", confirm=True, props=None, benign=False):
    sdir = os.path.join(VERIF, "seeded_benign" if benign else "seeded", sid)
    meta = json.load(open(os.path.join(sdir, "meta.json")))
    pid = meta.get("property", sid.split("_")[0])
    scratch = tempfile.mkdtemp(prefix="eqsig_seed_%s_" % sid, dir="/tmp")
    res = {"seed": sid, "property": pid, "tier": tier, "at": time.strftime("%Y-%m-%d %H:%M:%S")}
    prev = os.path.join(sdir, "result.json")
    if not confirm and os.path.exists(prev):
        # keep the confirmation (demo fails / passes, repository tests pass) recorded by an earlier full run
        try:
            old = json.load(open(prev))
            for k in ("demo_passes_without_change", "demo_fails_with_change", "tests_pass_with_change", "tests_tail"):
                if k in old:
                    res[k] = old[k]
        except ValueError:
            pass
    try:
        rc, out = sh(["git", "-C", "/repo", "worktree", "list"])
        shutil.rmtree(scratch)
        shutil.copytree("/repo", scratch, ignore=shutil.ignore_patterns(".git", "__pycache__", "*.pyc", ".pytest_cache"))
        env = {"PYTHONPATH": scratch, "PYTHONDONTWRITEBYTECODE": "1"}
        if confirm:
            rc0, out0 = sh([PY, os.path.join(sdir, "demo.py")], cwd=scratch, env=env)
            res["demo_passes_without_change"] = rc0 == 0
        rc, out = sh(["git", "apply", "--unsafe-paths", "--directory=" + scratch, os.path.join(sdir, "patch.diff")], cwd="/")
        if rc != 0:
            rc, out = sh(["patch", "-p1", "-i", os.path.join(sdir, "patch.diff")], cwd=scratch)
        res["patch_applies"] = rc == 0
        if rc != 0:
            res["patch_error"] = out[-500:]
            return res
        if confirm:
            rc1, out1 = sh([PY, os.path.join(sdir, "demo.py")], cwd=scratch, env=env)
            res["demo_fails_with_change"] = rc1 != 0
            if benign and rc1 != 0:
                res["demo_tail"] = out1.strip().splitlines()[-3:]
            rc2, out2 = sh([PY, "-m", "pytest", "-q", "-p", "no:cacheprovider", "tests"], cwd=scratch, env=env)
            res["tests_pass_with_change"] = rc2 == 0
            res["tests_tail"] = out2.strip().splitlines()[-1] if out2.strip() else ""
        res["checks"] = {}
        for p in (props or [pid]):
            t0 = time.time()
            rc3, out3 = sh([os.path.join(VERIF, "check"), p, "--tier", tier], cwd=VERIF,
                           env={"VERIF_REPO": scratch, "PYTHONDONTWRITEBYTECODE": "1"})
            viol = [l for l in out3.splitlines() if l.startswith("VIOLATION") or l.startswith("  clause=")]
            res["checks"][p] = {"exit": rc3, "detected": rc3 == 1, "wall_s": round(time.time() - t0, 1),
                                "lines": viol[:8], "tail": out3.strip().splitlines()[-1:] if rc3 != 1 else []}
        res["detected"] = any(c["detected"] for c in res["checks"].values())
        if benign:
            res["false_alarm"] = any(c["exit"] != 0 for c in res["checks"].values())
    finally:
        shutil.rmtree(scratch, ignore_errors=True)
    vs = os.environ.get("VERIF_SEED", "0") or "0"
    res["verif_seed"] = int(vs)
    # runs at another generator seed (VERIF_SEED=k) are kept next to the default-seed result, which RESULTS.md reports
    with open(os.path.join(sdir, "result.json" if vs == "0" else "result.seed%s.json" % vs), "w") as f:
        json.dump(res, f, indent=1)
    return res


def summary_benign():
    rows = []
    base = os.path.join(VERIF, "seeded_benign")
    for sid in sorted(os.listdir(base)):
        p = os.path.join(base, sid, "result.json")
        if os.path.exists(p):
            r = json.load(open(p))
            m = json.load(open(os.path.join(base, sid, "meta.json")))
            rows.append("| %s | %s | %s | %s | %s |" % (
                sid, r["property"], (m.get("summary", "") or "")[:140].replace("|", "/").replace("\n", " "),
                "yes" if r.get("tests_pass_with_change") else "?", "FALSE ALARM" if r.get("false_alarm") else "quiet (exit 0)"))
    with open(os.path.join(base, "RESULTS.md"), "w") as f:
        f.write("| change | property | property-preserving change | repo tests pass | check (quick) |\n|---|---|---|---|---|\n")
        f.write("\n".join(rows) + "\n")
    print("\n".join(rows))


def summary():
    rows = []
    for sid in sorted(os.listdir(os.path.join(VERIF, "seeded"))):
        p = os.path.join(VERIF, "seeded", sid, "result.json")
        if os.path.exists(p):
            r = json.load(open(p))
            m = json.load(open(os.path.join(VERIF, "seeded", sid, "meta.json")))
            cl = []
            for c in r.get("checks", {}).values():
                cl += [l.strip() for l in c["lines"] if l.startswith("  clause=")]
            rows.append("| %s | %s | %s | %s | %s | %s |" % (
                sid, r["property"], (m.get("summary", "") or "")[:110].replace("|", "/"),
                "yes" if r.get("tests_pass_with_change") else "?", "DETECTED" if r.get("detected") else "missed",
                "; ".join(cl[:3])[:160]))
    with open(os.path.join(VERIF, "seeded", "RESULTS.md"), "w") as f:
        f.write("| seed | property | change | repo tests pass | check (%s) | clauses reported |\n|---|---|---|---|---|---|\n" % "quick")
        f.write("\n".join(rows) + "\n")
    print("\n".join(rows))


if __name__ == "__main__":
    args = sys.argv[1:]
    tier = "quick"
    confirm = True
    benign = False
    if "--benign" in args:
        benign = True
        args.remove("--benign")
    if "--summary" in args:
        summary_benign() if benign else summary()
        sys.exit(0)
    if "--tier" in args:
        i = args.index("--tier")
        tier = args[i + 1]
        del args[i:i + 2]
    if "--no-confirm" in args:
        confirm = False
        args.remove("--no-confirm")
    for sid in args:
        r = run_seed(sid, tier, confirm, benign=benign)
        if benign:
            print(sid, "false_alarm=%s" % r.get("false_alarm"), {k: v for k, v in r.items() if k.startswith(("demo", "tests_pass", "patch_applies"))},
                  [(c["lines"][:4], c["tail"]) for c in r.get("checks", {}).values() if c["exit"] != 0])
            continue
        print(sid, "detected=%s" % r.get("detected"), {k: v for k, v in r.items() if k.startswith(("demo", "tests_pass", "patch_applies"))},
              [c["lines"][:2] for c in r.get("checks", {}).values()])

"""C04 -- derived quantities of a signal object never go stale (SignalCache model)."""
import copy
import os
import re
import warnings

import numpy as np

from harness import tlc
from harness.common import workdir, write_ndjson, Report

QORDER = {"AccSignal": ["fa", "smooth", "dv", "rs", "pga", "pgv", "pgd"], "Signal": ["fa", "smooth"]}
# public reads that observe each memoised quantity
QREADS = {"fa": ["fa_spectrum", "fa_freqs"], "smooth": ["smooth_fa_spectrum"], "dv": ["velocity", "displacement"],
          "rs": ["s_a", "s_v", "s_d"], "pga": ["pga"], "pgv": ["pgv"], "pgd": ["pgd"]}
UNCACHED = ["npts", "time", "values", "dt"]
FLAGATTR = {"fa": "_cached_fa", "smooth": "_cached_smooth_fa", "dv": "_cached_disp_and_velo", "rs": "_cached_response_spectra"}

CFG = """SPECIFICATION Spec
CONSTANT Kind = "%s"
CONSTANT AsFound = %s
CONSTANT Emit = %s
INVARIANT TypeOK
INVARIANT NoStale
INVARIANT ReadIdempotent
PROPERTY ReadsPure
CHECK_DEADLOCK FALSE
"""

TRACE_CFG = """SPECIFICATION TSpec
CONSTANT Kind = "%s"
CONSTANT AsFound = FALSE
CONSTANT Emit = FALSE
INVARIANT Verdict
INVARIANT ModelNoStale
CHECK_DEADLOCK FALSE
"""

FREQ_A = np.logspace(-0.3, 1.2, 12)
FREQ_B = np.logspace(-0.5, 1.0, 9)
RT_A = np.array([0.06, 0.5, 1.0])      # shortest period < 10 dt: the refinement rule (min_dt_ratio) matters
RT_B = np.array([0.08, 0.3, 0.9, 1.4])


def base_record(n=50, seed=1):
    rng = np.random.default_rng(seed)
    t = np.arange(n)
    return 0.3 + 0.01 * t + np.sin(t / 3.0) + 0.3 * rng.standard_normal(n)


def make(kind, values=None, dt=0.01):
    import eqsig
    v = base_record() if values is None else values
    if kind == "AccSignal":
        return eqsig.AccSignal(np.array(v, copy=True), dt, smooth_fa_freqs=FREQ_A.copy(), response_times=RT_A.copy())
    return eqsig.Signal(np.array(v, copy=True), dt, smooth_fa_freqs=FREQ_A.copy())


def other_freqs(o):
    return (FREQ_B if len(o.smooth_fa_freqs) == len(FREQ_A) else FREQ_A).copy()


def other_rt(o):
    return (RT_B if len(o.response_times) == len(RT_A) else RT_A).copy()


def _setattr(name, fn):
    def f(o):
        setattr(o, name, fn(o))
    return f


def _call(name, *a, **k):
    def f(o):
        return getattr(o, name)(*a, **k)
    return f


def _bad_length(o):
    from eqsig import exceptions
    try:
        o.add_series(np.ones(o.npts + 1))
    except exceptions.SignalProcessingError:
        return
    raise AssertionError("add_series accepted a series of the wrong length")


def _add_signal(o):
    import eqsig
    o.add_signal(eqsig.Signal(0.2 * np.cos(np.arange(o.npts) / 2.0), o.dt))


def ops_for(kind):
    """op name (as in SignalCache.tla) -> callable on the real object"""
    ops = {}
    for r in ["values", "npts", "time", "dt", "smooth_fa_freqs", "fa_spectrum", "fa_spectrum_abs", "fa_freqs",
              "fa_frequencies", "smooth_fa_spectrum"]:
        ops[r] = (lambda name: (lambda o: getattr(o, name)))(r)
    for g in ["generate_fa_spectrum", "gen_fa_spectrum", "generate_smooth_fa_spectrum", "gen_smooth_fa_spectrum"]:
        ops[g] = _call(g)
    ops["reset_values"] = lambda o: o.reset_values(np.array(o.values) * 0.5 + np.linspace(0.1, 0.4, o.npts))
    ops["reset_values_longer"] = lambda o: o.reset_values(np.concatenate([np.array(o.values) * 0.7, 0.3 * np.cos(np.arange(37) / 2.0)]))
    ops["reset_values_shorter"] = lambda o: o.reset_values(np.array(o.values)[: max(24, o.npts - 9)] * 1.1 + 0.05)
    ops["reset_values_list"] = lambda o: o.reset_values([float(x) * 0.8 + 0.02 for x in o.values])
    ops["add_constant"] = _call("add_constant", 0.37)
    ops["add_constant_tiny"] = lambda o: o.add_constant(4e-9 * max(1.0, float(np.max(np.abs(o.values)))))
    # a record that differs from the previous one by a few parts in a million in every sample (same length)
    ops["scale_slightly"] = lambda o: o.reset_values(np.array(o.values) * (1.0 + 4e-6) + 2e-6)
    ops["add_series"] = lambda o: o.add_series(0.1 * np.sin(np.arange(o.npts) / 1.7))
    ops["add_signal"] = _add_signal
    ops["butter_pass"] = _call("butter_pass", (0.9, 14.0), filter_order=2)
    ops["butter_pass_gibbs"] = _call("butter_pass", [None, 12.0], filter_order=3, remove_gibbs="mid")
    ops["remove_average"] = _call("remove_average")
    ops["remove_poly"] = _call("remove_poly", 1)
    ops["running_average"] = _call("running_average", 3)
    ops["set_smooth_fa_freqs"] = _setattr("smooth_fa_freqs", other_freqs)
    ops["set_smooth_fa_frequencies"] = _setattr("smooth_fa_frequencies", other_freqs)
    ops["set_smooth_fa_frequecies_by_range"] = lambda o: o.set_smooth_fa_frequecies_by_range(
        (0.4, 18.0) if abs(o.smooth_fa_freqs[0] - 0.4) > 1e-9 else (0.6, 22.0), 11)
    ops["set_smooth_freq_range"] = _setattr("smooth_freq_range", lambda o: (0.45, 17.0) if abs(o.smooth_fa_freqs[0] - 0.45) > 1e-9 else (0.65, 21.0))
    ops["set_smooth_freq_points"] = _setattr("smooth_freq_points", lambda o: 14 if len(o.smooth_fa_freqs) != 14 else 10)
    def _inplace_freqs(o):
        o.smooth_fa_freqs *= 1.25           # getter hands out the array, it is edited in place and assigned back

    ops["set_smooth_fa_freqs_inplace"] = _inplace_freqs
    ops["gen_smooth_fa_spectrum_freqs"] = lambda o: o.gen_smooth_fa_spectrum(smooth_fa_freqs=other_freqs(o))
    ops["get_section_average"] = _call("get_section_average", start=0, end=0.1)
    ops["add_series_bad_length"] = _bad_length
    if kind == "AccSignal":
        for r in ["velocity", "displacement", "pga", "pgv", "pgd", "s_a", "s_v", "s_d", "response_times"]:
            ops[r] = (lambda name: (lambda o: getattr(o, name)))(r)
        for g in ["generate_response_spectrum", "gen_response_spectrum", "generate_displacement_and_velocity_series"]:
            ops[g] = _call(g)
        ops["correct_me"] = _call("correct_me")
        ops["remove_rolling_average_velocity"] = _call("remove_rolling_average", mtype="velocity", freq_window=12)
        ops["remove_rolling_average_acc"] = _call("remove_rolling_average", mtype="acc", freq_window=12)
        ops["rebase_displacement"] = _call("rebase_displacement")
        ops["set_zero_residual_velocity"] = _call("set_zero_residual_velocity")
        ops["set_zero_residual_velocity_tz"] = _call("set_zero_residual_velocity", timezone=(0.1, 0.3))
        ops["set_zero_residual_displacement"] = _call("set_zero_residual_displacement")
        ops["set_zero_residual_displacement_and_velocity"] = _call("set_zero_residual_displacement_and_velocity")
        ops["set_zero_residual_displacement_and_velocity_tz"] = _call("set_zero_residual_displacement_and_velocity", timezone=(0.1, None))
        def _inplace_rt(o):
            o.response_times *= 1.25

        ops["set_response_times_inplace"] = _inplace_rt
        ops["set_response_times"] = _setattr("response_times", other_rt)
        ops["response_series_rt"] = lambda o: o.response_series(response_times=other_rt(o))
        ops["gen_response_spectrum_rt"] = lambda o: o.gen_response_spectrum(response_times=other_rt(o))
        ops["response_series"] = _call("response_series")
        ops["clear_cache_noop"] = _call("clear_cache")
    return ops


READ_OPS = {"values", "npts", "time", "dt", "smooth_fa_freqs", "fa_spectrum", "fa_spectrum_abs", "fa_freqs", "fa_frequencies",
            "smooth_fa_spectrum", "velocity", "displacement", "pga", "pgv", "pgd", "s_a", "s_v", "s_d", "response_times",
            "response_series", "get_section_average", "add_series_bad_length"}


def same(a, b):
    a, b = np.asarray(a), np.asarray(b)
    if a.shape != b.shape:
        return False
    if a.size == 0:
        return True
    if np.array_equal(a, b):
        return True
    scale = max(float(np.max(np.abs(b))), 1e-300)
    with np.errstate(all="ignore"):
        return bool(np.all(np.abs(a - b) <= 1e-12 * scale))


def read_all(obj, kind):
    """every public read on its own deep copy of the object (reads must not disturb each other)"""
    out = {}
    names = list(UNCACHED) + ["smooth_fa_freqs"]
    for q in QORDER[kind]:
        names += QREADS[q]
    if kind == "AccSignal":
        names.append("response_times")
    for nme in names:
        c = copy.deepcopy(obj)
        out[nme] = np.array(getattr(c, nme), copy=True)
    return out


def fresh_all(obj, kind):
    import eqsig
    cls = eqsig.AccSignal if kind == "AccSignal" else eqsig.Signal
    kw = {"smooth_fa_freqs": np.array(obj.smooth_fa_freqs, copy=True)}
    if kind == "AccSignal":
        kw["response_times"] = np.array(obj.response_times, copy=True)
    f = cls(np.array(obj.values, copy=True), obj.dt, **kw)
    return read_all(f, kind)


def project(obj, kind):
    """pi: per memoised quantity 0 = memo bit off, 1 = flagged and fresh, 2 = flagged and stale (None if the
    private flag cannot be read: then only fresh/stale is known); plus freshness of the unmemoised reads."""
    got = read_all(obj, kind)
    want = fresh_all(obj, kind)
    codes, fresh = [], {}
    for q in QORDER[kind]:
        fr = all(same(got[r], want[r]) for r in QREADS[q])
        fresh[q] = fr
        try:
            if q in FLAGATTR:
                fl = bool(getattr(obj, FLAGATTR[q]))
            else:
                fl = q in obj._cached_params
        except AttributeError:
            fl = None
        codes.append(None if fl is None else (0 if not fl else (1 if fr else 2)))
    for r in UNCACHED:
        fresh[r] = same(got[r], want[r])
    fresh["npts"] = fresh["npts"] and int(got["npts"]) == len(np.asarray(obj.values))
    return codes, fresh, got


_RE_EDGE = re.compile(r'<<\s*"E",\s*(\d+),\s*<<([^>]*)>>,\s*"(\w+)",\s*<<([^>]*)>>\s*>>')


def parse_edges(out):
    txt = " ".join(out.split())
    edges = []
    for m in _RE_EDGE.finditer(txt):
        src = tuple(int(x) for x in m.group(2).split(","))
        dst = tuple(int(x) for x in m.group(4).split(","))
        edges.append((int(m.group(1)), src, m.group(3), dst))
    return edges


def apply_op(o, fn):
    with warnings.catch_warnings():
        warnings.simplefilter("ignore")
        return fn(o)


def check_step(rep, kind, op, o, model_dst, before_reads, site):
    """compare the real object after `op` with the model state model_dst; returns the real code vector"""
    codes, fresh, got = project(o, kind)
    for k, q in enumerate(QORDER[kind]):
        rep.count("NoStale[%s]" % q)
        if not fresh[q]:
            rep.fail("NoStale[%s]" % q, site, {"kind": kind, "op": op, "model_after": list(model_dst), "real_after": codes})
    for r in UNCACHED:
        if not fresh[r]:
            rep.fail("NoStale[%s]" % r, site, {"kind": kind, "op": op})
    if op in READ_OPS and before_reads is not None:
        rep.count("ReadsPure")
        changed = [r for r in got if not same(got[r], before_reads[r])]
        if changed:
            rep.fail("ReadsPure", site, {"kind": kind, "op": op, "changed": changed})
    if all(c is not None for c in codes) and tuple(codes) != tuple(model_dst):
        if 2 not in codes:      # memo bits differ from the model but nothing is stale: model divergence, not a violation
            rep.extra.setdefault("model_divergence", []).append({"kind": kind, "op": op, "model": list(model_dst), "real": codes})
    return codes, got


def walk_graph(rep, kind, edges):
    """snapshot lock-step walk: every edge of TLC's state graph is executed once on a real object that is in
    the edge's source state"""
    ops = ops_for(kind)
    model_ops = set(e[2] for e in edges)
    if model_ops - set(ops):
        raise tlc.MachineryError("operations in the model without a binding: %s" % sorted(model_ops - set(ops)))
    by_src = {}
    for lvl, src, op, dst in edges:
        by_src.setdefault(src, []).append((op, dst))
    init = tuple([0] * len(QORDER[kind]))
    snap = {init: make(kind)}
    reads_of = {}
    queue = [init]
    done = 0
    while queue:
        s = queue.pop(0)
        reads_of[s] = read_all(snap[s], kind)
        for op, dst in sorted(set(by_src.get(s, []))):
            o = copy.deepcopy(snap[s])
            try:
                apply_op(o, ops[op])
            except Exception as ex:   # an in-domain public call must not raise
                rep.fail("Raises", "walk", {"kind": kind, "op": op, "state": list(s), "error": "%s: %s" % (type(ex).__name__, ex)})
                continue
            check_step(rep, kind, op, o, dst, reads_of[s], "walk")
            if op in READ_OPS:     # idempotence: the same read again gives the same value
                rep.count("ReadIdempotent")
                try:
                    a = np.array(apply_op(copy.deepcopy(o), ops[op]), dtype=object if op in ("response_series",) else None)
                    b = np.array(apply_op(copy.deepcopy(o), ops[op]), dtype=object if op in ("response_series",) else None)
                    if op not in ("response_series", "add_series_bad_length") and not same(a, b):
                        rep.fail("ReadIdempotent", "walk", {"kind": kind, "op": op})
                except Exception:
                    pass
            done += 1
            if dst not in snap:
                snap[dst] = o
                queue.append(dst)
    unreached = set(d for _, _, _, d in edges) - set(snap)
    if unreached:
        raise tlc.MachineryError("model states never reached by the walk: %s" % sorted(unreached)[:5])
    return done, len(snap)


def sibling_steps(rep, kind):
    """Two objects built from the SAME caller array (and the copy idiom cls(a.values, a.dt)): whatever is done to one of
    them, the other -- with every derived quantity memoised -- must still report what a fresh object with ITS values
    reports (its values are its own, so nothing of it may move or go stale)."""
    import eqsig
    cls = eqsig.AccSignal if kind == "AccSignal" else eqsig.Signal
    ops = ops_for(kind)
    n = 0
    for op in sorted(ops):
        for idiom in (0, 1):
            src = base_record()
            kw = {"smooth_fa_freqs": FREQ_A.copy()}
            if kind == "AccSignal":
                kw["response_times"] = RT_A.copy()
            a = cls(src, 0.01, **kw)
            b = cls(src, 0.01, **kw) if idiom == 0 else cls(a.values, a.dt, **kw)
            before = read_all(b, kind)
            for q in QORDER[kind]:
                for r in QREADS[q]:
                    getattr(b, r)               # b has everything memoised
            try:
                apply_op(a, ops[op])
            except Exception:
                continue
            n += 1
            codes, fresh, got = project(b, kind)
            rep.count("SiblingUndisturbed")
            stale = [q for q in QORDER[kind] if not fresh[q]] + [r for r in UNCACHED if not fresh[r]]
            moved = [r for r in got if not same(got[r], before[r])]
            if stale or moved:
                rep.fail("NoStale[%s]" % (stale[0] if stale else moved[0]), "sibling",
                         {"kind": kind, "op_on_other_object": op, "built": ["both from the same ndarray", "cls(a.values, a.dt)"][idiom],
                          "stale": stale, "moved": moved})
    return n


def settings_steps(rep, kind):
    """Pairs of settings changes with reads in between: construct -> read everything -> change A -> read everything -> change B
    -> every derived quantity equals what a fresh object with the settings now in force reports.  The changes come in the
    forms a caller has: new arrays of the SAME count as the ones in force (the default count 50 among them), the by-range
    forms with the default and with other limits / counts, in-place edits, generator keywords."""
    import eqsig
    cls = eqsig.AccSignal if kind == "AccSignal" else eqsig.Signal
    c50 = np.logspace(-0.8, 1.3, 50)
    c50b = c50.copy()
    c50b[1:-1] *= 1.07                   # same count, same first and last entry, other interior (the two PRINT identically)
    rt8 = np.array([0.06, 0.11, 0.2, 0.35, 0.5, 0.8, 1.1, 1.6])
    rt8b = rt8.copy()
    rt8b[1:-1] *= 1.13
    forms = [("smooth_fa_freqs = 50 custom", lambda o: setattr(o, "smooth_fa_freqs", c50.copy())),
             ("smooth_fa_freqs = 50 custom, same ends, other interior", lambda o: setattr(o, "smooth_fa_freqs", c50b.copy())),
             ("smooth_fa_frequencies = 50 other custom", lambda o: setattr(o, "smooth_fa_frequencies", c50 * 1.1)),
             ("smooth_fa_freqs = 9 custom", lambda o: setattr(o, "smooth_fa_freqs", FREQ_B.copy())),
             ("set_smooth_fa_frequecies_by_range((0.1, 30), 50)", lambda o: o.set_smooth_fa_frequecies_by_range((0.1, 30), 50)),
             ("set_smooth_fa_frequecies_by_range((0.4, 18), 11)", lambda o: o.set_smooth_fa_frequecies_by_range((0.4, 18.0), 11)),
             ("smooth_freq_range = (0.1, 30)", lambda o: setattr(o, "smooth_freq_range", (0.1, 30))),
             ("smooth_freq_range = (0.45, 17)", lambda o: setattr(o, "smooth_freq_range", (0.45, 17.0))),
             ("smooth_freq_points = 50", lambda o: setattr(o, "smooth_freq_points", 50)),
             ("smooth_freq_points = 14", lambda o: setattr(o, "smooth_freq_points", 14)),
             ("gen_smooth_fa_spectrum(smooth_fa_freqs=50 custom)", lambda o: o.gen_smooth_fa_spectrum(smooth_fa_freqs=c50 * 0.9)),
             ("smooth_fa_freqs *= 1.25 in place", lambda o: setattr(o, "smooth_fa_freqs", o.smooth_fa_freqs.__imul__(1.25)))]
    if kind == "AccSignal":
        forms += [("response_times = 8 custom", lambda o: setattr(o, "response_times", rt8.copy())),
                  ("response_times = 8 custom, same ends, other interior", lambda o: setattr(o, "response_times", rt8b.copy())),
                  ("response_times = 4 custom", lambda o: setattr(o, "response_times", RT_B.copy())),
                  ("response_times = 3 custom", lambda o: setattr(o, "response_times", RT_A * 1.3)),
                  ("gen_response_spectrum(response_times=3 custom)", lambda o: o.gen_response_spectrum(response_times=RT_A * 0.8)),
                  ("response_series(response_times=4 custom)", lambda o: o.response_series(response_times=RT_B * 1.1))]
    n = 0
    long_forms = [f for f in forms if ("by_range" in f[0] or "smooth_freq_range" in f[0] or "smooth_freq_points" in f[0])]
    long_rec = base_record(n=10240 + 37, seed=5)          # (a long record: implementations may keep more between calls for those)
    for ctor in ((0, 1, 2) if kind == "Signal" else (0, 1)):        # (the long pass on plain Signals: the spectra code is shared)
        for an, fa_ in (forms if ctor < 2 else long_forms):
            for bn, fb_ in (forms if ctor < 2 else long_forms):
                o = make(kind) if ctor == 1 else (cls(base_record(), 0.01) if ctor == 0 else cls(long_rec.copy(), 0.01))
                try:
                    read_all_inplace(o, kind)
                    apply_op(o, fa_)
                    read_all_inplace(o, kind)
                    apply_op(o, fb_)
                    codes, fresh, got = project(o, kind)
                except Exception as ex:
                    rep.fail("Raises", "settings", {"kind": kind, "first": an, "then": bn, "error": "%s: %s" % (type(ex).__name__, ex)})
                    continue
                n += 1
                rep.count("SettingsPair")
                stale = [q for q in QORDER[kind] if not fresh[q]] + [r for r in UNCACHED if not fresh[r]]
                if stale:
                    rep.fail("NoStale[%s]" % stale[0], "settings", {"kind": kind, "constructed": ["with the default settings", "with custom settings", "with the default settings, 10 277 samples"][ctor],
                                                                     "first": an, "then": bn, "stale": stale})
    return n


def explicit_steps(rep, kind):
    """Explicit generator calls with non-default settings: (1) what is read straight afterwards equals what a fresh object
    reports after the same explicit call (a generator may not skip its work because something is memoised); (2) a following
    default generator call / an invalidating operation brings every derived quantity back to what a fresh object reports
    (explicit settings are valid until the next change, they do not stick)."""
    gens = [("gen_fa_spectrum(p2_plus=1)", lambda o: o.gen_fa_spectrum(p2_plus=1), ["fa_spectrum", "fa_freqs"]),
            ("gen_fa_spectrum(n=N+1)", lambda o: o.gen_fa_spectrum(n=64 + 1), ["fa_spectrum", "fa_freqs"]),
            ("gen_fa_spectrum(n=N+6)", lambda o: o.gen_fa_spectrum(n=64 + 6), ["fa_spectrum", "fa_freqs"]),
            ("gen_smooth_fa_spectrum(band=20)", lambda o: o.gen_smooth_fa_spectrum(band=20), ["smooth_fa_spectrum"])]
    if kind == "AccSignal":
        gens += [("gen_response_spectrum(xi=0.2)", lambda o: o.gen_response_spectrum(xi=0.2), ["s_a", "s_v", "s_d"]),
                 ("generate_response_spectrum(xi=0)", lambda o: o.generate_response_spectrum(xi=0), ["s_a", "s_v", "s_d"]),
                 ("gen_response_spectrum(min_dt_ratio=1)", lambda o: o.gen_response_spectrum(min_dt_ratio=1), ["s_a", "s_v", "s_d"]),
                 ("generate_displacement_and_velocity_series(trap=False)", lambda o: o.generate_displacement_and_velocity_series(trap=False),
                  ["velocity", "displacement", "pgv", "pgd"])]
    defaults = {"fa_spectrum": "gen_fa_spectrum", "smooth_fa_spectrum": "gen_smooth_fa_spectrum", "s_a": "gen_response_spectrum",
                "velocity": "generate_displacement_and_velocity_series"}
    invalidate = [("add_constant", lambda o: o.add_constant(0.37)), ("clear_cache", lambda o: o.clear_cache()),
                  ("reset_values", lambda o: o.reset_values(np.array(o.values) * 1.0))]
    n = 0
    for memo in (False, True):
        for gname, g, reads in gens:
            for iname, inv in invalidate + [("default generator", None)]:
                o, f = make(kind), make(kind)
                if memo:
                    read_all_inplace(o, kind)
                try:
                    apply_op(o, g)
                    apply_op(f, g)
                    bad = [r for r in reads if not same(getattr(o, r), getattr(f, r))]
                    rep.count("ExplicitGenerator")
                    if bad:
                        rep.fail("NoStale[%s]" % bad[0], "explicit", {"kind": kind, "generator": gname, "memoised_before": memo,
                                                                      "differs_from_fresh_object_after_same_call": bad})
                    if inv is None:
                        apply_op(o, lambda x: getattr(x, defaults[reads[0]])())
                    else:
                        apply_op(o, inv)
                    codes, fresh, got = project(o, kind)
                    stale = [q for q in QORDER[kind] if not fresh[q]] + [r for r in UNCACHED if not fresh[r]]
                    rep.count("ExplicitSettingDoesNotStick")
                    if stale:
                        rep.fail("NoStale[%s]" % stale[0], "explicit", {"kind": kind, "generator": gname, "memoised_before": memo,
                                                                       "then": iname, "stale": stale})
                    n += 1
                except Exception as ex:
                    rep.fail("Raises", "explicit", {"kind": kind, "generator": gname, "then": iname, "error": "%s: %s" % (type(ex).__name__, ex)})
    return n


def read_all_inplace(obj, kind):
    for q in QORDER[kind]:
        for r in QREADS[q]:
            getattr(obj, r)


def replay_behaviours(rep, kind, edges, recs, tid0, maxb):
    """-simulate behaviours replayed from a fresh object; every step is also logged for Trace_SignalCache"""
    ops = ops_for(kind)
    behs, cur = [], []
    for lvl, src, op, dst in edges:
        if lvl == 1 and cur:
            behs.append(cur)
            cur = []
        cur.append((src, op, dst))
    if cur:
        behs.append(cur)
    n = 0
    for b in behs[:maxb]:
        o = make(kind)
        events = []
        for src, op, dst in b:
            before = read_all(o, kind) if op in READ_OPS else None
            try:
                apply_op(o, ops[op])
            except Exception as ex:
                rep.fail("Raises", "simulate", {"kind": kind, "op": op, "error": "%s: %s" % (type(ex).__name__, ex)})
                break
            codes, _ = check_step(rep, kind, op, o, dst, before, "simulate")
            events.append({"op": op, "pi": [(-1 if c is None else c) for c in codes]})
            n += 1
        recs.append({"tid": tid0 + len(recs) + 1, "kind": kind, "src": "simulate", "events": events})
    return n, len(behs[:maxb])


def random_sessions(rep, kind, recs, nsess, length, seed):
    """sessions chosen by the driver itself (not by TLC), logged for Trace_SignalCache"""
    rng = np.random.default_rng(seed)
    ops = ops_for(kind)
    names = sorted(ops)
    for s in range(nsess):
        scale = [1.0, 1e-9, 1.0, 3e7][s % 4]          # ordinary, ambient-noise and raw-count magnitudes
        o = make(kind, values=base_record(int(rng.integers(30, 80)), seed + s) * scale)
        events = []
        for _ in range(length):
            op = names[rng.integers(len(names))]
            try:
                apply_op(o, ops[op])
            except Exception as ex:
                rep.fail("Raises", "session", {"kind": kind, "op": op, "error": "%s: %s" % (type(ex).__name__, ex)})
                break
            codes, fresh, _ = project(o, kind)
            events.append({"op": op, "pi": [(-1 if c is None else c) for c in codes],
                           "stale_uncached": [r for r in UNCACHED if not fresh[r]]})
        recs.append({"tid": len(recs) + 1, "kind": kind, "src": "session", "events": events})


def testsuite_sessions(wd, cap=300):
    """run the repository's tests under the external tracer and return the recorded object sessions"""
    import json
    import subprocess
    import sys
    from harness.common import REPO, VERIF
    out = os.path.join(wd, "testsuite_trace.ndjson")
    if os.path.exists(out):
        os.remove(out)
    env = dict(os.environ)
    env.update({"EQSIG_VERIF_TRACE": out, "PYTHONPATH": VERIF + os.pathsep + REPO, "PYTHONDONTWRITEBYTECODE": "1"})
    try:
        subprocess.run([sys.executable, "-m", "pytest", "-q", "-x", "-p", "no:cacheprovider", "-p", "harness.tracer", "tests"], cwd=REPO, env=env,
                       stdout=subprocess.DEVNULL, stderr=subprocess.DEVNULL, timeout=600)
    except Exception:
        return []
    recs = []
    if os.path.exists(out):
        for line in open(out):
            r = json.loads(line)
            r["events"] = r["events"][:cap]
            recs.append(r)
    return recs


def run(tier, seed):
    rep = Report("C04", tier, seed)
    wd = workdir("C04")
    recs = []
    for kind in ("AccSignal", "Signal"):
        # 1. the design: exhaustive model check, as repaired (must hold) and as found (must exhibit the defect)
        r = tlc.run("SignalCache", cfg=CFG % (kind, "FALSE", "TRUE"), workers=1, job="C04/mc_%s" % kind)
        if r.invariant_violated:
            raise tlc.MachineryError("repaired SignalCache model violates %s" % r.invariant_violated)
        rep.add_tlc("SignalCache(%s, repaired)" % kind, r, "complete state space: NoStale, ReadsPure, ReadIdempotent for histories of any length")
        edges = parse_edges(r.stdout)
        if len(edges) != r.generated - 1:
            raise tlc.MachineryError("edge dump incomplete: %d edges printed, %d transitions generated" % (len(edges), r.generated - 1))
        if kind == "AccSignal":
            ra = tlc.run("SignalCache", cfg=CFG % (kind, "TRUE", "FALSE"), workers=1, job="C04/mc_asfound", allow_invariant_violation=True)
            rep.extra["as_found_model"] = "NoStale violated (counterexample found by TLC)" if ra.invariant_violated == "NoStale" else "NO counterexample (unexpected)"
            if ra.invariant_violated != "NoStale":
                raise tlc.MachineryError("as-found model does not exhibit the known defect")
        # 2. spec -> code: every edge of the graph on a real object
        nedges, nstates = walk_graph(rep, kind, edges)
        rep.evaluations += nedges
        rep.extra["walk_%s" % kind] = {"model_states": nstates, "edges_executed": nedges, "sibling_steps": sibling_steps(rep, kind), "settings_pairs": settings_steps(rep, kind),
                                        "explicit_generator_steps": explicit_steps(rep, kind)}
        # 3. long random behaviours from TLC (-simulate), replayed and logged
        if tier == "thorough":
            num, depth, maxb = 150, 60, 150
        else:
            num, depth, maxb = 12, 40, 12
        rs = tlc.run("SignalCache", cfg=CFG % (kind, "FALSE", "TRUE"), workers=1, job="C04/sim_%s" % kind,
                     simulate="num=%d" % num, extra=["-depth", str(depth), "-seed", str(seed + 4)])
        sedges = parse_edges(rs.stdout)
        nst, nb = replay_behaviours(rep, kind, sedges, recs, 0, maxb)
        rep.extra["simulate_%s" % kind] = {"behaviours": nb, "steps": nst}
        rep.evaluations += nst
        # 4. sessions chosen by the driver
        random_sessions(rep, kind, recs, 6 if tier == "quick" else 60, 30 if tier == "quick" else 80, seed + (1 if kind == "Signal" else 0))
    # 4b. the repository's own test-suite under the external tracer (harness/tracer.py): real usage sessions
    ts = testsuite_sessions(wd)
    recs += ts
    rep.extra["testsuite_sessions"] = {"objects": len(ts), "events": sum(len(r["events"]) for r in ts)}
    for i, rcd in enumerate(recs):
        rcd["tid"] = i + 1
    # 5. code -> spec: recorded sessions validated by TLC
    tr = os.path.join(wd, "trace.ndjson")
    write_ndjson(tr, recs)
    verdicts = {}
    for kind in ("AccSignal", "Signal"):
        r2 = tlc.run("Trace_SignalCache", cfg=TRACE_CFG % kind, env={"TRACE_FILE": tr}, job="C04/trace_%s" % kind)
        if r2.invariant_violated:
            raise tlc.MachineryError("Trace_SignalCache: %s violated" % r2.invariant_violated)
        rep.add_tlc("Trace_SignalCache(%s)" % kind, r2, "recorded sessions (simulate replays + driver sessions): each event is a step of the model; nothing stale")
        verdicts.update(r2.verdicts)
    for rcd in recs:
        t = rcd["tid"]
        if t not in verdicts:
            raise tlc.MachineryError("no verdict for session %d" % t)
        cl, n = verdicts[t]
        rep.traces += 1
        for c in cl:
            if c.startswith("Diverge"):
                rep.extra.setdefault("trace_divergence", []).append({"tid": t, "clause": c})
            else:
                rep.fail(c, "trace:" + rcd["src"], {"kind": rcd["kind"], "ops": [e["op"] for e in rcd["events"]][:60]})
    # 6. value-level sessions against the concrete object model (spec/SignalObj.tla): every read must return what the
    #    L1 kernels compute from the record the model holds -- an oracle that does not run the library a second time
    from harness import sessions
    rngv = np.random.default_rng(seed + 44)
    vrecs = []
    for i in range(24 if tier == "quick" else 200):
        kind = ["AccSignal", "Signal", "AccSignal"][i % 3]
        try:
            ev = sessions.session(kind, rngv, 30 if tier == "quick" else 60)
        except Exception as ex:
            rep.fail("Raises", "value-session", {"kind": kind, "error": "%s: %s" % (type(ex).__name__, ex)})
            continue
        vrecs.append({"tid": len(vrecs) + 1, "cls": kind, "events": ev})
    trv = os.path.join(wd, "value_sessions.ndjson")
    write_ndjson(trv, vrecs)
    r3 = tlc.run("Trace_SignalObj", cfg="Trace_SignalObj", env={"TRACE_FILE": trv}, job="C04/trace_values")
    rep.add_tlc("Trace_SignalObj", r3, "value-level sessions: reads recomputed from the model's record by the L1 kernels")
    for vr in vrecs:
        if vr["tid"] not in r3.verdicts:
            raise tlc.MachineryError("no verdict for value session %d" % vr["tid"])
        rep.traces += 1
        for c in r3.verdicts[vr["tid"]][0]:
            ops = [(e["op"] if e["op"] != "read" else "read:" + e["what"]) for e in vr["events"]]
            rep.fail(c, "value-session", {"kind": vr["cls"], "ops": ops[:70]})
    rep.extra["value_sessions"] = {"sessions": len(vrecs), "events": sum(len(v["events"]) for v in vrecs)}
    # 7. components of a Cluster are Signal / AccSignal objects whose values the cluster replaces (time_match, same_start, combine_motions):
    #    reads of their derived quantities inside cluster sessions, validated by Trace_ClusterObj (clauses Read_*, ClusterRead_*)
    from harness import clusterobj
    clusterobj.run_sessions(rep, tier, seed, "C04/cluster", "C04")
    rep.sample({"session": [e["op"] for e in recs[0]["events"]][:12], "pi_after_each": [e["pi"] for e in recs[0]["events"]][:12]})
    rep.sample({"edge": "state fa=1,smooth=1,dv=1,rs=1 --running_average--> all memo bits off; real AccSignal snapshot in that state, every read compared with a fresh object"})
    rep.exhaustive = True
    rep.assumptions = ["freshness oracle: a freshly constructed object of the same class with copies of values, dt, smooth_fa_freqs, response_times (runs the same library code by design)",
                       "records: float64, n = 50 (walk) and 30..80 (sessions); explicit generators with non-default arguments are outside the property's operation list",
                       "private memo flags are read only to sharpen diagnosis; a memo-bit mismatch without staleness is reported as model divergence, not as a violation"]
    return rep.finish(checker_cmd="tlc SignalCache (exhaustive, -simulate) / Trace_SignalCache / Trace_SignalObj / Trace_ClusterObj (harness/drivers/c04.py, harness/sessions.py, harness/clusterobj.py)",
                      trusted_base=["TLC 1.8", "numpy array_equal / deepcopy"])

"""C01 -- SDOF response series is the exact solution of the oscillator equation."""
import os
import warnings
import numpy as np

from harness import tlc, gen
from harness.common import enc, enc_seq, workdir, write_ndjson, Report

NL = 4
LEVELS = [-1.0, 0.0, 0.5, 2.0]
DT = 0.01
RATIOS = [0.2, 1.0, 5.5, 6.5, 20.0, 2e4]
XIS = [0.0, 0.05, 0.7, 0.999]
MC_CFG = """SPECIFICATION Spec
CONSTANT MaxLen = %d
INVARIANT FlowExact
INVARIANT ZeroIC
INVARIANT Linear
INVARIANT Conforms
CHECK_DEADLOCK FALSE
"""


_THREE = [0]


def three(a, dt, periods, xi, container=0):
    """the three entry points; returns list of (u, v, acc) arrays of shape (len(periods), n)"""
    import eqsig
    from eqsig import sdof
    arg = [a, list(a), np.asarray(a)][container % 3]
    per = [np.array(periods), list(periods), tuple(periods)][container % 3]
    r1 = sdof.response_series(arg, dt, per, xi)
    r2 = sdof.nigam_and_jennings_response(arg, dt, per, xi)
    o = eqsig.AccSignal(np.asarray(a), dt)          # the record in the type the caller holds it in (counts, single precision)
    _THREE[0] += 1
    if xi == 0.05 and _THREE[0] % 2:
        # the object's default damping (0.05), asked for after spectra were generated explicitly with other damping values
        import warnings
        with warnings.catch_warnings():
            warnings.simplefilter("ignore")
            o.gen_response_spectrum(response_times=np.array([0.3, 1.0]), xi=0.2)
            o.generate_response_spectrum(xi=0)
        r3 = o.response_series(response_times=np.array(periods))
    else:
        r3 = o.response_series(response_times=np.array(periods), xi=xi)
    return [tuple(np.asarray(x, dtype=float) for x in r) for r in (r1, r2, r3)]


def table_row(code, digits):
    a = np.array(LEVELS)[np.array(digits) - 1]
    row = [code]
    if len(a) < 2:
        return row
    periods = [r * DT for r in RATIOS]
    res = {}
    for xi in XIS:
        res[xi] = three(a, DT, periods, xi, container=code)
    for ri in range(len(RATIOS)):
        for xi in XIS:
            for e in range(3):
                u, v, acc = res[xi][e]
                row += enc(u[ri, -1]) + enc(v[ri, -1]) + enc(acc[ri, -1])
    return row


def regime(rng, i):
    edges = [0.2, 1.0, 5.99, 6.0, 6.01, 2e4, 0.35, 0.5, 100.0, 6300.0, 7000.0, 1e4, 2.5, 1.4]
    # (independent random choices: index arithmetic on i correlates the regime with the caller's other choices)
    ratio = float(edges[int(rng.integers(len(edges)))]) if rng.integers(2) else float(10.0 ** rng.uniform(np.log10(0.2), np.log10(2e4)))
    xis = [0.0, 1e-3, 0.05, 0.3, 0.7, 0.95, 0.999, 5e-4, 0.05, 8e-4, 2e-4]
    xi = float(xis[int(rng.integers(len(xis)))]) if rng.integers(3) else float(rng.uniform(0, 0.999))
    return ratio, xi


def build_traces(path, tier, seed):
    rng = np.random.default_rng(seed + 1)
    recs, meta = [], {}
    tid = 0

    def add(rec, m):
        nonlocal tid
        tid += 1
        rec["tid"] = tid
        recs.append(rec)
        meta[tid] = m

    ncall = 40 if tier == "quick" else 300        # (thorough: ~130 k validated samples; the trace file stays below 60 MB)
    nmax = 400 if tier == "quick" else 3000
    for i in range(ncall):
        n = gen.length(rng, 2, nmax) if not (tier == "thorough" and i in (5, 77)) else 5000
        a, shape = gen.record(rng, n)
        if i % 7 == 3:       # delayed pulse after exact leading zeros
            a = np.zeros(n)
            a[min(n - 1, int(rng.integers(1, max(2, n // 2))))] = float(rng.uniform(0.5, 2))
            shape = "delayed_pulse"
        if i % 5 == 2:
            # the record as digitiser counts in an integer type (or in single precision): the response is real-valued all the same
            dt_ = [np.int64, np.int16, np.int8, np.int32, np.float32, np.uint8][(i // 5) % 6]
            if dt_ is np.float32:
                a = np.asarray(a, dtype=np.float32)
            else:
                top = float(min(np.iinfo(dt_).max, 30000))
                a = np.round((np.abs(a) if dt_ is np.uint8 else a) / (np.max(np.abs(a)) + 1e-300) * top).astype(dt_)
            shape += " (%s)" % np.dtype(dt_).name
        dt = gen.dt(rng)
        nper = int(rng.integers(1, 4))
        regs = [regime(rng, i * 3 + k) for k in range(nper)]
        xi = regs[0][1]
        periods = [r * dt for r, _ in regs]
        lead0 = (i % 4 == 1)
        if lead0:
            periods = [0.0] + periods
        res = three(a, dt, periods, xi, container=i)
        entry = i % 3
        u, v, acc = res[entry]
        for k, T in enumerate(periods):
            if T == 0.0:
                add({"kind": "zero", "a": enc_seq(a), "u": enc_seq(u[k]), "v": enc_seq(v[k]), "acc": enc_seq(acc[k])},
                    {"kind": "zero", "n": n, "entry": entry, "shape": shape})
            else:
                add({"kind": "series", "T": enc(T), "xi": enc(xi), "dt": enc(dt), "a": enc_seq(a), "u": enc_seq(u[k]), "v": enc_seq(v[k]), "acc": enc_seq(acc[k])},
                    {"kind": "series", "n": n, "T_over_dt": T / dt, "xi": xi, "dt": dt, "entry": ["response_series", "nigam_and_jennings_response", "AccSignal.response_series"][entry],
                     "shape": shape, "leading_zero_period": lead0})
        # the three entry points agree
        flat = [np.concatenate([np.ravel(x) for x in r]) for r in res]
        scale = float(np.max(np.abs(flat[0]))) + 1e-300
        for e in (1, 2):
            if flat[e].shape == flat[0].shape:
                # compare per series so that a small series is not hidden behind a large one
                for s in range(3):
                    x0, x1 = np.ravel(res[0][s]), np.ravel(res[e][s])
                    add({"kind": "rel", "law": "same", "clause": "EntryPointsAgree", "tol": enc(1e-12), "scale": enc(float(np.max(np.abs(x0))) + 1e-300),
                         "x": enc_seq(x0), "y": enc_seq(x1)}, {"kind": "rel", "law": "EntryPointsAgree", "n": n, "entry": e, "series": s})
            else:
                add({"kind": "rel", "law": "same", "clause": "EntryPointsAgree", "tol": enc(1e-12), "scale": enc(scale), "x": enc_seq(flat[0]), "y": enc_seq(flat[e])},
                    {"kind": "rel", "law": "EntryPointsAgree", "n": n, "entry": e, "shape_mismatch": True})
    # the absolute time scale: the same T/dt and xi on records timed in very different units (xi * w from 1e-3 to 1e7 per unit
    # of time; an implementation may not depend on the unit)
    for j, (dt_, ratio_, xi_) in enumerate([(1.0e-4, 10.0, 0.3), (0.01, 0.2, 0.5), (1.0e-5, 40.0, 0.05), (1.0e-7, 8.0, 0.7), (50.0, 12.0, 0.3), (1.0e-4, 5.0, 0.999),
                                            (2.0e-9, 4.0, 0.05), (1.0e-10, 15.0, 0.2), (3.0e3, 9.0, 0.1)]):      # (... down to records timed in nanoseconds: T itself is below 1e-8)
        n = int(rng.integers(20, 80))
        a, shape = gen.record(rng, n, shape=["noise", "step", "sine"][j % 3], amp=1.0)
        res = three(a, dt_, [ratio_ * dt_], xi_, container=j)
        u, v, acc = res[j % 3]
        add({"kind": "series", "T": enc(ratio_ * dt_), "xi": enc(xi_), "dt": enc(dt_), "a": enc_seq(a), "u": enc_seq(u[0]), "v": enc_seq(v[0]), "acc": enc_seq(acc[0])},
            {"kind": "series", "n": n, "T_over_dt": ratio_, "xi": xi_, "dt": dt_, "entry": ["response_series", "nigam_and_jennings_response", "AccSignal.response_series"][j % 3],
             "shape": shape, "time_unit_regime": True})
    # records timed in units so extreme that w^2, w^3 dt leave the double range (dt = 1e-110 / 1e110): listed as an open finding
    # (known_findings.json, C01-extreme-time-unit); exercised on every run so that the finding is re-observed, never suppressing
    # anything else (its failures are reported under their own clause and site)
    from eqsig import sdof
    for j, (dt_, ratio_) in enumerate([(1.0e-110, 4.0), (1.0e110, 50.0)]):
        a = np.array([0.0, 1.0, -1.0, 2.0, 0.5, -0.3, 0.8])
        try:
            with np.errstate(all="ignore"):
                u, v, acc = sdof.response_series(a, dt_, np.array([ratio_ * dt_]), 0.05)
            add({"kind": "series", "T": enc(ratio_ * dt_), "xi": enc(0.05), "dt": enc(dt_), "a": enc_seq(a), "u": enc_seq(u[0]), "v": enc_seq(v[0]), "acc": enc_seq(acc[0])},
                {"kind": "series", "n": len(a), "T_over_dt": ratio_, "xi": 0.05, "dt": dt_, "entry": "extreme time unit", "shape": "short", "finding": "extreme-dt"})
        except Exception:
            pass
    # call history: consecutive calls in one process that share dt, xi, the number of periods and the two end periods
    # but differ in the interior periods / in their order (each period's series must depend on that period only)
    from eqsig import sdof
    for j in range(6 if tier == "quick" else 40):
        n = int(rng.integers(20, 120))
        a, shape = gen.record(rng, n, amp=1.0)
        dt = 0.01
        xi = [0.05, 0.0, 0.3][j % 3]
        grid1 = np.linspace(0.2, 2.0, 4)
        grid2 = np.array([0.2, 0.43, 0.93, 2.0]) if j % 2 else grid1[[0, 2, 1, 3]]
        fn = [sdof.response_series, sdof.nigam_and_jennings_response, lambda m, d, p, x: eqsig_obj(m, d, p, x)][j % 3]
        fn(a, dt, grid1, xi)
        u, v, acc = fn(a, dt, grid2, xi)
        for k, T in enumerate(grid2):
            add({"kind": "series", "T": enc(T), "xi": enc(xi), "dt": enc(dt), "a": enc_seq(a), "u": enc_seq(u[k]), "v": enc_seq(v[k]), "acc": enc_seq(acc[k])},
                {"kind": "series", "n": n, "T_over_dt": T / dt, "xi": xi, "dt": dt, "entry": "second call with another interior grid (%d)" % (j % 3), "shape": shape})
    # one LARGE job with a leading zero period (more than 2^22 response samples: implementations may process it in blocks); the zero
    # row, the first and the last oscillator and one in between are validated like any other series
    if True:
        n, nper = (4200, 1001) if tier == "quick" else (6000, 1500)
        a, shape = gen.record(rng, n, shape="noise", amp=1.0)
        dt = 0.01
        xi = 0.05
        periods = np.concatenate([[0.0], np.sort(rng.uniform(0.08, 4.0, size=nper - 1))])
        fn = [sdof.response_series, sdof.nigam_and_jennings_response][int(rng.integers(2))]
        u, v, acc = fn(np.array(a), dt, periods, xi)
        for k in (0, 1, int(rng.integers(2, nper - 1)), nper - 1):
            T = float(periods[k])
            if T == 0.0:
                add({"kind": "zero", "a": enc_seq(a), "u": enc_seq(u[k]), "v": enc_seq(v[k]), "acc": enc_seq(acc[k])},
                    {"kind": "zero", "n": n, "entry": "large job (%d periods), zero row" % nper, "shape": shape})
            else:
                add({"kind": "series", "T": enc(T), "xi": enc(xi), "dt": enc(dt), "a": enc_seq(a), "u": enc_seq(u[k]), "v": enc_seq(v[k]), "acc": enc_seq(acc[k])},
                    {"kind": "series", "n": n, "T_over_dt": T / dt, "xi": xi, "dt": dt, "entry": "large job (%d periods), row %d" % (nper, k), "shape": shape})
    # the series handed out belong to the caller: whatever the caller does to them (here: overwritten in place), the next call
    # on the same object / with the same arguments returns the exact solution again
    import eqsig
    for j in range(6 if tier == "quick" else 30):
        n = int(rng.integers(20, 120))
        a, shape = gen.record(rng, n, amp=1.0)
        dt = float([0.01, 0.02, 0.005][j % 3])
        xi = [0.05, 0.0, 0.3, 0.05][int(rng.integers(4))]
        grid = np.sort(rng.uniform(8, 150, size=3)) * dt
        o = eqsig.AccSignal(a, dt, response_times=grid.copy()) if j % 2 else eqsig.AccSignal(a, dt)
        how = j % 3
        if how == 1:
            o.response_times = grid.copy()

        def call():
            if how == 0:
                return o.response_series(response_times=grid, xi=xi)
            if j % 2 or how == 1:
                return o.response_series(xi=xi)              # the object's own periods
            return sdof.response_series(a, dt, grid, xi)
        first = call()
        for arr in first:
            arr *= 0.0
            arr += 7.0
        if j % 4 == 3:
            call()[0][:] = -1.0
        u, v, acc = call()
        per = grid if (how == 0 or j % 2 or how == 1) else grid
        for k, T in enumerate(per):
            add({"kind": "series", "T": enc(T), "xi": enc(xi), "dt": enc(dt), "a": enc_seq(a), "u": enc_seq(u[k]), "v": enc_seq(v[k]), "acc": enc_seq(acc[k])},
                {"kind": "series", "n": n, "T_over_dt": T / dt, "xi": xi, "dt": dt, "entry": "repeated call after the caller overwrote the earlier result (%d)" % how, "shape": shape})
    write_ndjson(path, recs)
    return meta


def eqsig_obj(m, dt, periods, xi):
    import eqsig
    return eqsig.AccSignal(m, dt).response_series(response_times=np.array(periods), xi=xi)


def run(tier, seed):
    rep = Report("C01", tier, seed)
    wd = workdir("C01")
    maxlen = 4 if tier == "quick" else 6
    tab = os.path.join(wd, "table.txt")
    with warnings.catch_warnings():
        warnings.simplefilter("ignore")
        nrows = gen.build_table(tab, NL, maxlen, table_row)
    r = tlc.run("MC_Oscillator", cfg=MC_CFG % maxlen, env={"TABLE_FILE": tab}, job="C01/mc", coverage=(tier == "thorough"))
    if r.invariant_violated:
        raise tlc.MachineryError("model invariant violated in MC_Oscillator: %s" % r.invariant_violated)
    rep.add_tlc("MC_Oscillator(MaxLen=%d)" % maxlen, r, "every record over {-1,0,1/2,2} x 24 regimes (T/dt 0.2..2e4, xi 0..0.999); three entry points in lock-step")
    rep.evaluations += nrows
    rep.exhaustive = True
    for code, clause in r.mismatches[:2000]:
        rep.fail(clause, "lattice", {"code": code, "a": [LEVELS[d - 1] for d in gen.decode(code, NL)], "dt": DT, "ratios": RATIOS, "xis": XIS})
    rep.sample({"lockstep": "record [2, 0, -1] dt=0.01, 24 regimes: exact flow state after the third sample vs response_series / nigam_and_jennings_response / AccSignal.response_series"})
    tr = os.path.join(wd, "trace.ndjson")
    with warnings.catch_warnings():
        warnings.simplefilter("ignore")
        meta = build_traces(tr, tier, seed)
    r2 = tlc.run("Trace_Oscillator", cfg="Trace_Oscillator", env={"TRACE_FILE": tr}, job="C01/trace")
    rep.add_tlc("Trace_Oscillator", r2, "one chain per call and period, the exact flow advanced one sample per step")
    for t in meta:
        if t not in r2.verdicts:
            raise tlc.MachineryError("no verdict for tid %d" % t)
        rep.traces += 1
        if meta[t].get("finding") == "extreme-dt":
            if r2.verdicts[t][0]:
                rep.fail("ExactAtExtremeTimeUnit", "extreme-dt", dict(meta[t], clauses=sorted(r2.verdicts[t][0])))
            continue
        for c in r2.verdicts[t][0]:
            rep.fail(c, "trace:" + meta[t].get("entry", meta[t]["kind"]) if isinstance(meta[t].get("entry"), str) else "trace:" + meta[t]["kind"], meta[t])
    ks = [t for t in sorted(meta) if meta[t]["kind"] == "series"]
    for t in ks[:3]:
        rep.sample(meta[t])
    rep.assumptions = ["tolerance verbatim from the statement, relative to max(series peak, 1e-9 * natural scale) (the exact velocity vanishes identically at the sample instants for xi=0, T/dt = 1, 1/2, ...)",
                       "exact flow = 20-term power series of e^Z, phi1, phi2 with scaling and squaring (remainder < 2^-60 at norm <= 1/2); self-checked by the semigroup law FlowExact",
                       "0.2 <= T/dt <= 2e4, 0 <= xi < 1 (xi <= 0.999)"]
    return rep.finish(checker_cmd="tlc MC_Oscillator / Trace_Oscillator (harness/drivers/c01.py)",
                      trusted_base=["TLC 1.8", "FP.class", "TableIO.class", "harness/common.py enc"])

"""C13 -- peak-only series conserve total variation; equivalent-cycle measures are inverse."""
import os
import warnings
import numpy as np

from harness import tlc, gen
from harness.common import enc, enc_seq, workdir, write_ndjson, Report

NL = 5
MC_CFG = """SPECIFICATION Spec
CONSTANT MaxLen = %d
INVARIANT Conforms
INVARIANT InverseLaw
CHECK_DEADLOCK FALSE
"""


def col0(a, n):
    return np.asarray(a, dtype=float).reshape(n, -1)[:, 0]


def table_row(code, digits):
    from eqsig.fns import peaks_and_crossings as pc
    from eqsig import im
    base = np.array(digits) - 3
    n = len(base)
    row = [code, n]
    if len(set(digits)) < 2:
        return row
    for off in (0, 4, -3):
        v = base + off
        v = [v, v.astype(float), v.tolist()][(code + off) % 3]
        d = pc.determine_peaks_only_delta_series(v)
        p = pc.determine_pseudo_cyclic_peak_only_series(v)
        for x in np.asarray(d, dtype=float):
            row += enc(x)
        for x in np.asarray(p, dtype=float):
            row += enc(x)
    vf = base.astype(float)
    sw = pc.get_switched_peak_array_indices(vf)
    row += [len(sw)] + [int(i) for i in sw]
    for b in (1.0, 0.5):
        nc = col0(im.calc_n_cyc_array_w_power_law(vf, 2.0, b, cut_off=0.0), n)
        am = col0(im.calc_cyc_amp_array_w_power_law(vf, 4.0, b), n)
        row += enc(nc[-1]) + enc(am[-1])
    nc = col0(im.calc_n_cyc_array_w_power_law(base if code % 2 else vf, 2.0, 0.5, cut_off=0.0), n)
    am = col0(im.calc_cyc_amp_array_w_power_law(base if code % 2 else vf, 4.0, 0.5), n)
    for x in nc:
        row += enc(x)
    for x in am:
        row += enc(x)
    return row


def rand_series(rng, n):
    kind = rng.integers(6)
    if kind == 0:
        x = rng.standard_normal(n)
    elif kind == 1:
        x = np.repeat(rng.integers(-3, 4, size=n), rng.integers(1, 4, size=n))[:n].astype(float)
    elif kind == 2:   # plateau at the start, then moves down / up, with offset
        x = np.repeat(rng.standard_normal(n), rng.integers(1, 4, size=n))[:n] + rng.uniform(-5, 5)
        x[: int(rng.integers(1, max(2, n // 3)))] = x[0]
    elif kind == 3:
        t = np.arange(n)
        x = np.sin(2 * np.pi * t / rng.uniform(5, 50)) * (1 + 0.5 * np.sin(t / 7.0)) + 0.1 * rng.standard_normal(n)
    elif kind == 4:   # exact zero touch-downs
        x = rng.integers(-2, 3, size=n).astype(float) * rng.uniform(0.5, 2)
    else:
        x = np.cumsum(rng.standard_normal(n)) + rng.uniform(-3, 3)
    return gen.not_constant(x)


def build_traces(path, tier, seed):
    from eqsig.fns import peaks_and_crossings as pc
    from eqsig import im
    rng = np.random.default_rng(seed + 13)
    recs, meta = [], {}
    npk = 60 if tier == "quick" else 400
    npl = 60 if tier == "quick" else 400
    nmax = 800 if tier == "quick" else 1500       # the declarative turning-point set is quadratic in the length
    tid = 0
    for i in range(npk):
        n = gen.length(rng, 2, nmax) if i % 3 else int(rng.integers(2, 12))
        x = rand_series(rng, n)
        if i % 5 == 1:
            x = np.round(x * 2)
            x = gen.not_constant(x)
        shift = float(rng.choice([4.0, -3.0, 100.0, rng.uniform(-10, 10)]))
        if rng.integers(4) == 0 and not (i % 5 == 1):
            # records in small / large units: total variation and the peak-only series are scale free
            sc = 10.0 ** rng.choice([rng.uniform(-12, -6), rng.uniform(3, 8), rng.uniform(-290, -160)])     # (... down to units in which products of differences underflow)
            x = x * sc
            shift = shift * sc
        arg = x if i % 4 else x.tolist()
        argi = x.astype(np.int64) if (i % 5 == 1 and i % 2) else arg
        if rng.integers(8) == 0:
            # counts in a narrow integer dtype whose differences leave the dtype (int8 up to 120, int16 up to 30000, int32 up to 2e9)
            dt_, top = [(np.int8, 120), (np.int16, 30000), (np.int32, 2.0e9)][int(rng.integers(3))]
            argi = np.round(x / (np.max(np.abs(x)) + 1e-300) * top).astype(dt_)
            if np.all(argi == argi[0]):
                argi[-1] = argi[0] - 1 if argi[0] > 0 else argi[0] + 1
            x = np.asarray(argi, dtype=float)
            shift = float(np.round(shift)) if abs(shift) < top / 4 else 3.0
        cleaned_entry = False
        if rng.integers(3) == 0:
            gen.array_noise(rng, argi)          # other public functions on the same container just before, results overwritten
        d = pc.determine_peaks_only_delta_series(argi)
        p = pc.determine_pseudo_cyclic_peak_only_series(argi)
        if i % 6 == 4 and not np.any(np.diff(x) == 0):
            # plateau-free series through the cleaned-data entry point, also as counts in (unsigned) narrow integer types
            if i % 12 == 4 and n < 400:
                dt_ = [np.int8, np.uint8, np.int16, np.uint16][int(rng.integers(4))]
                ii = np.iinfo(dt_)
                xi_ = rng.integers(ii.min, ii.max + 1, size=n)
                xi_ = xi_[np.insert(np.diff(xi_) != 0, 0, True)]
                if len(xi_) >= 2:
                    argi = xi_.astype(dt_)
                    x = np.asarray(argi, dtype=float)
                    n = len(x)
                    shift = 3.0
                    p = pc.determine_pseudo_cyclic_peak_only_series(argi)
            d = pc.determine_peak_only_delta_series_4_cleaned_data(argi)
            cleaned_entry = True
        # "independent of a constant shift": the same entry point on the shifted series (the cleaned-data entry point keeps the
        # sign of the first movement, determine_peaks_only_delta_series normalises it: the two differ by a global sign on series
        # that start downwards, so they must not be mixed in this comparison)
        dsh = (pc.determine_peak_only_delta_series_4_cleaned_data(x + shift) if cleaned_entry
               else pc.determine_peaks_only_delta_series(x + shift))
        psh = pc.determine_pseudo_cyclic_peak_only_series(x + shift)
        tid += 1
        recs.append({"tid": tid, "kind": "peaks", "x": enc_seq(x), "shift": enc(shift), "d": enc_seq(np.asarray(d, dtype=float)),
                     "p": enc_seq(np.asarray(p, dtype=float)), "dsh": enc_seq(dsh), "psh": enc_seq(psh)})
        meta[tid] = {"kind": "peaks", "n": n, "head": [float(v) for v in x[:8]], "shift": shift,
                     "container": type(argi).__name__ + ":" + str(getattr(argi, "dtype", ""))}
    for i in range(npl):
        n = gen.length(rng, 3, nmax) if i % 3 else int(rng.integers(3, 15))
        x = rand_series(rng, n) * float(10.0 ** rng.choice([rng.uniform(-2, 2), rng.uniform(-2, 2), rng.uniform(-12, -6), rng.uniform(3, 8)]))
        if np.max(np.abs(x)) == 0:
            x[0] = 1.0
        b = float([1.0, 0.5, 0.25, 0.3, 0.06, rng.uniform(0.05, 1.0)][i % 6])
        cut = float([0.0, 0.01, 0.1, rng.uniform(0, 0.1)][i % 4])
        aref = float(np.max(np.abs(x)) * rng.uniform(0.2, 1.5))
        namp = float([15.0, 1.0, 0.5, rng.uniform(0.1, 40)][i % 4])
        if i % 5 == 3:      # integer counts (int64 / int32 arrays)
            xi_ = np.round(x / np.max(np.abs(x)) * 40)
            if np.max(np.abs(xi_)) == 0:
                xi_[0] = 3
            dt_ = [np.int64, np.int32, np.int8, np.int16][(i // 5) % 4]
            if dt_ in (np.int8, np.int16):
                # full-range counts of a narrow type, including its most negative count (which has no absolute value in the type)
                xi_ = np.round(x / np.max(np.abs(x)) * np.iinfo(dt_).max)
                xi_[int(rng.integers(n))] = np.iinfo(dt_).min
            x = xi_.astype(dt_)
            aref = float(np.max(np.abs(x)) * rng.uniform(0.2, 1.5))
        if rng.integers(3):
            # history: the same record (the same array, or a copy of it) was analysed before with another cut-off, reference
            # amplitude and exponent -- every call is a function of its own arguments
            for _ in range(int(rng.integers(1, 3))):
                im.calc_n_cyc_array_w_power_law(x if rng.integers(2) else np.array(x), aref * float(rng.uniform(0.5, 1.5)), float(rng.choice([1.0, 0.5, 0.3])),
                                                cut_off=float(rng.choice([0.1, 0.05, 0.0, 0.02, 0.1])))
            im.calc_cyc_amp_array_w_power_law(x, float(rng.uniform(0.5, 20)), float(rng.choice([1.0, 0.5, 0.3])))
        sw = pc.get_switched_peak_array_indices(x)
        if rng.integers(2):
            # the caller overwrites index / series arrays it was handed by other functions for the same record just before
            gen._scribble(pc.get_switched_peak_array_indices(x))
            gen.array_noise(rng, x, k=1)
        ncyc = col0(im.calc_n_cyc_array_w_power_law(x, aref, b, cut_off=cut), n)
        amp = col0(im.calc_cyc_amp_array_w_power_law(x, namp, b), n)
        if not (ncyc[-1] > 0):
            continue
        ainv = col0(im.calc_cyc_amp_array_w_power_law(x, float(ncyc[-1]), b), n)[-1]
        alpha = float(rng.choice([-3.0, 0.1, 7.0, rng.uniform(-5, 5) or 1.0]))
        amp_scaled = col0(im.calc_cyc_amp_array_w_power_law(x * alpha, namp, b), n)[-1]
        a2 = float(2.0 ** rng.integers(-8, 9)) * (-1 if i % 2 else 1)
        ncyc_joint = col0(im.calc_n_cyc_array_w_power_law(x * a2, aref * abs(a2), b, cut_off=cut), n)[-1]
        comb = np.asarray(im.calc_cyc_amp_combined_arrays_w_power_law(x, x.copy(), namp, b), dtype=float)[-1]
        gm = col0(im.calc_cyc_amp_gm_arrays_w_power_law(x, x.copy(), namp, b), n)[-1]
        colb = np.array([1.0, 0.4, b])
        cn = np.asarray(im.calc_n_cyc_array_w_power_law(x, aref, colb, cut_off=cut), dtype=float)
        ca = np.asarray(im.calc_cyc_amp_array_w_power_law(x, namp, colb), dtype=float)
        if cn.shape != (n, 3) or ca.shape != (n, 3):
            cn = np.full((n, 3), np.nan)
            ca = np.full((n, 3), np.nan)
        tid += 1
        recs.append({"tid": tid, "kind": "pl", "x": enc_seq(np.asarray(x, dtype=float)), "sw": [int(k) for k in sw], "aref": enc(aref), "b": enc(b), "cut": enc(cut),
                     "namp": enc(namp), "ncyc": enc_seq(ncyc), "amp": enc_seq(amp), "ainv": enc(ainv), "alpha": enc(alpha),
                     "amp_scaled": enc(amp_scaled), "ncyc_joint": enc(ncyc_joint), "comb": enc(comb), "gm": enc(gm),
                     "colb": enc_seq(colb), "colncyc": enc_seq(cn[-1]), "colamp": enc_seq(ca[-1])})
        meta[tid] = {"kind": "pl", "n": n, "b": b, "cut_off": cut, "a_ref": aref, "n_cyc": namp, "alpha": alpha, "ncyc_final": float(ncyc[-1]),
                     "amp_final": float(amp[-1])}
    # one record longer than 2^16 samples (series may be accumulated in blocks): the laws between results -- the definition itself is
    # validated on the shorter records, a full evaluation of this one by TLC takes minutes
    for j in range(1 if tier == "quick" else 3):
        n = 66000 + int(rng.integers(0, 3000))
        x = rand_series(rng, n) * float(10.0 ** rng.uniform(-2, 2))
        b = float([0.5, 0.3, 0.06][j % 3])
        aref = float(np.max(np.abs(x)) * rng.uniform(0.2, 1.5))
        namp = 15.0
        ncyc = col0(im.calc_n_cyc_array_w_power_law(x, aref, b, cut_off=0.0), n)
        amp = col0(im.calc_cyc_amp_array_w_power_law(x, namp, b), n)
        ainv = col0(im.calc_cyc_amp_array_w_power_law(x, float(ncyc[-1]), b), n)[-1]
        alpha = float(rng.choice([-3.0, 0.1, 7.0]))
        amp_scaled = col0(im.calc_cyc_amp_array_w_power_law(x * alpha, namp, b), n)[-1]
        a2 = float(2.0 ** rng.integers(-8, 9))
        ncyc_joint = col0(im.calc_n_cyc_array_w_power_law(x * a2, aref * a2, b, cut_off=0.0), n)[-1]
        tid += 1
        recs.append({"tid": tid, "kind": "plrel", "aref": enc(aref), "alpha": enc(alpha), "amp_last": enc(amp[-1]), "amp_scaled": enc(amp_scaled),
                     "ncyc_last": enc(ncyc[-1]), "ncyc_joint": enc(ncyc_joint), "ainv": enc(ainv), "n": n, "len_ok": bool(len(ncyc) == n and len(amp) == n),
                     "amp_dec": enc_seq(np.concatenate([amp[::97], amp[-1:]])), "ncyc_dec": enc_seq(np.concatenate([ncyc[::97], ncyc[-1:]]))})
        meta[tid] = {"kind": "plrel", "n": n, "b": b, "a_ref": aref, "note": "long record: laws between results (scaling, joint scaling, inverse at cut_off = 0, monotone on every 97th sample)"}
    write_ndjson(path, recs)
    return meta


def run(tier, seed):
    rep = Report("C13", tier, seed)
    wd = workdir("C13")
    maxlen = 6 if tier == "quick" else 7
    tab = os.path.join(wd, "table.txt")
    with warnings.catch_warnings():
        warnings.simplefilter("ignore")
        nrows = gen.build_table(tab, NL, maxlen, table_row)
    r = tlc.run("MC_PeakSeries", cfg=MC_CFG % maxlen, env={"TABLE_FILE": tab}, job="C13/mc", coverage=(tier == "thorough"))
    if r.invariant_violated:
        raise tlc.MachineryError("model invariant violated in MC_PeakSeries: %s" % r.invariant_violated)
    rep.add_tlc("MC_PeakSeries(MaxLen=%d)" % maxlen, r, "every non-constant series over {-2..2} and its +4 / -3 shifts (int, float, list containers); conservation laws exact; power-law finals b in {1, 1/2}")
    rep.evaluations += nrows
    rep.exhaustive = True
    for code, clause in r.mismatches[:2000]:
        rep.fail(clause, "lattice", {"code": code, "values": [d - 3 for d in gen.decode(code, NL)]})
    rep.sample({"lockstep": "series [1,1,-1,0,-2]: TV = 5, end-start = -3, final movement down: pseudo-cyclic sum must be 5/2 + 3/2 = 4"})
    tr = os.path.join(wd, "trace.ndjson")
    with warnings.catch_warnings():
        warnings.simplefilter("ignore")
        meta = build_traces(tr, tier, seed)
    r2 = tlc.run("Trace_PeakSeries", cfg="Trace_PeakSeries", env={"TRACE_FILE": tr}, job="C13/trace")
    rep.add_tlc("Trace_PeakSeries", r2, "recorded calls on random series; power-law laws as relations over the reported switched peaks")
    for t in meta:
        if t not in r2.verdicts:
            raise tlc.MachineryError("no verdict for tid %d" % t)
        rep.traces += 1
        for c in r2.verdicts[t][0]:
            rep.fail(c, "trace:" + meta[t]["kind"], meta[t])
    ks = sorted(meta)
    for t in (ks[0], ks[len(ks) // 2 + 5], ks[-1]):
        rep.sample(meta[t])
    rep.assumptions = ["power-law relations are stated over the switched peaks the implementation reports",
                       "joint scaling of record and reference amplitude uses alpha = +-2^k (exact), so a peak on the cut_off boundary stays on its side",
                       "inverse law: amplitude for N = cycles(a_ref) equals a_ref*(sum over all peaks / sum over kept peaks)^b, i.e. a_ref when cut_off = 0"]
    return rep.finish(checker_cmd="tlc MC_PeakSeries / Trace_PeakSeries (harness/drivers/c13.py)",
                      trusted_base=["TLC 1.8", "FP.class", "TableIO.class", "harness/common.py enc"])

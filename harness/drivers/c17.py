"""C17 -- Butterworth filtering is zero-phase with the analytic gain; detrending is exact."""
import os
import warnings
import numpy as np

from harness import tlc, gen
from harness.common import enc, enc_seq, workdir, write_ndjson, Report

NL = 5
MC_CFG = """SPECIFICATION Spec
CONSTANT MaxLen = %d
INVARIANT GainLaws
INVARIANT Conforms
CHECK_DEADLOCK FALSE
"""


def poly(n, deg):
    t = np.linspace(0, 1.0, n)
    c = [1.0, 2.0, -3.0, 0.5, -0.25]
    return sum(c[j] * t ** j for j in range(deg + 1))


def table_row(code, digits):
    import eqsig
    from eqsig.fns import generic as gn
    v = np.array(digits) - 3
    n = len(v)
    row = [code, n]
    if n < 3:
        return row
    arg = [v.astype(float), v, v.tolist()][code % 3]
    for w in range(1, 8):
        o = eqsig.Signal(arg, 0.01) if code % 2 else eqsig.AccSignal(arg, 0.01)
        o.running_average(w)
        for x in np.asarray(o.values, dtype=float):
            row += enc(x)
    for d in range(3):
        o = eqsig.Signal(arg, 0.01)
        o.remove_poly(d)
        y = np.array(o.values, dtype=float)
        o.remove_poly(d)
        y2 = np.array(o.values, dtype=float)
        op = eqsig.AccSignal(v.astype(float) + poly(n, d), 0.01)
        op.remove_poly(poly_fit=d)
        yp = np.array(op.values, dtype=float)
        ya = np.asarray(gn.remove_poly(v.astype(float), poly_fit=d), dtype=float)
        for blk in (y, y2, yp, ya):
            for x in blk:
                row += enc(x)
    return row


def near_corner_history(rng, cls, dt, cut, kw):
    """history: another record was filtered just before with the same type, order and time step but corner frequencies a
    few parts in a hundred / thousand / ten thousand away -- each call designs the filter for its own corners"""
    d = float(rng.choice([3e-2, -2e-2, 1e-3, 4e-4, -5e-3]))
    near = tuple(None if c is None else float(c) * (1.0 + d) for c in cut)
    other = cls(np.random.default_rng(int(rng.integers(1 << 30))).standard_normal(400), dt)
    other.butter_pass(near, **kw)


def build_traces(path, tier, seed):
    import eqsig
    from eqsig import exceptions
    from eqsig.fns import generic as gn
    rng = np.random.default_rng(seed + 17)
    recs, meta = [], {}
    tid = 0

    def add(rec, m):
        nonlocal tid
        tid += 1
        rec["tid"] = tid
        recs.append(rec)
        meta[tid] = m

    # --- Butterworth: sinusoids across pass / transition / stop bands
    ngain = 40 if tier == "quick" else 400
    for i in range(ngain):
        ftype = ["band", "low", "high"][i % 3]
        order = 1 + (i // 3) % 4
        dt = [0.01, 0.005, 0.02, 0.008, 0.04, 0.0078125, 0.013][i % 7]      # incl. sampling rates that are not an even number of Hz
        nyq = 0.5 / dt
        f_low = float(nyq * 10.0 ** rng.uniform(-1.5, -0.6))       # f_low*dt in [0.016, 0.125]
        f_high = float(min(nyq * 0.8, f_low * 10.0 ** rng.uniform(0.4, 1.0)))
        if ftype == "band":
            cut = (f_low, f_high)
            edges = [f_low, f_high]
        elif ftype == "low":
            cut = (None, f_high)
            edges = [f_high]
        else:
            cut = (f_low, None)
            edges = [f_low]
        e = edges[int(rng.integers(len(edges)))]
        f = float(e * 10.0 ** rng.uniform(-0.5, 0.5)) if i % 4 else float(e)           # around a cut-off: transition band
        f = float(min(max(f, 0.02 * nyq * 0 + 1.0 / (4000 * dt)), 0.95 * nyq))
        longest = 1.0 / min(edges + [f])
        n = int(min(20000, max(400, 60 * longest / dt)))
        if n * dt < 40 * longest:
            continue
        gibbs = [None, "start", "end", "mid"][(i // 2) % 4]
        cont = [tuple, list, np.array][(i // 3) % 3]
        if cont is np.array and (cut[0] is None or cut[1] is None):
            cont = list        # an ndarray cannot hold None together with a float without becoming dtype=object
        cut_arg = cont(cut) if cont is not np.array else np.array(cut)
        t = np.arange(n) * dt
        ph = float(rng.uniform(0, 2 * np.pi))
        amp = float(10.0 ** rng.uniform(-1, 1))
        x = amp * np.sin(2 * np.pi * f * t + ph)
        cls = eqsig.AccSignal if i % 2 else eqsig.Signal
        o = cls(x.copy(), dt)
        raised, y, nout, dtout = False, np.zeros(0), 0, 0.0
        try:
            with warnings.catch_warnings():
                warnings.simplefilter("ignore")
                kw = {"filter_order": gen.intlike(rng, order)}
                if gibbs is not None:
                    kw["remove_gibbs"] = gibbs
                if rng.integers(3):
                    near_corner_history(rng, cls, dt, cut, kw)
                o.butter_pass(cut_arg, **kw)
            y, nout, dtout = np.asarray(o.values, dtype=float), int(o.npts), float(o.dt)
        except (AttributeError, TypeError) as ex:
            raised = True
        lo, hi = n // 4, (3 * n) // 4
        sel = np.linspace(lo, hi - 1, 200).astype(int)
        add({"kind": "gain", "dt": enc(dt), "n": n, "ftype": ftype, "order": order, "f1": enc(cut[0] if cut[0] is not None else 0.0),
             "f2": enc(cut[1] if cut[1] is not None else 0.0), "f": enc(f), "raised": raised, "dtout": enc(dtout), "nout": nout,
             "x": enc_seq(x[sel]), "y": enc_seq(y[sel] if len(y) == n else [])},
            {"kind": "gain", "ftype": ftype, "order": order, "cut_off": [cut[0], cut[1]], "container": cont.__name__ if cont is not np.array else "ndarray", "f": f, "dt": dt, "n": n,
             "remove_gibbs": gibbs, "raised": raised})
        if not raised and i % 3 == 0:      # linearity
            b = rng.standard_normal(n)
            al, be = float(rng.choice([-2.0, 0.5, 3.0])), float(rng.choice([-2.0, 0.5, 3.0]))
            outs = []
            for sig in (x, b, al * x + be * b):
                oo = cls(sig.copy(), dt)
                with warnings.catch_warnings():
                    warnings.simplefilter("ignore")
                    oo.butter_pass(cut_arg, **kw)
                outs.append(np.asarray(oo.values, dtype=float)[sel])
            scale = abs(al) * float(np.max(np.abs(x))) + abs(be) * float(np.max(np.abs(b)))
            add({"kind": "rel", "law": "lin", "clause": "FilterLinear", "tol": enc(1e-8), "scale": enc(scale), "f": enc(al), "g": enc(be),
                 "x": enc_seq(outs[0]), "y": enc_seq(outs[1]), "z": enc_seq(outs[2])}, {"kind": "rel", "law": "FilterLinear", "ftype": ftype, "order": order, "n": n})
    # --- long-period corners on finely sampled long records: f_c*dt down to 1e-4 (orders 1-2; 3 for low / high pass),
    #     record >= 25 periods of the slowest of (corner, sinusoid)
    for j in range(9 if tier == "quick" else 60):
        dt = [0.01, 0.005, 0.02][j % 3]
        ftype = ["high", "band", "low"][(j // 3) % 3]
        order = int(rng.integers(1, 4 if ftype != "band" else 3))
        fc = float(10.0 ** rng.uniform(-4, -2.4)) / dt
        f = float(fc * [0.5, 1.0, 2.0, 0.75, 1.5][j % 5])
        n = int(min(2 ** 17, max(4000, 30.0 / (min(f, fc) * dt))))
        if n * dt * min(f, fc) < 25:
            fc = 26.0 / (n * dt) / min(1.0, f / fc)
            f = float(fc * [0.5, 1.0, 2.0, 0.75, 1.5][j % 5])
        cut = {"high": (fc, None), "band": (fc, min(50 * fc, 0.4 / dt)), "low": (None, fc)}[ftype]
        t = np.arange(n) * dt
        x = float(10.0 ** rng.uniform(-1, 1)) * np.sin(2 * np.pi * f * t + float(rng.uniform(0, 6.28)))
        cls = eqsig.AccSignal if j % 2 else eqsig.Signal
        o = cls(x.copy(), dt)
        kw = {"filter_order": gen.intlike(rng, order)}
        if j % 4 == 1:
            kw["remove_gibbs"] = "mid"
        with warnings.catch_warnings():
            warnings.simplefilter("ignore")
            if rng.integers(3):
                near_corner_history(rng, cls, dt, cut, kw)
            o.butter_pass(list(cut) if j % 2 else cut, **kw)
        y = np.asarray(o.values, dtype=float)
        sel = np.linspace(n // 4, (3 * n) // 4 - 1, 200).astype(int)
        add({"kind": "gain", "dt": enc(dt), "n": n, "ftype": ftype, "order": order, "f1": enc(cut[0] if cut[0] is not None else 0.0),
             "f2": enc(cut[1] if cut[1] is not None else 0.0), "f": enc(f), "raised": False, "dtout": enc(float(o.dt)), "nout": int(o.npts),
             "x": enc_seq(x[sel]), "y": enc_seq(y[sel] if len(y) == n else [])},
            {"kind": "gain", "family": "long-period corner", "ftype": ftype, "order": order, "cut_off": [cut[0], cut[1]], "fc*dt": fc * dt, "f": f, "dt": dt, "n": n,
             "remove_gibbs": kw.get("remove_gibbs")})
    # --- "for every record": counts held in an integer dtype are filtered like the same record held as floats, over the WHOLE
    #     record (ends included), with and without Gibbs padding
    for j in range(8 if tier == "quick" else 48):
        n = int(rng.integers(60, 400))
        dt = 0.01
        dt_, top = [(np.int8, 120), (np.int16, 30000), (np.int32, 2.0e9), (np.int64, 1000)][j % 4]
        x, shape = gen.record(rng, n, shape=["noise", "sine", "walk"][j % 3], amp=1.0)
        xi_ = np.round(x / (np.max(np.abs(x)) + 1e-300) * top + (0.4 * top if j % 2 else 0.0)).clip(-top, top).astype(dt_)
        gibbs = [None, "start", "end", "mid"][(j // 2) % 4]
        kw = {"filter_order": int(1 + j % 4)}
        if gibbs is not None:
            kw["remove_gibbs"] = gibbs
        cut = [(1.5, 18.0), (None, 12.0), (2.0, None)][j % 3]
        oi, of = eqsig.AccSignal(xi_.copy(), dt), eqsig.AccSignal(xi_.astype(float), dt)
        with warnings.catch_warnings():
            warnings.simplefilter("ignore")
            oi.butter_pass(cut, **kw)
            of.butter_pass(cut, **kw)
        add({"kind": "rel", "law": "same", "clause": "FilterLinear", "tol": enc(1e-9), "scale": enc(float(top)), "f": enc(1.0), "g": enc(0.0),
             "x": enc_seq(np.asarray(of.values, dtype=float)), "y": enc_seq(np.asarray(oi.values, dtype=float)), "z": []},
            {"kind": "rel", "law": "integer record = same record as floats", "dtype": np.dtype(dt_).name, "n": n, "remove_gibbs": gibbs, "cut_off": list(cut), "order": kw["filter_order"]})
    # --- call history: a low-pass and a high-pass with the SAME order and cut-off one after the other (either order),
    #     on the same and on different objects (what Cluster.combine_motions does)
    for j in range(4 if tier == "quick" else 24):
        dt = [0.01, 0.02][j % 2]
        order = 1 + j % 4
        fc = float([2.0, 1.0, 5.0][j % 3])
        f = float(fc * [0.25, 4.0, 0.7, 1.4][j % 4])
        n = int(max(400, 60 * max(1 / fc, 1 / f) / dt))
        t = np.arange(n) * dt
        x = np.sin(2 * np.pi * f * t + 0.3)
        first, second = (("low", (None, fc)), ("high", (fc, None))) if j % 2 == 0 else (("high", (fc, None)), ("low", (None, fc)))
        o1 = eqsig.AccSignal(x.copy(), dt)
        o1.butter_pass(first[1], filter_order=order)
        o2 = o1 if j % 3 == 0 else eqsig.Signal(x.copy(), dt)
        if o2 is o1:
            o2.reset_values(x.copy())
        o2.butter_pass(list(second[1]), filter_order=order)
        y = np.asarray(o2.values, dtype=float)
        sel = np.linspace(n // 4, (3 * n) // 4 - 1, 200).astype(int)
        cut = second[1]
        add({"kind": "gain", "dt": enc(dt), "n": n, "ftype": second[0], "order": order, "f1": enc(cut[0] if cut[0] is not None else 0.0),
             "f2": enc(cut[1] if cut[1] is not None else 0.0), "f": enc(f), "raised": False, "dtout": enc(float(o2.dt)), "nout": int(o2.npts),
             "x": enc_seq(x[sel]), "y": enc_seq(y[sel])},
            {"kind": "gain", "history": "%s-pass after %s-pass, same order %d and cut-off %.1f Hz" % (second[0], first[0], order, fc), "f": f, "dt": dt, "n": n})
    # --- detrending, degrees 0..4
    ndet = 25 if tier == "quick" else 200
    for i in range(ndet):
        n = gen.length(rng, 8, 400 if tier == "quick" else 3000)
        x, shape = gen.record(rng, n, amp=float(10.0 ** rng.uniform(-2, 2)))
        d = i % 5
        if i == ndet - 1 or (tier == "thorough" and i % 50 == 49):
            # a long record with the highest degree, object level (the least-squares problem is at its worst conditioned)
            n, d = 20001, 4
            x, shape = gen.record(rng, n, shape="noise", amp=1.0)
            i = i | 1
        if i % 2:
            o = eqsig.AccSignal(x.copy(), 0.01)
            o.remove_poly(gen.intlike(rng, d))
            y = np.array(o.values)
            o.remove_poly(poly_fit=d)
            y2 = np.array(o.values)
            op = eqsig.Signal(x + float(np.max(np.abs(x)) + 1) * poly(n, d), 0.01)
            op.remove_poly(d)
            yp = np.array(op.values)
            fn = "Signal.remove_poly"
        else:
            y = gn.remove_poly(x.copy(), poly_fit=d)
            y2 = gn.remove_poly(np.array(y), poly_fit=d)
            yp = gn.remove_poly(x + float(np.max(np.abs(x)) + 1) * poly(n, d), poly_fit=d)
            fn = "fns.generic.remove_poly"
        add({"kind": "detrend", "deg": d, "x": enc_seq(x), "y": enc_seq(y), "y2": enc_seq(y2), "yp": enc_seq(yp), "pscale": enc(6.75 * float(np.max(np.abs(x)) + 1))}, {"kind": "detrend", "fn": fn, "n": n, "deg": d, "shape": shape})
    # --- detrending an object that was ALREADY detrended (to the same or a higher degree) and then changed in place through the public
    #     API: the polynomial fitted to the record it holds NOW is removed
    for j in range(8 if tier == "quick" else 40):
        n = int(rng.integers(30, 300))
        x0, shape = gen.record(rng, n, amp=float(10.0 ** rng.uniform(-1, 1)))
        x0 = np.array(x0) + 0.4 * float(np.max(np.abs(x0)) + 0.1) * np.sin(np.arange(n) / max(3.0, n / 5.0))
        k1 = int(rng.integers(0, 5))
        k2 = int(rng.integers(0, k1 + 1))
        o = eqsig.AccSignal(x0.copy(), 0.01)
        o.remove_poly(k1)
        how = j % 5
        with warnings.catch_warnings():
            warnings.simplefilter("ignore")
            if how == 0:
                o.rebase_displacement()
            elif how == 1:
                o.remove_rolling_average(mtype="acc", freq_window=7)
            elif how == 2:
                v_ = o.values
                v_ += np.linspace(0.0, 1.0, n) ** 2 * float(np.max(np.abs(v_)) + 0.1)
                o.reset_values(v_)
            elif how == 3:
                o.set_zero_residual_velocity()
            else:
                o.remove_rolling_average(mtype="velocity", freq_window=9)
        x = np.array(o.values, dtype=float)
        o.remove_poly(k2)
        y = np.array(o.values)
        o.remove_poly(poly_fit=k2)
        y2 = np.array(o.values)
        op = eqsig.Signal(x + float(np.max(np.abs(x)) + 1) * poly(n, k2), 0.01)
        op.remove_poly(k2)
        yp = np.array(op.values)
        add({"kind": "detrend", "deg": k2, "x": enc_seq(x), "y": enc_seq(y), "y2": enc_seq(y2), "yp": enc_seq(yp), "pscale": enc(6.75 * float(np.max(np.abs(x)) + 1))},
            {"kind": "detrend", "fn": "AccSignal.remove_poly(%d) after remove_poly(%d) and an in-place change (%d)" % (k2, k1, how), "n": n, "deg": k2, "shape": shape})
    # --- adding
    nadd = 72 if tier == "quick" else 360
    for i in range(nadd):
        n = int(rng.integers(1, 200))
        dt = 0.01
        # the unit of the record and of what is added: ordinary, nano-units (baseline corrections), raw counts, or a zero addend
        u = float(rng.choice([1.0, 1.0, 1e-9, 1e-12, 1e5, 0.0]))
        x = rng.standard_normal(n) * (10.0 ** rng.uniform(-3, 3) if u in (1.0, 0.0) else u)
        cls = eqsig.AccSignal if i % 2 else eqsig.Signal
        o = cls(x.copy() if i % 3 else np.round(x).astype(np.int64), dt)
        x0 = np.asarray(o.values, dtype=float)
        k = i % 6
        raised, must = False, False
        inc = np.zeros(n)
        try:
            if k == 0:
                c = float(rng.uniform(-5, 5)) * u
                o.add_constant(c)
                inc = np.full(n, c)
            elif k == 1:
                s = rng.standard_normal(n) * u
                o.add_series(s if i % 4 else s.tolist())
                inc = s
            elif k == 2:
                s = rng.standard_normal(n) * u
                o.add_signal(eqsig.Signal(s, dt) if i % 4 else eqsig.AccSignal(s, dt))
                inc = s
            elif k == 3:
                must = True
                o.add_series(rng.standard_normal(n + int(rng.choice([-1, 1, 5])) if n > 1 else n + 1) * u)
            elif k == 4:
                must = True
                o.add_signal(eqsig.Signal(rng.standard_normal(n) * u, dt * float(rng.choice([0.5, 2.0, 1.0000001]))))
            else:
                must = True
                o.add_signal(eqsig.Signal(rng.standard_normal(n + 1) * u, dt) if i % 2 else rng.standard_normal(n) * u)
        except exceptions.SignalProcessingError:
            raised = True
        add({"kind": "add", "x": enc_seq(x0), "inc": enc_seq(inc), "y": enc_seq(np.asarray(o.values, dtype=float)), "raised": raised, "must_raise": must},
            {"kind": "add", "op": ["add_constant", "add_series", "add_signal", "add_series(wrong length)", "add_signal(wrong dt)", "add_signal(wrong length / not a signal)"][k], "n": n, "raised": raised, "unit": u})
    # --- adding whole-number constants / count series / count signals to records held as counts in narrow integer types
    for i in range(18 if tier == "quick" else 120):
        n = int(rng.integers(2, 120))
        dt = 0.01
        dt_ = [np.int8, np.uint8, np.int16, np.int32, np.uint16, np.int8][i % 6]
        ii = np.iinfo(dt_)
        x = rng.integers(ii.min, ii.max, size=n, endpoint=True).astype(dt_)
        cls = eqsig.AccSignal if i % 2 else eqsig.Signal
        o = cls(x.copy(), dt)
        x0 = np.asarray(x, dtype=float)
        k = (i // 6) % 3
        small = int(min(ii.max, 100))
        if k == 0:
            c = [int(rng.integers(1, small)), np.int64(rng.integers(1, small)), dt_(rng.integers(1, small)), -int(rng.integers(1, small))][int(rng.integers(4))]
            o.add_constant(c)
            inc = np.full(n, float(c))
        elif k == 1:
            s = rng.integers(ii.min, ii.max, size=n, endpoint=True).astype(dt_)
            o.add_series(s if i % 4 else [int(v) for v in s])
            inc = np.asarray(s, dtype=float)
        else:
            s = rng.integers(ii.min, ii.max, size=n, endpoint=True).astype(dt_)
            o.add_signal(eqsig.Signal(s, dt) if i % 4 else eqsig.AccSignal(s, dt))
            inc = np.asarray(s, dtype=float)
        add({"kind": "add", "x": enc_seq(x0), "inc": enc_seq(inc), "y": enc_seq(np.asarray(o.values, dtype=float)), "raised": False, "must_raise": False},
            {"kind": "add", "op": ["add_constant", "add_series", "add_signal"][k], "n": n, "raised": False, "record dtype": np.dtype(dt_).name})
    # --- running average, widths 1..25
    nrun = 30 if tier == "quick" else 250
    for i in range(nrun):
        n = gen.length(rng, 3, 300 if tier == "quick" else 2000)
        w = int(1 + (i % 25))
        x, shape = gen.record(rng, n)
        if i % 3 == 1:
            x = np.round(x / (np.max(np.abs(x)) + 1e-300) * 20).astype(np.int64)      # integer record
        cls = eqsig.AccSignal if i % 2 else eqsig.Signal
        o = cls(np.array(x), 0.01)
        o.running_average(gen.intlike(rng, w))
        add({"kind": "runav", "w": w, "x": enc_seq(np.asarray(x, dtype=float)), "y": enc_seq(np.asarray(o.values, dtype=float))},
            {"kind": "runav", "n": n, "w": w, "dtype": str(np.asarray(x).dtype), "shape": shape})
    write_ndjson(path, recs)
    return meta


def run(tier, seed):
    rep = Report("C17", tier, seed)
    wd = workdir("C17")
    maxlen = 5 if tier == "quick" else 6
    tab = os.path.join(wd, "table.txt")
    with warnings.catch_warnings():
        warnings.simplefilter("ignore")
        nrows = gen.build_table(tab, NL, maxlen, table_row)
    r = tlc.run("MC_Filter", cfg=MC_CFG % maxlen, env={"TABLE_FILE": tab}, job="C17/mc", coverage=(tier == "thorough"))
    if r.invariant_violated:
        raise tlc.MachineryError("model invariant violated in MC_Filter: %s" % r.invariant_violated)
    rep.add_tlc("MC_Filter(MaxLen=%d)" % maxlen, r, "every series over {-2..2}: running_average widths 1..7, remove_poly degrees 0..2 (object, twice, after adding a polynomial, array level); gain formula sanity")
    rep.evaluations += nrows
    rep.exhaustive = True
    for code, clause in r.mismatches[:3000]:
        rep.fail(clause, "lattice", {"code": code, "values": [d - 3 for d in gen.decode(code, NL)], "container": ["float ndarray", "int ndarray", "list of int"][code % 3]})
    rep.sample({"lockstep": "series [2,-1,0,1]: running_average(3) must give [0.5, 1/3, 0, 0.5] (means of the ORIGINAL samples)"})
    tr = os.path.join(wd, "trace.ndjson")
    with warnings.catch_warnings():
        warnings.simplefilter("ignore")
        meta = build_traces(tr, tier, seed)
    r2 = tlc.run("Trace_Filter", cfg="Trace_Filter", env={"TRACE_FILE": tr}, job="C17/trace")
    rep.add_tlc("Trace_Filter", r2, "butter_pass on sinusoids (gain recomputed by TLC), linearity, detrending, adding, running average")
    for t in meta:
        if t not in r2.verdicts:
            raise tlc.MachineryError("no verdict for tid %d" % t)
        rep.traces += 1
        for c in r2.verdicts[t][0]:
            rep.fail(c, "trace:" + meta[t]["kind"], meta[t])
    ks = sorted(meta)
    for t in (ks[0], ks[len(ks) // 2], ks[-1]):
        rep.sample(meta[t])
    rep.assumptions = ["gain clause on well-conditioned designs: f_low*dt >= 0.016, records >= 40 longest periods (cut-off or sinusoid), n <= 20000; middle half compared at 1e-4 of the amplitude",
                       "detrending clauses at 1e-7 of the record's peak (polyfit conditioning up to degree 4)"]
    return rep.finish(checker_cmd="tlc MC_Filter / Trace_Filter (harness/drivers/c17.py)",
                      trusted_base=["TLC 1.8", "FP.class (StrictMath tan)", "TableIO.class", "harness/common.py enc"])

"""C06 -- Fourier amplitude spectrum is dt x DFT of the zero-padded record on the stated grid."""
import os
import warnings
import numpy as np

from harness import tlc, gen
from harness.common import enc, enc_seq, enc_cseq, workdir, write_ndjson, Report

NL = 4
DT = 0.3
MC_CFG = """SPECIFICATION Spec
CONSTANT MaxLen = %d
CONSTANT NMax = %d
INVARIANT PadLenLaws
INVARIANT LenConforms
INVARIANT Linear
INVARIANT TrailingZeros
INVARIANT Parseval
INVARIANT InverseExact
INVARIANT Conforms
CHECK_DEADLOCK FALSE
"""


def next_pow2(n):
    p = 1
    while p < n:
        p *= 2
    return p


def variants(x, dt):
    """the eight ways of asking for a spectrum; returns [(N prescribed by the statement, fas, freqs)]"""
    import eqsig
    from eqsig.fns import frequency as fq
    n = len(x)
    out = []
    s = eqsig.Signal(x, dt)
    out.append((next_pow2(n), s.fa_spectrum, s.fa_freqs))
    a = eqsig.AccSignal(x, dt)
    a.gen_fa_spectrum(p2_plus=0)
    out.append((next_pow2(n), a.fa_spectrum, a.fa_frequencies))
    s2 = eqsig.Signal(x, dt)
    s2.gen_fa_spectrum(p2_plus=1)
    out.append((2 * next_pow2(n), s2.fa_spectrum, s2.fa_freqs))
    a2 = eqsig.AccSignal(x, dt)
    a2.gen_fa_spectrum(n=n)
    out.append((n, a2.fa_spectrum, a2.fa_freqs))
    out.append((n + 1,) + tuple(fq.calc_fa_spectrum(eqsig.Signal(x, dt), n=n + 1)))
    s3 = eqsig.Signal(x, dt)
    s3.gen_fa_spectrum(n=2 * n)
    out.append((2 * n, s3.fa_spectrum, s3.fa_freqs))
    out.append((n,) + tuple(fq.generate_fa_spectrum(eqsig.AccSignal(x, dt), n_pad=False)))
    out.append((next_pow2(n),) + tuple(fq.generate_fa_spectrum(eqsig.Signal(x, dt))))
    return out


def table_row(code, digits):
    x = np.array(digits, dtype=float) - 2.0
    n = len(x)
    row = [code, n]
    if n < 2:
        return row
    # the record as the caller may hand it over: float array, integer array, list of ints
    arg = [x, x.astype(np.int64), [int(v) for v in x]][code % 3]
    for N, fas, fr in variants(arg, DT):
        fas, fr = np.asarray(fas), np.asarray(fr, dtype=float)
        row += [N, len(fas)]
        for z in fas:
            row += enc(z.real) + enc(z.imag)
        for f in fr:
            row += enc(f)
    return row


def len_table(path, nmax):
    import eqsig
    from eqsig.fns import frequency as fq
    with open(path, "w") as f:
        for npts in range(2, nmax + 1):
            x = np.ones(npts)
            row = [npts]
            for p in range(4):
                s = eqsig.Signal(x, 0.01)
                s.gen_fa_spectrum(p2_plus=p)
                row.append(len(s.fa_spectrum))
                row.append(len(fq.calc_fa_spectrum(eqsig.AccSignal(x, 0.01), p2_plus=p)[1]))
            row.append(len(fq.calc_fa_spectrum(eqsig.Signal(x, 0.01))[0]))
            row.append(len(fq.calc_fa_spectrum(eqsig.Signal(x, 0.01), n=npts + 1)[0]))
            f.write(" ".join(map(str, row)) + "\n")


def build_traces(path, tier, seed):
    import eqsig
    from eqsig import im
    from eqsig.fns import frequency as fq
    rng = np.random.default_rng(seed + 6)
    recs, meta = [], {}
    tid = 0

    def add(rec, m):
        nonlocal tid
        tid += 1
        rec["tid"] = tid
        recs.append(rec)
        meta[tid] = m

    # two records whose raw BYTES coincide (signed / unsigned counts of the same width; int32 pairs read as int64) transformed one
    # after the other with the same transform length: each spectrum is that of its own values
    for j in range(6 if tier == "quick" else 30):
        n = int(rng.integers(4, 40))
        a_, b_ = gen.byte_twins(rng, n)
        dt = float(rng.choice([0.01, 0.02, 0.5]))
        for rec_ in (a_, b_):
            which = j % 3
            if which == 0:
                o = eqsig.AccSignal(rec_, dt)
                N, fas, fr = next_pow2(len(rec_)), np.array(o.fa_spectrum), np.array(o.fa_freqs)
            elif which == 1:
                N = len(rec_) + 1
                fas, fr = fq.calc_fa_spectrum(eqsig.Signal(rec_, dt), n=N)
            else:
                N = next_pow2(len(rec_))
                fas, fr = fq.generate_fa_spectrum(eqsig.Signal(rec_, dt))
            add({"kind": "fas", "dt": enc(dt), "x": enc_seq(np.asarray(rec_, dtype=float)), "N": int(N), "fas": enc_cseq(fas), "freqs": enc_seq(fr),
                 "objfas": [], "objfreqs": []},
                {"kind": "fas", "n": len(rec_), "N": int(N), "variant": "byte twins (%s after %s)" % (rec_.dtype, a_.dtype), "dt": dt, "shape": "counts"})
    nfas = 28 if tier == "quick" else 160
    nmax = 130 if tier == "quick" else 600
    special = [2, 3, 4, 5, 7, 8, 9, 15, 16, 17, 31, 32, 33, 63, 64, 65, 100, 127, 128, 129]
    for i in range(nfas):
        n = special[i % len(special)] if i % 2 == 0 else int(rng.integers(2, nmax))
        n = min(n, nmax)
        x, shape = gen.record(rng, n)
        dt = float(rng.choice([0.005, 0.01, 0.5, 2.0, 0.003, 0.0123, 0.4]))      # incl. sampling rates that are not whole Hz
        if i % 5 == 3:                      # integer-count record
            x = np.round(x / (np.max(np.abs(x)) + 1e-300) * 1000).astype(np.int64)
        vs = variants(x, dt)
        x = np.asarray(x, dtype=float)
        v = i % 8
        N, fas, fr = vs[v]
        if i % 4 == 2:
            # history: the object held a record of another length whose spectrum / frequencies were read; after the
            # replacement the frequencies are read BEFORE the spectrum (default padding)
            o = eqsig.AccSignal(np.cos(np.arange(3 * n + 5) / 2.0), dt)
            _ = (o.fa_frequencies, o.fa_spectrum, o.smooth_fa_spectrum)
            o.reset_values(x.copy())
            fr = np.array(o.fa_frequencies)
            fas = np.array(o.fa_spectrum)
            N = next_pow2(n)
            v = 8
        sel9 = int(rng.integers(6))
        if v != 8 and sel9 == 0:
            # both options given: the explicit transform length wins (array level and object level agree)
            n9 = n + int(rng.integers(0, 7))
            p9 = int(rng.integers(0, 3))
            if i % 2:
                fas, fr = fq.calc_fa_spectrum(eqsig.Signal(np.asarray(x, dtype=float), dt), n=n9, p2_plus=p9)
            else:
                o9 = eqsig.AccSignal(np.asarray(x, dtype=float), dt)
                o9.gen_fa_spectrum(p2_plus=p9, n=n9)
                fas, fr = o9.fa_spectrum, o9.fa_freqs
            N, v = n9, 9
        elif v != 8 and sel9 == 1:
            # a sequence of explicit transform lengths on ONE object (incl. pairs 2m / 2m+1 with the same number of bins)
            o10 = eqsig.Signal(np.asarray(x, dtype=float), dt)
            _ = o10.fa_spectrum
            N = next_pow2(n)
            for step_ in range(int(rng.integers(1, 4))):
                N = [N + 1, N - 1 if N - 1 >= n else N + 1, N + 2, next_pow2(n) + 1][0 if step_ == 0 else int(rng.integers(4))]
                o10.gen_fa_spectrum(n=N)
            fas, fr, v = o10.fa_spectrum, o10.fa_freqs, 10
        objfas, objfr = [], []
        if v in (6, 7) and v != 8:      # array-level function against the object-level result with the same transform length
            o = eqsig.AccSignal(x, dt)
            if v == 6:
                o.gen_fa_spectrum(n=n)
            objfas, objfr = o.fa_spectrum, o.fa_freqs
        add({"kind": "fas", "dt": enc(dt), "x": enc_seq(x), "N": int(N), "fas": enc_cseq(fas), "freqs": enc_seq(fr),
             "objfas": enc_cseq(objfas), "objfreqs": enc_seq(objfr)},
            {"kind": "fas", "n": n, "N": int(N), "variant": v, "dt": dt, "shape": shape})
    # a signal with COMPLEX values (what fas2signal returns): reading its spectrum leaves the record as it is
    for j in range(4 if tier == "quick" else 24):
        n = int(2 ** rng.integers(2, 8)) if j % 2 else int(rng.integers(4, 100))
        x, shape = gen.record(rng, n, amp=1.0)
        dt = [0.01, 0.5][j % 2]
        src = eqsig.Signal(x, dt)
        sig_c = fq.fas2signal(np.array(src.fa_spectrum if j % 4 < 2 else fq.calc_fa_spectrum(src)[0]), dt, stype="signal")
        before = np.array(sig_c.values, dtype=complex)
        _ = (sig_c.fa_spectrum, sig_c.fa_freqs)
        if j % 3 == 0:
            sig_c.gen_fa_spectrum(n=len(before))
        after = np.array(sig_c.values, dtype=complex)
        add({"kind": "rel", "clause": "DftValues", "x": enc_seq(np.concatenate([before.real, before.imag])), "y": enc_seq(np.concatenate([after.real, after.imag])) if len(after) == len(before) else []},
            {"kind": "rel", "law": "reading the spectrum of a complex-valued signal leaves its record unchanged", "n": n, "len": len(before)})
    ndom = 16 if tier == "quick" else 100
    for i in range(ndom):
        n = int(rng.integers(16, 400))
        dt = [0.005, 0.01, 0.02][i % 3]
        t = np.arange(n) * dt
        f0 = float(rng.uniform(2.0 / (n * dt), 0.4 / dt))
        x = np.sin(2 * np.pi * f0 * t + rng.uniform(0, 2 * np.pi)) * rng.uniform(0.5, 3) + 0.05 * rng.standard_normal(n)
        x = x - np.mean(x)
        if i % 4 == 3 and i % 5 != 1:
            x = x + 5.0          # the mean dominates: the largest-amplitude bin is the zero-frequency bin (period 1/0)
        if i % 5 == 1:
            # records in extreme units: the amplitudes are ordinary doubles, their squares are not (2^-560 .. 2^520); tiny and huge
            # units alternate, so that every run has both
            x = x * float(2.0 ** [-560, 520, -530, 505][(i // 5) % 4])
        o = eqsig.AccSignal(x, dt)
        # transform length: default, extra powers of two, explicit even / odd n (the dominant period is read off THAT grid)
        nsel = i % 5 if i < 10 else int(rng.integers(5))          # every way of fixing the transform length at least twice
        if nsel == 1:
            o.gen_fa_spectrum(p2_plus=gen.intlike(rng, int(rng.integers(1, 3))))
        elif nsel == 2:
            o.gen_fa_spectrum(n=gen.intlike(rng, n + (n % 2) + 2 * int(rng.integers(0, 9))))
        elif nsel == 3:
            o.gen_fa_spectrum(n=gen.intlike(rng, n + 1 - (n % 2) + 2 * int(rng.integers(0, 9))))
        elif nsel == 4:
            o.generate_fa_spectrum()
        with warnings.catch_warnings():
            warnings.simplefilter("ignore")
            per = float(im.max_fa_period(o))
        add({"kind": "dom", "fas": enc_cseq(o.fa_spectrum), "freqs": enc_seq(o.fa_freqs), "period": enc(per)},
            {"kind": "dom", "n": n, "dt": dt, "f0": f0, "period": per, "transform_length": ["default", "p2_plus", "explicit even n", "explicit odd n", "default (alias)"][nsel]})
    ninv = 16 if tier == "quick" else 100
    evens = [4, 6, 8, 10, 12, 14, 16, 18, 20, 22, 28, 30, 36, 50, 62, 64, 100, 126]
    for i in range(ninv):
        n = evens[i % len(evens)] if i % 3 else 2 * int(rng.integers(2, 120))
        x, shape = gen.record(rng, n, amp=1.0)
        dt = [0.01, 0.5][i % 2]
        fas, fr = fq.calc_fa_spectrum(eqsig.Signal(x, dt))
        hist = None
        if i % 3 == 1:
            # the inverse is applied to the spectrum a signal object holds (not a copy); the object's spectrum is read
            # again afterwards and validated like any other spectrum (length a power of two: the object does not pad)
            n = int(2 ** rng.integers(2, 8))
            x, shape = gen.record(rng, n, amp=1.0)
            x = x + 0.25
            hist = eqsig.AccSignal(x, dt) if i % 2 else eqsig.Signal(x, dt)
            fas = hist.fa_spectrum
        if i % 2:
            y = fq.fas2values(fas, dt)
            fn = "fas2values"
        else:
            y = fq.fas2signal(fas, dt, stype="signal" if i % 4 else "acc").values
            fn = "fas2signal"
        add({"kind": "inv", "dt": enc(dt), "x": enc_seq(x), "y": enc_cseq(np.asarray(y, dtype=complex))},
            {"kind": "inv", "n": n, "dt": dt, "fn": fn, "len_y": len(y), "shape": shape, "spectrum_from": "object" if hist is not None else "array-level function"})
        if hist is not None:
            add({"kind": "fas", "dt": enc(dt), "x": enc_seq(x), "N": int(next_pow2(n)), "fas": enc_cseq(hist.fa_spectrum), "freqs": enc_seq(hist.fa_freqs),
                 "objfas": enc_cseq([]), "objfreqs": enc_seq([])},
                {"kind": "fas", "n": n, "N": int(next_pow2(n)), "variant": "object spectrum re-read after %s was applied to it" % fn, "dt": dt, "shape": shape})
    # the object's spectrum (and dominant period) was read; then the record was changed IN PLACE through the public API -- the array
    # handed out by .values edited and handed back, a residual correction, a re-basing -- and the spectrum is read again
    for j in range(6 if tier == "quick" else 30):
        n = int(rng.integers(12, 90))
        dt = float(rng.choice([0.01, 0.02, 0.005]))
        x, shape = gen.record(rng, n, amp=1.0)
        x = np.array(x) + 0.3 * np.arange(n) / n + 0.2
        o = eqsig.AccSignal(x.copy(), dt)
        _ = (np.array(o.fa_spectrum), o.fa_freqs, o.smooth_fa_spectrum)
        how = j % 6
        with warnings.catch_warnings():
            warnings.simplefilter("ignore")
            if how == 0:
                v_ = o.values
                v_[n // 2:] *= -2.0
                o.reset_values(v_)
            elif how == 1:
                o.set_zero_residual_velocity()
            elif how == 2:
                o.set_zero_residual_displacement()
            elif how == 3:
                o.set_zero_residual_displacement_and_velocity()
            elif how == 4:
                o.rebase_displacement()
            else:
                v_ = o.values
                v_ -= float(np.mean(v_))
                o.reset_values(v_)
        xx = np.asarray(o.values, dtype=float)
        add({"kind": "fas", "dt": enc(dt), "x": enc_seq(xx), "N": int(next_pow2(n)), "fas": enc_cseq(o.fa_spectrum), "freqs": enc_seq(o.fa_freqs),
             "objfas": enc_cseq([]), "objfreqs": enc_seq([])},
            {"kind": "fas", "n": n, "N": int(next_pow2(n)), "variant": "object spectrum re-read after an in-place change of the record (%d)" % how, "dt": dt, "shape": shape})
    write_ndjson(path, recs)
    return meta


def run(tier, seed):
    rep = Report("C06", tier, seed)
    wd = workdir("C06")
    maxlen, nmax = (5, 300) if tier == "quick" else (7, 2100)
    tab, lent = os.path.join(wd, "table.txt"), os.path.join(wd, "len.txt")
    with warnings.catch_warnings():
        warnings.simplefilter("ignore")
        nrows = gen.build_table(tab, NL, maxlen, table_row)
        len_table(lent, nmax)
    r = tlc.run("MC_Fourier", cfg=MC_CFG % (maxlen, nmax), env={"TABLE_FILE": tab, "LEN_FILE": lent}, job="C06/mc", coverage=(tier == "thorough"))
    if r.invariant_violated:
        raise tlc.MachineryError("model invariant violated in MC_Fourier: %s" % r.invariant_violated)
    rep.add_tlc("MC_Fourier(MaxLen=%d, NMax=%d)" % (maxlen, nmax), r, "transform length for npts 2..NMax x p2_plus 0..3; every record over {-1,0,1,2}: laws of the definitional DFT; 8 spectrum variants in lock-step")
    rep.evaluations += nrows + nmax
    rep.exhaustive = True
    for code, clause in r.mismatches[:3000]:
        if clause in ("PadLen", "BinCount") and code <= nmax and False:
            pass
        rep.fail(clause, "lattice", {"code_or_npts": code, "x": [d - 2 for d in gen.decode(code, NL)][:8], "dt": DT})
    rep.sample({"lockstep": "record [1,0,-1] dt=0.25: variants N = 4 (default), 4, 8 (p2_plus=1), 3 (n=npts), 4 (n=npts+1), 6, 3 (unpadded), 4"})
    tr = os.path.join(wd, "trace.ndjson")
    with warnings.catch_warnings():
        warnings.simplefilter("ignore")
        meta = build_traces(tr, tier, seed)
    r2 = tlc.run("Trace_Fourier", cfg="Trace_Fourier", env={"TRACE_FILE": tr}, job="C06/trace")
    rep.add_tlc("Trace_Fourier", r2, "one event per bin: definitional DFT recomputed by TLC; dominant period; inverse helper")
    for t in meta:
        if t not in r2.verdicts:
            raise tlc.MachineryError("no verdict for tid %d" % t)
        rep.traces += 1
        for c in r2.verdicts[t][0]:
            rep.fail(c, "trace:" + meta[t]["kind"] + (":" + meta[t].get("fn", "") if meta[t]["kind"] == "inv" else ""), meta[t])
    for t in (1, 2, len(meta)):
        rep.sample(meta[t])
    rep.assumptions = ["explicit n >= npts (the statement speaks of zero padding)", "inverse helper on even transform lengths (a Nyquist component exists only then)",
                       "dominant period: any bin within 1e-9 (relative) of the largest amplitude is accepted",
                       "per-bin tolerance 1e-9 * dt * sum|x|; grid 1e-12 relative"]
    return rep.finish(checker_cmd="tlc MC_Fourier / Trace_Fourier (harness/drivers/c06.py)",
                      trusted_base=["TLC 1.8", "FP.class (StrictMath sin/cos)", "TableIO.class", "harness/common.py enc"])

"""C07 -- Konno-Ohmachi smoothing is a normalised non-negative log-frequency window."""
import os
import warnings
import numpy as np

from harness import tlc, gen
from harness.common import enc, enc_seq, workdir, write_ndjson, Report

NL = 3
LEVELS = [0.0, 1.0, 3.0]
TARGETS = np.array([0.25, 0.3, 0.75, 1.1, 2.0, 0.1])
BANDS = [5, 40, 100]
MC_CFG = """SPECIFICATION Spec
CONSTANT MaxLen = %d
INVARIANT WeightsLaws
INVARIANT Bounded
INVARIANT ConstReproduced
INVARIANT Homogeneous
INVARIANT MatrixEqualsDirect
INVARIANT ZeroBinIgnored
INVARIANT Conforms
CHECK_DEADLOCK FALSE
"""


def table_row(code, digits):
    from eqsig.fns import frequency as fq
    amps = np.array(LEVELS)[np.array(digits) - 1]
    n = len(amps)
    row = [code, n]
    if n < 3:
        return row
    fr = np.arange(1, n + 1) / 4.0
    blocks = [[], [], []]
    for b in BANDS:
        blocks[0] += list(fq.calc_smooth_fa_spectrum(fr, amps, TARGETS, band=b))
        fz = np.concatenate([[0.0], fr])
        az = np.concatenate([[77.0], amps]) * np.exp(1j * 0.7)          # complex amplitudes, zero-frequency bin present
        blocks[1] += list(fq.calc_smooth_fa_spectrum(fz, az, TARGETS, band=b))
        mat = fq.calc_smoothing_matrix_konno_1998(fz, TARGETS, band=b)
        blocks[2] += list(np.dot(amps, mat))
    for blk in blocks:
        for x in blk:
            row += enc(x)
    return row


def build_traces(path, tier, seed):
    import eqsig
    from eqsig import im
    from eqsig.fns import frequency as fq
    rng = np.random.default_rng(seed + 7)
    recs, meta = [], {}
    tid = 0

    def add(rec, m):
        nonlocal tid
        tid += 1
        rec["tid"] = tid
        recs.append(rec)
        meta[tid] = m

    # wide frequency spans at the ends of the bandwidth range: |b log10(f/fc)| up to ~600 (far above anything that
    # fits a double if the window were evaluated through (f/fc)**b)
    for band in (100.0, 75.0, 5.0):
        x = rng.standard_normal(512)
        o = eqsig.AccSignal(x, 0.01)
        ff, fa = np.array(o.fa_freqs), np.array(o.fa_spectrum)
        targets = np.array([ff[1] / 300.0, ff[1] / 30.0, ff[1], 3.0, ff[-1], ff[-1] * 30.0, ff[-1] * 1000.0])
        with warnings.catch_warnings():
            warnings.simplefilter("ignore")
            out = fq.calc_smooth_fa_spectrum(ff, fa, targets, band=band)
            mat = fq.calc_smoothing_matrix_konno_1998(ff, targets, band=band)
        add({"kind": "smooth", "freqs": enc_seq(ff), "amps": enc_seq(np.abs(fa)), "targets": enc_seq(targets), "band": enc(band), "out": enc_seq(out)},
            {"kind": "smooth", "fn": "calc_smooth_fa_spectrum(wide span)", "n": 512, "band": band, "targets": targets.tolist()})
        add({"kind": "matrix", "freqs": enc_seq(ff), "targets": enc_seq(targets), "band": enc(band), "cols": [enc_seq(mat[:, c]) for c in range(mat.shape[1])]},
            {"kind": "matrix", "n": 512, "band": band, "targets": targets.tolist(), "wide": True})
    # history: the smoothed spectrum was evaluated once (band 40), then re-evaluated with another bandwidth / after the
    # Fourier grid changed / after the record changed and the plain spectrum was read first
    for j, band in enumerate((100.0, 5.0, 20.0, 60.0)):
        x = rng.standard_normal(96)
        o = eqsig.AccSignal(x, 0.01)
        _ = o.smooth_fa_spectrum
        if j == 2:
            _ = im.calc_bandwidth_freqs(o)
        if j == 3:
            o.add_series(0.5 * np.sin(np.arange(96) / 2.0))
            _ = o.fa_spectrum
            band = 40.0
            out = o.smooth_fa_spectrum
        elif j % 2:
            o.generate_smooth_fa_spectrum(band=band)
            out = o.smooth_fa_spectrum
        else:
            o.gen_smooth_fa_spectrum(band=band)
            out = o.smooth_fa_spectrum
        add({"kind": "smooth", "freqs": enc_seq(o.fa_freqs), "amps": enc_seq(np.abs(o.fa_spectrum)), "targets": enc_seq(o.smooth_fa_freqs), "band": enc(band), "out": enc_seq(out)},
            {"kind": "smooth", "fn": "Signal.smooth_fa_spectrum re-evaluated (history %d)" % j, "n": 96, "band": band})
    # matrix form with default targets (None) on a grid that contains the zero-frequency bin
    for band in (40.0, 5.0):
        x = rng.standard_normal(24)
        o = eqsig.AccSignal(x, 0.02)
        ff = np.array(o.fa_freqs)
        with warnings.catch_warnings():
            warnings.simplefilter("ignore")
            mat = np.asarray(fq.calc_smoothing_matrix_konno_1998(ff, band=band))
            via = np.asarray(fq.calc_smooth_fa_spectrum_w_custom_matrix(o, mat)) if mat.shape[0] == len(ff) - 1 else np.zeros(0)
            direct = fq.calc_smooth_fa_spectrum(ff, np.array(o.fa_spectrum), band=band)
        add({"kind": "matrix", "freqs": enc_seq(ff), "targets": enc_seq(ff[1:]), "band": enc(band),
             "cols": [enc_seq(mat[:, c]) for c in range(mat.shape[1])] if mat.shape[1] == len(ff) - 1 else []},
            {"kind": "matrix", "default_targets": True, "shape": list(mat.shape), "band": band})
        add({"kind": "rel", "clause": "MatrixEqualsDirect", "x": enc_seq(direct), "y": enc_seq(via), "f": enc(1.0)}, {"kind": "rel", "law": "MatrixEqualsDirect (default targets)", "band": band})
    # spectra given on axes of the caller's own (octave bands, log-spaced, irregular; no zero-frequency bin, the second frequency
    # well above twice the first), and whole-number targets held in integer types / python lists
    for j in range(8 if tier == "quick" else 40):
        kind_ = j % 4
        if kind_ == 0:
            ff = np.array([0.1, 0.25, 0.5, 1.0, 2.5, 5.0, 10.0, 25.0])
        elif kind_ == 1:
            ff = float(rng.uniform(0.05, 0.5)) * float(rng.uniform(2.2, 3.5)) ** np.arange(int(rng.integers(4, 10)))
        elif kind_ == 2:
            ff = np.cumsum(rng.uniform(0.05, 3.0, size=int(rng.integers(5, 40))))
            ff[1:] += 2.0 * ff[0]
        else:
            ff = np.array(eqsig.AccSignal(rng.standard_normal(64), 0.01).fa_freqs)
        am = np.abs(rng.standard_normal(len(ff))) + 0.01
        am[0 if ff[0] > 0 else 1] *= 10.0                      # the lowest genuine bin carries the largest amplitude
        band = float([40, 5, 100, 20][(j // 4) % 4])
        if j % 2:
            tg_f = np.array([1.0, 2.0, 5.0, 10.0, 20.0])
            tg = [tg_f.astype(np.int64), tg_f.astype(np.int16), tg_f.astype(np.int32), tg_f.astype(np.uint8)][(j // 2) % 4]      # (arrays: the functions index them)
        else:
            tg_f = np.array([ff[0 if ff[0] > 0 else 1], float(ff[0 if ff[0] > 0 else 1]) * 1.3, float(np.sqrt(ff[1] * ff[-1])), float(ff[-1])])
            tg = tg_f
        with warnings.catch_warnings():
            warnings.simplefilter("ignore")
            out = fq.calc_smooth_fa_spectrum(ff, am, tg, band=band)
            mat = np.asarray(fq.calc_smoothing_matrix_konno_1998(ff, np.asarray(tg), band=band))
        add({"kind": "smooth", "freqs": enc_seq(ff), "amps": enc_seq(am), "targets": enc_seq(tg_f), "band": enc(band), "out": enc_seq(out)},
            {"kind": "smooth", "fn": "calc_smooth_fa_spectrum(caller's axis / whole-number targets)", "axis": ["octave bands", "log-spaced", "irregular", "fft grid"][kind_],
             "nfreq": len(ff), "band": band, "targets": repr(tg)[:80]})
        add({"kind": "matrix", "freqs": enc_seq(ff), "targets": enc_seq(tg_f), "band": enc(band), "cols": [enc_seq(mat[:, c]) for c in range(mat.shape[1])] if mat.ndim == 2 else []},
            {"kind": "matrix", "axis": ["octave bands", "log-spaced", "irregular", "fft grid"][kind_], "nfreq": len(ff), "band": band, "targets": repr(tg)[:80]})
        if j % 2:
            o_ = eqsig.AccSignal(rng.standard_normal(128), 0.01)
            with warnings.catch_warnings():
                warnings.simplefilter("ignore")
                if j % 4 == 1:
                    o_.gen_smooth_fa_spectrum(smooth_fa_freqs=tg, band=band)
                else:
                    o_.smooth_fa_freqs = tg
                    band = 40.0
                out_o = np.array(o_.smooth_fa_spectrum)
            add({"kind": "smooth", "freqs": enc_seq(o_.fa_freqs), "amps": enc_seq(np.abs(o_.fa_spectrum)), "targets": enc_seq(tg_f), "band": enc(band), "out": enc_seq(out_o)},
                {"kind": "smooth", "fn": "Signal.smooth_fa_spectrum(whole-number targets)", "band": band, "targets": repr(tg)[:80]})
    # object histories: the generator is called again with OTHER target frequencies of the same count (and, or, another bandwidth,
    # another record) -- what is reported is the smoothing at the frequencies and bandwidth of the LAST call
    for j in range(5 if tier == "quick" else 30):
        n = int(rng.integers(40, 260))
        dt = [0.01, 0.005, 0.02][j % 3]
        o = eqsig.AccSignal(rng.standard_normal(n), dt)
        band = float([40, 20, 100, 5, 75][j % 5])
        nt = [50, 8, 12, 50, 20][j % 5]                       # 50 = the count of the default frequencies
        ff = np.array(o.fa_freqs)
        targets = np.sort(rng.uniform(ff[1], ff[-1], size=nt))
        other = np.sort(rng.uniform(ff[1], ff[-1], size=nt))
        with warnings.catch_warnings():
            warnings.simplefilter("ignore")
            if j % 2:
                _ = np.array(o.smooth_fa_spectrum)           # the default frequencies and bandwidth first
            o.gen_smooth_fa_spectrum(smooth_fa_freqs=other, band=band if j % 3 else 40.0)
            _ = np.array(o.smooth_fa_spectrum)
            if j % 4 == 3:
                o.add_constant(0.1)                          # the record changes, the frequency axes do not
            if j % 5 in (1, 4):
                # the Fourier spectrum itself is regenerated with another transform length that has the SAME number of bins
                # (2m and 2m + 1) -- the frequencies change, their count does not -- and the smoothing asked for again
                N_ = 2 * (len(o.values) // 2 + int(rng.integers(1, 9)))
                o.gen_fa_spectrum(n=N_)
                o.gen_smooth_fa_spectrum(smooth_fa_freqs=targets, band=band)
                _ = np.array(o.smooth_fa_spectrum)
                o.gen_fa_spectrum(n=N_ + 1)
                if j % 5 == 4:
                    o.gen_smooth_fa_spectrum(band=band)                  # same targets, same band, nothing else said
                    out = np.array(o.smooth_fa_spectrum)
                    add({"kind": "smooth", "freqs": enc_seq(o.fa_freqs), "amps": enc_seq(np.abs(o.fa_spectrum)), "targets": enc_seq(targets), "band": enc(band), "out": enc_seq(out)},
                        {"kind": "smooth", "fn": "Signal.gen_smooth_fa_spectrum() after gen_fa_spectrum(n=2m) -> smoothing -> gen_fa_spectrum(n=2m+1)", "n": n, "band": band, "targets": nt})
            o.gen_smooth_fa_spectrum(smooth_fa_freqs=targets, band=band)
            out = np.array(o.smooth_fa_spectrum)
        add({"kind": "smooth", "freqs": enc_seq(o.fa_freqs), "amps": enc_seq(np.abs(o.fa_spectrum)), "targets": enc_seq(targets), "band": enc(band), "out": enc_seq(out)},
            {"kind": "smooth", "fn": "Signal.gen_smooth_fa_spectrum(smooth_fa_freqs=..) after the same call with other frequencies of the same count", "n": n, "band": band, "targets": nt})
    nrec = 24 if tier == "quick" else 150
    for i in range(nrec):
        n = int([64, 100, 256, 300, 1000, 2048][i % 6]) if tier == "thorough" else int([50, 64, 100, 200, 256, 130][i % 6])
        dt = [0.01, 0.005, 0.02][i % 3]
        x, shape = gen.record(rng, n, amp=1.0)
        if shape in ("zero", "const"):
            x = rng.standard_normal(n)
        o = eqsig.AccSignal(x, dt)
        ff, fa = np.array(o.fa_freqs), np.array(o.fa_spectrum)
        band = float([5, 40, 100, 20, 75, rng.uniform(5, 100)][i % 6])
        k = i % 5
        if k == 0:       # exactly on the Fourier grid (incl. the default smooth_fa_frequencies=None path)
            targets = ff[1:][rng.choice(len(ff) - 1, size=min(8, len(ff) - 1), replace=False)]
        elif k == 1:     # inside, off grid
            targets = np.sort(rng.uniform(ff[1], ff[-1], size=8))
        elif k == 2:     # outside on both sides and far outside
            targets = np.array([ff[1] * 0.3, ff[1] * 0.99, ff[-1] * 1.01, ff[-1] * 3.0, ff[-1] * 40.0, ff[1] / 50.0])
        elif k == 3:     # log-spaced as the class does
            targets = np.logspace(np.log10(0.1), np.log10(30), 12)
        else:            # mixture incl. a grid point and its immediate float neighbours
            g = ff[1 + int(rng.integers(len(ff) - 1))]
            targets = np.array([g, np.nextafter(g, 0), np.nextafter(g, 1e9), g * 1.0000001, ff[1], ff[-1]])
        with warnings.catch_warnings():
            warnings.simplefilter("ignore")
            variant = i % 4
            if variant == 0:      # with the zero-frequency bin, complex amplitudes
                out = fq.calc_smooth_fa_spectrum(ff, fa, targets, band=band)
                fr_used, am_used = ff, np.abs(fa)
                fn = "calc_smooth_fa_spectrum(zero bin, complex)"
            elif variant == 1:    # without the zero-frequency bin, real amplitudes
                out = fq.calc_smooth_fa_spectrum(ff[1:], np.abs(fa[1:]), targets, band=band)
                fr_used, am_used = ff[1:], np.abs(fa[1:])
                fn = "calc_smooth_fa_spectrum(no zero bin, real)"
            elif variant == 2:    # object level after a setter
                setter = (i // 4) % 4
                if setter == 0:
                    o.smooth_fa_freqs = targets
                elif setter == 1:
                    o.smooth_fa_frequencies = targets
                elif setter == 2:
                    o.set_smooth_fa_frequecies_by_range((float(min(targets[0], 0.5)), float(max(targets[-1], 1.0))), len(targets))
                    targets = np.array(o.smooth_fa_freqs)
                else:
                    _ = o.smooth_fa_spectrum
                    if rng.integers(4):
                        # history: the same call was made before with OTHER target frequencies (same count, same bandwidth) and read
                        other = np.sort(np.asarray(targets, dtype=float) * rng.uniform(0.6, 1.6, size=len(targets)))
                        o.gen_smooth_fa_spectrum(smooth_fa_freqs=other, band=band)
                        _ = np.array(o.smooth_fa_spectrum)
                    o.gen_smooth_fa_spectrum(smooth_fa_freqs=targets, band=band)
                if setter != 3:
                    band = 40.0
                out = o.smooth_fa_spectrum
                fr_used, am_used = ff, np.abs(fa)
                fn = "Signal.smooth_fa_spectrum(setter %d)" % setter
            else:                 # deprecated wrapper with the other argument order / targets=None
                if k == 0:
                    out = fq.calc_smooth_fa_spectrum(ff, fa, None, band=band)
                    targets = ff[1:]
                    if len(targets) > 40:
                        sel = rng.choice(len(targets), size=40, replace=False)
                        out, targets = out[sel], targets[sel]
                else:
                    out = fq.generate_smooth_fa_spectrum(targets, ff, fa, band=band)
                fr_used, am_used = ff, np.abs(fa)
                fn = "generate_smooth_fa_spectrum / targets=None"
        add({"kind": "smooth", "freqs": enc_seq(fr_used), "amps": enc_seq(am_used), "targets": enc_seq(targets), "band": enc(band), "out": enc_seq(out)},
            {"kind": "smooth", "fn": fn, "n": n, "nfreq": len(fr_used), "band": band, "targets": [float(t) for t in targets[:6]], "target_kind": k})
        # matrix form
        with warnings.catch_warnings():
            warnings.simplefilter("ignore")
            tg = targets[:6]
            mat = fq.calc_smoothing_matrix_konno_1998(ff, tg, band=band)
            add({"kind": "matrix", "freqs": enc_seq(ff), "targets": enc_seq(tg), "band": enc(band), "cols": [enc_seq(mat[:, c]) for c in range(mat.shape[1])]},
                {"kind": "matrix", "n": n, "band": band, "targets": [float(t) for t in tg]})
            direct = fq.calc_smooth_fa_spectrum(ff, fa, tg, band=band)
            via = fq.calc_smooth_fa_spectrum_w_custom_matrix(o, mat)
            add({"kind": "rel", "clause": "MatrixEqualsDirect", "x": enc_seq(direct), "y": enc_seq(via), "f": enc(1.0)}, {"kind": "rel", "law": "MatrixEqualsDirect", "n": n})
            const = fq.calc_smooth_fa_spectrum(ff, np.full(len(ff), 2.5 + 0j), tg, band=band)
            add({"kind": "rel", "clause": "ConstReproduced", "x": enc_seq(np.full(len(tg), 2.5)), "y": enc_seq(const), "f": enc(1.0)}, {"kind": "rel", "law": "ConstReproduced", "n": n})
            alpha = float([-3.0, 0.1, 7.0][i % 3])
            sc = fq.calc_smooth_fa_spectrum(ff, fa * alpha, tg, band=band)
            add({"kind": "rel", "clause": "Homogeneous", "x": enc_seq(direct), "y": enc_seq(sc), "f": enc(abs(alpha))}, {"kind": "rel", "law": "Homogeneous", "alpha": alpha})
            if i % 3 == 0 and len(ff) > 8:
                # targets that log-resample the spectrum over its own range: same count and end points as the grid, other interior
                tg2 = np.geomspace(ff[1], ff[-1], len(ff) - 1)
                mat2 = fq.calc_smoothing_matrix_konno_1998(ff, tg2, band=band)
                d2 = fq.calc_smooth_fa_spectrum(ff, fa, tg2, band=band)
                v2_ = fq.calc_smooth_fa_spectrum_w_custom_matrix(o, mat2)
                add({"kind": "rel", "clause": "MatrixEqualsDirect", "x": enc_seq(d2), "y": enc_seq(v2_), "f": enc(1.0)},
                    {"kind": "rel", "law": "MatrixEqualsDirect (targets = geomspace over the grid's range, same count)", "n": n})
                sel_ = list(range(0, len(tg2), max(1, len(tg2) // 5)))[:6]
                add({"kind": "matrix", "freqs": enc_seq(ff), "targets": enc_seq(tg2[sel_]), "band": enc(band), "cols": [enc_seq(mat2[:, c]) for c in sel_]},
                    {"kind": "matrix", "n": n, "band": band, "targets": "geomspace over the grid's range (sampled columns)"})
        # bandwidth
        o2 = eqsig.AccSignal(x, dt)
        ratio = float([0.707, 0.5, 0.9, 0.2][i % 4])
        held = None
        if rng.integers(3) == 0:
            # the object holds a smoothed spectrum generated explicitly with another bandwidth: the limits refer to THAT spectrum
            with warnings.catch_warnings():
                warnings.simplefilter("ignore")
                o2.gen_smooth_fa_spectrum(band=float(rng.choice([100.0, 15.0, 70.0])))
            held = np.array(o2.smooth_fa_spectrum)
        with warnings.catch_warnings():
            warnings.simplefilter("ignore")
            fmin, fmax = im.calc_bandwidth_freqs(o2, ratio=ratio)
            fmin2, fmax2 = im.calc_bandwidth_f_min(o2, ratio=ratio), im.calc_bandwidth_f_max(o2, ratio=ratio)
        if held is not None:
            add({"kind": "rel", "clause": "Bandwidth", "x": enc_seq(held), "y": enc_seq(o2.smooth_fa_spectrum), "f": enc(1.0)},
                {"kind": "rel", "law": "the bandwidth functions leave the held smoothed spectrum as it is", "n": n})
        add({"kind": "band", "smooth": enc_seq(held if held is not None else o2.smooth_fa_spectrum), "sfreqs": enc_seq(o2.smooth_fa_frequencies), "ratio": enc(ratio),
             "fmin": enc(fmin if i % 2 else fmin2), "fmax": enc(fmax if i % 2 else fmax2)}, {"kind": "band", "n": n, "ratio": ratio, "fmin": float(fmin), "fmax": float(fmax)})
    # one LARGE job (long record x many targets, ~10 M window weights): the value at a target does not depend on how many
    # other targets are evaluated in the same call
    nbig, ntg = 2 ** 15, 640
    xb = rng.standard_normal(nbig)
    ob = eqsig.Signal(xb, 0.01)
    ffb, fab = np.array(ob.fa_freqs), np.array(ob.fa_spectrum)
    tgb = np.geomspace(0.05, 45.0, ntg)
    with warnings.catch_warnings():
        warnings.simplefilter("ignore")
        allb = fq.calc_smooth_fa_spectrum(ffb, fab, tgb, band=40)
        parts = np.concatenate([fq.calc_smooth_fa_spectrum(ffb, fab, tgb[k0:k0 + 160], band=40) for k0 in range(0, ntg, 160)])
    add({"kind": "rel", "clause": "MatrixEqualsDirect", "x": enc_seq(parts), "y": enc_seq(allb), "f": enc(1.0)},
        {"kind": "rel", "law": "large job: all targets at once = four quarters", "bins": len(ffb), "targets": ntg})
    del allb, parts
    write_ndjson(path, recs)
    return meta


def run(tier, seed):
    rep = Report("C07", tier, seed)
    wd = workdir("C07")
    maxlen = 6 if tier == "quick" else 9
    tab = os.path.join(wd, "table.txt")
    with warnings.catch_warnings():
        warnings.simplefilter("ignore")
        nrows = gen.build_table(tab, NL, maxlen, table_row)
    r = tlc.run("MC_Smooth", cfg=MC_CFG % maxlen, env={"TABLE_FILE": tab}, job="C07/mc", coverage=(tier == "thorough"))
    if r.invariant_violated:
        raise tlc.MachineryError("model invariant violated in MC_Smooth: %s" % r.invariant_violated)
    rep.add_tlc("MC_Smooth(MaxLen=%d)" % maxlen, r, "amplitudes over {0,1,3} on the grid i/4 Hz, 6 targets (on / between / outside), bands 5, 40, 100")
    rep.evaluations += nrows
    rep.exhaustive = True
    for code, clause in r.mismatches[:2000]:
        rep.fail(clause, "lattice", {"code": code, "amps": [LEVELS[d - 1] for d in gen.decode(code, NL)], "targets": TARGETS.tolist(), "bands": BANDS})
    rep.sample({"lockstep": "amplitudes [3,0,1,1] at 0.25..1.0 Hz, target 0.75 Hz (on grid), band 40"})
    tr = os.path.join(wd, "trace.ndjson")
    meta = build_traces(tr, tier, seed)
    r2 = tlc.run("Trace_Smooth", cfg="Trace_Smooth", env={"TRACE_FILE": tr}, job="C07/trace")
    rep.add_tlc("Trace_Smooth", r2, "one event per target frequency / weight column; relation and bandwidth events")
    for t in meta:
        if t not in r2.verdicts:
            raise tlc.MachineryError("no verdict for tid %d" % t)
        rep.traces += 1
        for c in r2.verdicts[t][0]:
            rep.fail(c, "trace:" + meta[t]["kind"], meta[t])
    for t in (1, 2, len(meta)):
        rep.sample(meta[t])
    rep.assumptions = ["values compared with the definition at 1e-9 relative (libm vs StrictMath log10/sin)", "bandwidth b in [5, 100]"]
    return rep.finish(checker_cmd="tlc MC_Smooth / Trace_Smooth (harness/drivers/c07.py)",
                      trusted_base=["TLC 1.8", "FP.class (StrictMath log10/sin)", "TableIO.class", "harness/common.py enc"])

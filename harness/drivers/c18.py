"""C18 -- two-component rotation and cluster alignment (Cluster model)."""
import itertools
import os
import warnings

import numpy as np

from harness import tlc, gen
from harness.common import enc, enc_seq, workdir, write_ndjson, Report

MASTER = [3, 1, 4, 1, 5, 9, 2, 6, 5, 3, 5, 8, 9, 7, 9, 3, 2, 3, 8, 4]
OTHER = [2, 7, 1, 8, 2, 8, 1, 8, 2, 8, 4, 5, 9, 0, 4, 5, 2, 3, 5, 3]
STEPS = 4
DT = 0.5
S_IDX, E_IDX = 0, 8          # same_start(start=0, end=3.5) at dt = 0.5: samples 0..7 (8 samples: exact means)
MC_CFG = """SPECIFICATION Spec
INVARIANT MasterUnchanged
INVARIANT LengthsUnchanged
INVARIANT LagRemoved
INVARIANT SameStartAligned
INVARIANT UniqueBestLag
INVARIANT Conforms
CHECK_DEADLOCK FALSE
"""


def delayed(base, lag):
    """copy of base that lags it by `lag` samples (edge-value padded); lag < 0 leads"""
    b = np.asarray(base, dtype=float)
    n = len(b)
    idx = np.clip(np.arange(n) - lag, 0, n - 1)
    return b[idx]


def configs(tier):
    """every k in 2..4 (quick: 2..3 plus a sample of 4), every master, every lag vector in (-steps, steps)^(k-1)
    of exact delayed copies; plus offset clusters (different shapes, offsets) for same_start"""
    out = []
    lags = list(range(1 - STEPS, STEPS))
    for k in (2, 3, 4):
        vecs = list(itertools.product(lags, repeat=k - 1))
        if k == 4 and tier == "quick":
            vecs = vecs[::9]
        for master in range(k):
            for vec in vecs:
                sigs, it = [], iter(vec)
                for i in range(k):
                    sigs.append(np.array(MASTER, dtype=float) if i == master else delayed(MASTER, next(it)))
                out.append((k, master, sigs, "lags=%s" % (vec,)))
    # offset clusters: every signal a different integer-valued shape plus an offset; lag 0 is the unique best lag
    for k in (2, 3, 4):
        for master in range(k):
            for offs in ((1.0, -2.0, 3.0), (0.5, 0.25, -4.0)):
                sigs = []
                for i in range(k):
                    base = np.array(MASTER, dtype=float)
                    if i != master:
                        base = base + offs[(i + master) % 3] + (0.125 * ((np.arange(20) * (i + 2)) % 3))
                    sigs.append(base)
                out.append((k, master, sigs, "offsets=%s" % (offs,)))
    return out


def drive(k, master, sigs, stype):
    import eqsig
    with warnings.catch_warnings():
        warnings.simplefilter("ignore")
        c = eqsig.Cluster([s.copy() for s in sigs], DT, master_index=master, stypes=stype)
        c.time_match(steps=STEPS)
        v1 = [c.values_by_index(i) for i in range(k)]
        arr1 = [isinstance(v, np.ndarray) and v.dtype.kind in "fiu" and len(v) == len(sigs[0]) for v in v1]
        v1 = [np.array(v, dtype=float) for v in v1]
        c.same_start(start=0, end=(E_IDX - 1) * DT)
        v2 = [c.values_by_index(i) for i in range(k)]
        arr2 = [isinstance(v, np.ndarray) and v.dtype.kind in "fiu" and len(v) == len(sigs[0]) for v in v2]
        v2 = [np.array(v, dtype=float) for v in v2]
    return v1, arr1, v2, arr2


def build_tables(cfgp, impp, tier):
    cfgs = configs(tier)
    with open(cfgp, "w") as fc, open(impp, "w") as fi:
        for cid, (k, master, sigs, _) in enumerate(cfgs, 1):
            n = len(sigs[0])
            row = [cid, k, n, master + 1, STEPS, S_IDX, E_IDX]
            for s in sigs:
                for x in s:
                    row += enc(x)
            fc.write(" ".join(map(str, row)) + "\n")
            v1, arr1, v2, arr2 = drive(k, master, sigs, "acc" if cid % 2 else "custom")
            irow = [cid] + [1 if (a and b) else 0 for a, b in zip(arr1, arr2)]
            for v in v1 + v2:
                if len(v) != n:
                    v = np.resize(v, n)
                for x in v:
                    irow += enc(x)
            fi.write(" ".join(map(str, irow)) + "\n")
    return cfgs


# ------------------------------------------------------------------------------------------------
def build_traces(path, tier, seed):
    import eqsig
    from eqsig import im, multiple
    rng = np.random.default_rng(seed + 18)
    recs, meta = [], {}
    tid = 0
    ncomb = 30 if tier == "quick" else 160
    nscan = 10 if tier == "quick" else 60
    nclu = 16 if tier == "quick" else 120
    for i in range(ncomb):
        n = int(rng.integers(2, 200))
        ns, _ = gen.record(rng, n)
        we, _ = gen.record(rng, n)
        theta = [0.0, 90.0, 180.0, 45.0, 270.0, rng.uniform(-360, 720), rng.uniform(0, 180), -90.0, -270.0, -450.0, -180.0, 360.0, 450.0, -45.0][int(rng.integers(14))]
        theta_arg = [float(theta), np.float64(theta), int(theta) if float(theta).is_integer() else float(theta)][int(rng.integers(3))]
        if float(theta).is_integer() and rng.integers(3) == 0:
            # whole-degree angles in the narrow scalar types a table of azimuths may be held in
            cands = [t_ for t_ in (np.int8, np.uint8, np.int16, np.uint16, np.int32, np.float32) if np.can_cast(np.min_scalar_type(int(theta)), t_)]
            if cands:
                theta_arg = cands[int(rng.integers(len(cands)))](theta)
        theta = float(theta)
        if i % 3 == 1:       # integer-count records / lists of ints
            ns = np.round(ns / (np.max(np.abs(ns)) + 1e-300) * 50).astype(np.int64)
            we = np.round(we / (np.max(np.abs(we)) + 1e-300) * 50).astype(np.int64)
            if i % 2:
                ns, we = ns.tolist(), we.tolist()
        a, b = eqsig.AccSignal(ns, 0.01), eqsig.AccSignal(we, 0.01)
        ns, we = np.asarray(ns, dtype=float), np.asarray(we, dtype=float)
        out = multiple.combine_at_angle(a, b, theta_arg).values
        # theta + 180 is formed in floating point (uint8(180) + 180 would wrap around in the CALLER's arithmetic)
        t180 = float(theta) + 180.0
        out180 = multiple.combine_at_angle(a, b, t180 if rng.integers(2) else np.float64(t180)).values
        tid += 1
        recs.append({"tid": tid, "kind": "combine", "dt": enc(0.01), "ns": enc_seq(ns), "we": enc_seq(we), "theta": enc(theta),
                     "out": enc_seq(out), "out180": enc_seq(out180)})
        meta[tid] = {"kind": "combine", "n": n, "theta": theta}
    measures = ["pga", "pgv", "arias", "cav_series", "velocity"]
    for i in range(nscan):
        n = int(rng.integers(8, 160))
        dt = [0.01, 0.02, 0.005][i % 3]
        ns, _ = gen.record(rng, n, amp=1.0)
        we, _ = gen.record(rng, n, amp=1.0)
        off = float([0.0, 30.0, -45.0, 200.0, rng.uniform(-180, 360)][i % 5])
        off_arg = off
        if float(off).is_integer() and rng.integers(2):
            cands = [t_ for t_ in (np.int8, np.uint8, np.int16, np.int64, np.float32) if np.can_cast(np.min_scalar_type(int(off)), t_)]
            if cands:
                off_arg = cands[int(rng.integers(len(cands)))](off)
        points = int([2, 3, 7, 10, 100][i % 5]) if tier == "thorough" else int([2, 3, 7, 10][i % 4])
        m = measures[i % 5]
        if i % 3 == 2:
            ns = np.round(ns * 40).astype(np.int64)
            we = np.round(we * 40).astype(np.int64)
        a, b = eqsig.AccSignal(ns, dt), eqsig.AccSignal(we, dt)
        hist_ = bool(rng.integers(3))
        if hist_:
            # history: the same two objects were scanned before, then one or both records were changed through the public API
            # (same length): the scan is the measure of the combination of what the components hold NOW
            with warnings.catch_warnings():
                warnings.simplefilter("ignore")
                multiple.compute_rotated(a, b, angle_off_ns=off, parameter="pga", points=points)
                if m not in ("pga", "velocity"):
                    multiple.compute_rotated(a, b, angle_off_ns=off, func=lambda s_: s_.pgv, points=points)
                which = int(rng.integers(3))
                if which != 1:
                    a.add_constant(float(rng.uniform(0.2, 1.0)))
                if which != 0:
                    b.reset_values(np.asarray(b.values, dtype=float)[::-1] * float(rng.uniform(0.5, 2.0)))
            ns, we = np.array(a.values, dtype=float), np.array(b.values, dtype=float)
        ns, we = np.asarray(ns, dtype=float), np.asarray(we, dtype=float)
        if m == "pga":
            ang, vals = multiple.compute_rotated(a, b, angle_off_ns=off_arg, parameter="pga", points=gen.intlike(rng, points))
        elif m == "pgv":
            ang, vals = multiple.compute_rotated(a, b, angle_off_ns=off_arg, func=lambda s: s.pgv, points=gen.intlike(rng, points))
        elif m == "arias":
            ang, vals = multiple.compute_rotated(a, b, angle_off_ns=off_arg, parameter="arias_intensity", points=gen.intlike(rng, points))
        elif m == "velocity":
            ang, vals = multiple.compute_rotated(a, b, off_arg, "velocity", None, points)        # positional; array-valued attribute
            vals = np.asarray(vals)
            vals = [enc_seq(r) for r in vals] if vals.ndim == 2 else enc_seq(vals)
        else:
            ang, vals = multiple.compute_rotated(a, b, angle_off_ns=off_arg, func=im.calc_cav, points=gen.intlike(rng, points))
        if m != "velocity":
            vals = enc_seq(vals)
        tid += 1
        recs.append({"tid": tid, "kind": "scan", "dt": enc(dt), "ns": enc_seq(ns), "we": enc_seq(we), "off": enc(off), "points": points,
                     "measure": m, "angles": enc_seq(ang), "vals": vals})
        meta[tid] = {"kind": "scan", "n": n, "off": off, "points": points, "measure": m, "scanned_before_and_changed": hist_}
    # the scan returns exactly the measure of combine_at_angle(ns, we, angle) -- also for spectral measures and when the
    # components were built with settings of their own (the combination is a new record with the library's defaults)
    for j in range(3 if tier == "quick" else 12):
        n = int(rng.integers(30, 120))
        dt = 0.01
        ns_, _ = gen.record(rng, n, amp=1.0)
        we_, _ = gen.record(rng, n, amp=1.0)
        a = eqsig.AccSignal(ns_, dt, response_times=np.array([0.3, 1.0, 2.0]), smooth_fa_freqs=np.array([1.0, 2.0, 5.0]))
        b = eqsig.AccSignal(we_, dt) if j % 2 else eqsig.AccSignal(we_, dt, response_times=np.array([0.5, 0.8]))
        param = ["s_a", "s_d", "smooth_fa_spectrum"][j % 3]
        off = float(rng.choice([0.0, 20.0, -60.0]))
        with warnings.catch_warnings():
            warnings.simplefilter("ignore")
            ang, vals = multiple.compute_rotated(a, b, angle_off_ns=off, parameter=param, points=3)
            want = [np.asarray(getattr(multiple.combine_at_angle(a, b, float(t_)), param), dtype=float) for t_ in ang]
        vals = np.asarray(vals, dtype=float)
        ok_shape = vals.ndim == 2 and vals.shape == (3, len(want[0]))
        tid += 1
        recs.append({"tid": tid, "kind": "rel", "clause": "ScanValues", "tol": enc(1e-9), "scale": enc(float(np.max(np.abs(np.concatenate(want)))) + 1e-300),
                     "x": enc_seq(np.concatenate(want)), "y": enc_seq(np.ravel(vals) if ok_shape else [])})
        meta[tid] = {"kind": "rel", "law": "scan = measure of combine_at_angle", "parameter": param, "n": n, "off": off,
                     "components": "built with response_times / smoothing frequencies of their own"}
    for i in range(nclu):
        k = int(rng.integers(2, 5))
        n = int(rng.integers(40, 120))
        steps = int(rng.integers(2, 9))
        master = int(rng.integers(0, k))
        base = np.cumsum(rng.standard_normal(n + 2 * steps))
        longrec = i >= nclu - (2 if tier == "quick" else 4)
        if longrec:
            # a long record with a long quiet (exactly zero) pre-event part: only the late part tells the lags apart
            k, n = 2, int(rng.integers(4300, 4600))
            master = int(rng.integers(0, 2))
            base = np.concatenate([np.zeros(n + 2 * steps - 170), np.cumsum(rng.standard_normal(170))])
        if longrec and (i == nclu - 1 or (i < nclu - 2 and rng.integers(3) == 0)):        # (the one before the last always has the quiet lead)
            # ... or a record of more than 8192 samples dominated by a drift (a slow trend plus a weak ripple): only the direct
            # comparison of the overlapping samples finds the lag
            n = int(rng.integers(8300, 9500))
            idx_ = np.arange(n + 2 * steps, dtype=float)
            base = 0.002 * idx_ + 1e-7 * idx_ ** 2 + 0.3 * np.sin(idx_ / 37.0) + 0.05 * rng.standard_normal(n + 2 * steps)
        trend = bool(rng.integers(4) == 0) and not longrec
        if trend:
            # exactly representable linear trend (counts, halves), optionally with a ripple whose period is shorter than the
            # search window: x[n+d] - x[n] is then EXACTLY constant for some d, only the true lag makes the overlap coincide
            idx = np.arange(n + 2 * steps, dtype=float)
            base = idx * float(rng.choice([1.0, 0.5, -2.0]))
            if rng.integers(2) and steps > 2:
                p_ = int(rng.integers(2, steps))
                base = base + 0.25 * np.array([3.0, -1.0, 2.0, 0.0, -3.0, 1.0, 5.0, -2.0])[(np.arange(n + 2 * steps) % p_)]
        sigs = []
        lags = []
        for j in range(k):
            if j == master:
                sigs.append(base[steps:steps + n].copy())
                lags.append(0)
            else:
                lg = int(rng.integers(1 - steps, steps))
                lags.append(lg)
                s = base[steps - lg: steps - lg + n].copy()          # the true record seen lg samples later
                if i % 2 and not trend:
                    s = s + 0.01 * rng.standard_normal(n)             # not an exact copy
                s = s + (rng.uniform(-0.05, 0.05) if (i % 3 == 0 and not trend) else 0.0)
                sigs.append(s)
        if trend is False and not longrec and rng.integers(5) == 0:
            # counts in a narrow integer dtype (squared residuals leave the dtype): exact delayed copies
            dt_, top = [(np.int8, 120), (np.int16, 30000), (np.int32, 2.0e9)][int(rng.integers(3))]
            m_ = max(float(np.max(np.abs(base))), 1e-300)
            sigs = [np.round(base[steps - lg: steps - lg + n] / m_ * top).astype(dt_) for lg in lags]
        elif i % 4 == 1:       # tiny records (1e-9) with offsets of their own size
            sc_ = float(10.0 ** rng.uniform(-10, -8))
            sigs = [s * sc_ + (0.0 if j == master else sc_ * rng.uniform(0.5, 2.0)) for j, s in enumerate(sigs)]
        elif i % 4 == 3:     # records riding on a large mean level with small offsets
            # (level / sample-to-sample change from 1e5 to 1e9: the residuals are formed from differences, not from the levels)
            lev_, amp_ = [(250.0, 0.002), (2.5e6, 0.002), (1.0e8, 1.0), (250.0, 0.002)][int(rng.integers(4))]
            sigs = [lev_ + amp_ * s + (0.0 if j == master else 1e-3 * rng.uniform(0.5, 2.0)) for j, s in enumerate(sigs)]
        dt = 0.01
        e_idx = int(rng.integers(4, n // 2))
        s_idx = 0
        # section window: 0 explicit start / end, 1 the default window (first second), 2 start only, 3 from a whole second to the end (end=-1)
        wm = int(rng.integers(4))
        if wm:
            dt = float(rng.choice([d_ for d_ in (0.1, 0.05, 0.04, 0.025) if int(1 / d_) + 4 < n]))     # the first second lies inside the record
            e_idx = int(1 / dt) + 1
            s_idx = int(rng.integers(1, e_idx - 2)) if wm == 2 else 0
        if wm == 3 and int(1 / dt) + 3 < n:
            s_idx, e_idx = int(1 / dt), n - 1
        elif wm == 3:
            wm = 1               # the record ends before the window would start: use the default window instead
        with warnings.catch_warnings():
            warnings.simplefilter("ignore")
            if k >= 2 and rng.integers(3) == 0:
                # the master is chosen AFTER construction (master_index is a public attribute): built with another one first
                c = eqsig.Cluster([s.copy() for s in sigs], dt, master_index=int((master + 1 + rng.integers(k - 1)) % k), stypes="acc" if rng.integers(2) else "custom")
                c.master_index = master
            else:
                c = eqsig.Cluster([s.copy() for s in sigs], dt, master_index=gen.intlike(rng, master), stypes="acc" if rng.integers(2) else "custom")

            def _same_start():
                if wm == 0:
                    c.same_start(start=0, end=(e_idx - 1) * dt + 0.004)
                elif wm == 1:
                    c.same_start()
                elif wm == 2:
                    c.same_start(start=(s_idx + 0.4) * dt)
                else:
                    c.same_start(start=1, end=-1)
            if rng.integers(3) == 0:
                # history: the same section was already aligned once (and its averages looked up) before the lags are removed;
                # what the cluster holds after that first alignment is the starting point of the recorded behaviour
                _same_start()
                sigs = [np.array(c.values_by_index(j), dtype=float) for j in range(k)]
            c.time_match(steps=gen.intlike(rng, steps))
            v1raw = [c.values_by_index(j) for j in range(k)]
            arr1 = [bool(isinstance(v, np.ndarray) and v.dtype.kind in "fiu") for v in v1raw]
            v1 = [np.array(v, dtype=float) for v in v1raw]
            end_t = (e_idx - 1) * dt + 0.004                              # int(end/dt) + 1 = e_idx
            start_t = (s_idx + 0.4) * dt
            if wm == 0:
                c.same_start(start=0, end=end_t)
            elif wm == 1:
                c.same_start()
            elif wm == 2:
                c.same_start(start=start_t)
            else:
                c.same_start(start=1, end=-1)
            v2raw = [c.values_by_index(j) for j in range(k)]
            arr2 = [bool(isinstance(v, np.ndarray) and v.dtype.kind in "fiu") for v in v2raw]
            v2 = [np.array(v, dtype=float) for v in v2raw]
        if (wm == 0 and int(end_t / dt) + 1 != e_idx) or (wm == 2 and int(start_t / dt) != s_idx):
            continue
        tid += 1
        recs.append({"tid": tid, "kind": "cluster", "k": k, "n": n, "master": master + 1, "steps": steps, "s": s_idx, "e": e_idx,
                     "v0": [enc_seq(s) for s in sigs], "v1": [enc_seq(s) for s in v1], "v2": [enc_seq(s) for s in v2],
                     "arr1": arr1, "arr2": arr2})
        meta[tid] = {"kind": "cluster", "k": k, "n": n, "master": master, "steps": steps, "true_lags": lags, "exact": bool(trend or not (i % 2)), "linear_trend": bool(trend),
                     "window": ["start=0, end=%.3f" % end_t, "default (first second), dt=%g" % dt, "start=%.3f only, dt=%g" % (start_t, dt), "start=1, end=-1, dt=%g" % dt][wm]}
    # records in extremely small units (1e-200): the squared residuals of the lag search underflow, every lag ties and nothing is
    # removed -- listed as an open finding (known_findings.json, C18-time-match-tiny-units), exercised on every run
    if True:
        k, n, steps, master = 2, 40, 4, 0
        base = np.cumsum(np.random.default_rng(1818).standard_normal(n + 2 * steps)) * 1e-200
        sigs = [base[steps:steps + n].copy(), base[steps - 2: steps - 2 + n].copy()]
        with warnings.catch_warnings():
            warnings.simplefilter("ignore")
            c = eqsig.Cluster([s_.copy() for s_ in sigs], 0.01, master_index=0, stypes="custom")
            c.time_match(steps=steps)
            v1 = [np.array(c.values_by_index(j), dtype=float) for j in range(k)]
            c.same_start(start=0, end=0.074)
            v2 = [np.array(c.values_by_index(j), dtype=float) for j in range(k)]
        # (the slave is an exact copy of the master seen 2 samples later: after lag matching the overlapping samples coincide)
        tid += 1
        recs.append({"tid": tid, "kind": "rel", "clause": "LagRemoved", "tol": enc(0.0), "scale": enc(1.0), "x": enc_seq(v1[0][: n - 2]), "y": enc_seq(v1[1][: n - 2])})
        meta[tid] = {"kind": "rel", "law": "overlapping samples coincide after time_match", "k": k, "n": n, "true_lags": [0, 2], "finding": "tiny-units", "scale": 1e-200}
    write_ndjson(path, recs)
    return meta


def run(tier, seed):
    rep = Report("C18", tier, seed)
    wd = workdir("C18")
    cfgp, impp = os.path.join(wd, "config.txt"), os.path.join(wd, "impl.txt")
    cfgs = build_tables(cfgp, impp, tier)
    r = tlc.run("MC_Cluster", cfg=MC_CFG, env={"CONFIG_FILE": cfgp, "IMPL_FILE": impp}, job="C18/mc", coverage=(tier == "thorough"))
    if r.invariant_violated:
        raise tlc.MachineryError("model invariant violated in MC_Cluster: %s" % r.invariant_violated)
    rep.add_tlc("MC_Cluster", r, "k in 2..4, every master, every lag vector in (-4,4)^(k-1) + offset clusters; Init -> TimeMatch -> SameStart, implementation in lock-step")
    rep.evaluations += len(cfgs)
    rep.exhaustive = (tier == "thorough")
    for code, clause in r.mismatches[:2000]:
        k, master, sigs, what = cfgs[code - 1]
        rep.fail(clause, "lattice", {"config": code, "k": k, "master_index": master, "what": what})
    rep.sample({"config": 1, "k": cfgs[0][0], "master_index": cfgs[0][1], "what": cfgs[0][3], "signals": [s.tolist() for s in cfgs[0][2]]})
    tr = os.path.join(wd, "trace.ndjson")
    meta = build_traces(tr, tier, seed)
    r2 = tlc.run("Trace_Cluster", cfg="Trace_Cluster", env={"TRACE_FILE": tr}, job="C18/trace")
    rep.add_tlc("Trace_Cluster", r2, "combine / scan (one event per angle) / cluster (time_match, same_start) records")
    for t in meta:
        if t not in r2.verdicts:
            raise tlc.MachineryError("no verdict for tid %d" % t)
        rep.traces += 1
        if meta[t].get("finding") == "tiny-units":
            if "LagRemoved" in r2.verdicts[t][0]:
                rep.fail("LagRemovedAtTinyUnits", "tiny-units", meta[t])
            continue
        for c in r2.verdicts[t][0]:
            rep.fail(c, "trace:" + meta[t]["kind"], meta[t])
    for t in (1, len(meta) // 2, len(meta)):
        rep.sample(meta[t])
    # the cluster OBJECT as a state machine (spec/ClusterObj.tla): every interleaving of the public ways of changing a cluster,
    # each transition executed on a real object; random behaviours replayed on one object; sessions validated by Trace_ClusterObj
    from harness import clusterobj
    inits, ccfg = clusterobj.graph(rep, tier, seed, "C18/obj")
    clusterobj.walks(rep, tier, seed, "C18/obj", ccfg, len(inits))
    clusterobj.run_sessions(rep, tier, seed, "C18/obj", "C18")
    rep.assumptions = ["cluster members have equal length; configurations have a unique best lag (asserted by the spec as UniqueBestLag / by a 1e-9 margin in traces)",
                       "lattice part: integer-valued signals, dt = 0.5, averaging window of 8 samples: all arithmetic exact",
                       "rotation: tolerance 1e-12 relative to the component peaks (libm vs StrictMath cos/sin)"]
    return rep.finish(checker_cmd="tlc MC_Cluster / Trace_Cluster / MC_ClusterObj / Trace_ClusterObj (harness/drivers/c18.py, harness/clusterobj.py)",
                      trusted_base=["TLC 1.8", "FP.class", "TableIO.class", "harness/common.py enc"])

"""C09 -- cumulative intensity measures: definition, monotonicity and scaling laws."""
import os
import warnings
import numpy as np

from harness import tlc, gen
from harness.common import enc, enc_seq, workdir, write_ndjson, Report

LEVELS = [-1.0, -0.25, 0.0, 0.125, 0.25, 1.0]
NL = 6
DT = 0.5
MEAS = ["arias", "cav", "isv", "ia", "iv", "uke"]
EXPO = {"arias": 2, "cav": 1, "isv": 2, "ia": 1, "iv": 1, "uke": 2}
CAVDP_DTS = [1.0, 0.5, 0.25, 0.2, 0.1, 0.05, 0.04, 0.025, 0.02, 0.01, 0.005, 0.004, 0.002,
             1.0 / 93, 1.0 / 99, 1.0 / 210, 1.0 / 490, 1.0 / 105]      # rates whose 1/dt falls just below the whole number in binary64
MC_CFG = """SPECIFICATION Spec
CONSTANT MaxLen = %d
INVARIANT Monotone
INVARIANT SignInvariant
INVARIANT Scale
INVARIANT ZeroPadInvariant
INVARIANT Twin
INVARIANT CavDpLaws
INVARIANT Conforms
CHECK_DEADLOCK FALSE
"""


ORDER = {"k": 0}


NOISE = np.random.default_rng(909)


def series(a, dt):
    """all six measures on ONE object, in an order that varies from call to call, each evaluated twice (the second
    value is kept): measures must not disturb each other or the object; every third object has a history (it held
    another record whose measures were evaluated)"""
    import itertools
    import eqsig
    from eqsig import im
    fns = {"arias": im.calc_arias_intensity, "cav": im.calc_cav, "isv": im.calc_isv, "ia": im.calc_integral_of_abs_acceleration,
           "iv": im.calc_integral_of_abs_velocity, "uke": im.calc_unit_kinetic_energy}
    ORDER["k"] += 1
    k = ORDER["k"]
    if k % 3 == 0 and len(a) >= 2:
        af = np.asarray(a, dtype=float)
        s = eqsig.AccSignal(af[::-1] * 1.3 + 0.2, dt)
        for f in fns.values():
            f(s)
        with warnings.catch_warnings():
            warnings.simplefilter("ignore")
            s.generate_cumulative_stats()          # the deprecated object-level entry point, on the EARLIER record
        s.reset_values(a)
    else:
        s = eqsig.AccSignal(a, dt)
    if k % 2:
        # other public functions applied to the same object just before (durations on other measures, spectra, detectors ...)
        gen.asig_noise(NOISE, s)
    order = list(itertools.permutations(MEAS))[(k * 37) % 720]
    out = {}
    for m in order:
        out[m] = fns[m](s)
    for m in order[::-1]:
        out[m] = np.array(fns[m](s))
    if k % 2:
        out["iv"] = np.array(im.calc_cumulative_abs_displacement(s))
    if k % 3 != 1:
        # the deprecated object-level entry point: the series it leaves on the object are the ones validated
        with warnings.catch_warnings():
            warnings.simplefilter("ignore")
            s.generate_cumulative_stats()
        out["arias"], out["cav"] = np.array(s.arias_intensity_series), np.array(s.cav_series)
    return out


_CAVDP_CALLS = [0]


def cavdp(a, dt):
    import eqsig
    from eqsig import im
    _CAVDP_CALLS[0] += 1
    if _CAVDP_CALLS[0] % 2 and len(a) > 4:
        # a USED object: it held a record of another length (time axis read, standardised CAV asked for) before it was given
        # this record through the public API
        other = np.concatenate([np.asarray(a, dtype=float)[::-1] * 0.5, np.zeros(int(2.0 / dt) + 3)])
        s = eqsig.AccSignal(other, dt)
        _ = s.time[-1]
        with warnings.catch_warnings():
            warnings.simplefilter("ignore")
            im.calc_cav_dp(s)
            _ = s.velocity
        s.reset_values(np.array(a))
    else:
        s = eqsig.AccSignal(a, dt)
    # samples per second and whole seconds covered as the PROPERTY has them (an integer number of samples per second; windows
    # of one second), not as any implementation happens to round them
    pps = int(round(1.0 / dt))
    return im.calc_cav_dp(s), pps, (len(a) - 1) // pps


def table_row(code, digits):
    a = np.array(LEVELS)[np.array(digits) - 1]
    row = [code]
    if len(a) >= 2:
        ser = series(a, DT)
        for m in MEAS:
            row += enc(ser[m][-1])
        if (len(a) - 1) // 2 >= 2:
            dp, _, _ = cavdp(a, DT)
            row += [len(dp)]
            for x in dp:
                row += enc(x)
        else:
            row += [0]
    return row


def build_traces(path, tier, seed):
    rng = np.random.default_rng(seed + 9)
    recs, meta = [], {}
    nser = 30 if tier == "quick" else 200
    ndp = 24 if tier == "quick" else 150
    nmax = 1500 if tier == "quick" else 5000
    tid = 0

    def add(rec, m):
        nonlocal tid
        tid += 1
        rec["tid"] = tid
        recs.append(rec)
        meta[tid] = m

    nser0 = nser
    nser += 14 if tier == "quick" else 80
    nser1 = nser
    nser += 8 if tier == "quick" else 40
    for i in range(nser):
        n = gen.length(rng, 2, nmax)
        a, shape = gen.record(rng, n)
        if i >= nser1:
            # counts in a narrow integer dtype whose running sums / neighbour sums stay inside it only if accumulated in
            # floating point: int8 up to 60, int16 up to 15000, int32 up to 1e9, uint8 up to 120
            n = int(rng.integers(20, 400))
            a, shape = gen.record(rng, n, shape="noise" if rng.integers(2) else None)
            dt_, top = [(np.int8, 60), (np.int16, 15000), (np.int32, 1.0e9), (np.uint8, 120)][(i - nser1) % 4]
            a = np.abs(a) if dt_ is np.uint8 else np.asarray(a, dtype=float)
            a = np.round(a / (np.max(np.abs(a)) + 1e-300) * top).astype(dt_)
            shape += " (%s counts)" % np.dtype(dt_).name
            if dt_ is not np.uint8 and (i - nser1) % 8 < 4:
                a[int(rng.integers(n))] = np.iinfo(dt_).min      # the type's most negative count: |.| is not representable in the type
                shape += " with the most negative count"
        elif i >= nser0:
            # strong head, then a coda whose squares are about one ulp of the running sum (slowly varying shapes): the sums
            # hardly move any more and exact monotonicity is at stake
            m = int(rng.integers(100, 400))
            head = rng.standard_normal(int(rng.integers(3, 8))) + float(rng.choice([0.3, -0.8, 1.2]))
            kk = np.arange(1, m + 1)
            coda = [np.sin(0.3 * kk) * (1 + 0.37 * np.cos(1.1 * kk)), kk / float(m), np.abs(np.sin(0.05 * kk))][int(rng.integers(3))]
            a = np.concatenate([head, np.sqrt(np.sum(head ** 2) * 2.2e-16) * float(rng.choice([0.2, 0.5, 1.0, 2.0, 5.0])) * coda])
            n, shape = len(a), "strong head, coda at one ulp of the running sum"
        elif rng.integers(5) == 0 and n >= 8:
            # strong motion followed by a weak but non-zero coda (dynamic range 1e6 .. 1e12), non-zero first sample: the
            # running sums hardly move any more, exact monotonicity is at stake
            k = int(rng.integers(2, max(3, n // 2)))
            a = rng.standard_normal(n)
            a[k:] *= 10.0 ** rng.uniform(-12, -6) * np.exp(-np.arange(n - k) / max(1.0, (n - k) / 6.0))
            a[0] = float(rng.choice([0.7, -1.3, 2.0]))
            shape = "strong start, weak coda"
        if i % 6 == 0 and "coda" not in shape and "counts" not in shape:
            a = np.round(a * 3).astype(np.int64)          # integer dtype record
        elif i % 6 == 1 and "counts" not in shape:
            a = [float(x) for x in a]                     # list input
        dt = gen.dt(rng)
        ser = series(a, dt)
        af = np.asarray(a, dtype=float)
        rec = {"kind": "series", "dt": enc(dt), "a": enc_seq(af)}
        for m in MEAS:
            rec[m] = enc_seq(ser[m])
        add(rec, {"kind": "series", "n": n, "shape": shape, "dt": dt, "container": type(a).__name__ + ":" + str(getattr(a, "dtype", "float")),
                  "finals": {m: float(ser[m][-1]) for m in MEAS}})
        fin = [float(ser[m][-1]) for m in MEAS]
        # sign reversal
        sn = series(-af, dt)
        add({"kind": "rel", "law": "same", "clause": "SignInvariant", "x": enc_seq(fin), "y": enc_seq([sn[m][-1] for m in MEAS]), "f": []},
            {"kind": "rel", "law": "SignInvariant", "n": n})
        # scaling
        alpha = float([-3.0, 0.1, 7.0][i % 3])
        sc = series(af * alpha, dt)
        add({"kind": "rel", "law": "ratio", "clause": "Scale", "x": enc_seq(fin), "y": enc_seq([sc[m][-1] for m in MEAS]),
             "f": enc_seq([abs(alpha) ** EXPO[m] for m in MEAS])}, {"kind": "rel", "law": "Scale", "alpha": alpha, "n": n})
        # zero padding of a record that ends at zero: acceleration based measures unchanged
        az = af.copy()
        az[-1] = 0.0
        k = int(rng.integers(1, 50))
        s0, s1 = series(az, dt), series(np.concatenate([az, np.zeros(k)]), dt)
        acc = ["arias", "cav", "ia"]
        add({"kind": "rel", "law": "ratio", "clause": "ZeroPadInvariant", "x": enc_seq([s0[m][-1] for m in acc]),
             "y": enc_seq([s1[m][-1] for m in acc]), "f": enc_seq([1.0, 1.0, 1.0])}, {"kind": "rel", "law": "ZeroPadInvariant", "k": k, "n": n})
    for i in range(ndp):
        dt = CAVDP_DTS[i % len(CAVDP_DTS)]
        pps = int(round(1 / dt))
        secs = float(rng.uniform(2.0, 7.0))
        n = int(secs / dt) + 2 + int(rng.integers(0, pps + 1))
        n = min(n, 4000)
        if (n - 1) * dt < 2.0:
            n = int(2.0 / dt) + 2
        if i % 3 == 1:          # the number of samples is an exact multiple of the samples per second (a last, incomplete second)
            n = min(4000, pps * int(max(3, round(secs))))
        if dt == 0.01 and (i // len(CAVDP_DTS)) < 4:
            # lengths for which fl(npts * dt) / dt exceeds npts (a time axis rebuilt as arange(0, npts * dt, dt) has one sample too many)
            n = [201, 222, 247, 203][(i // len(CAVDP_DTS)) % 4]
        kind = i % 4
        if kind == 0:       # everything below the gate
            a = rng.uniform(-0.2, 0.2, size=n)
        elif kind == 1:     # isolated spikes, some exactly on window boundaries
            a = rng.uniform(-0.1, 0.1, size=n)
            for _ in range(int(rng.integers(1, 4))):
                a[int(rng.integers(0, (n - 1) // pps + 1)) * pps if rng.random() < 0.6 else int(rng.integers(n))] = rng.choice([-1, 1]) * rng.uniform(0.3, 2.0)
        elif kind == 2:
            a, _ = gen.record(rng, n, amp=float(rng.uniform(0.05, 3.0)))
        else:               # values exactly at the gate 0.025 g and just around it: per one-second window either everything below the
            #                     gate, or a peak EXACTLY at the gate (inside the window, nothing above it), or samples above it
            a = np.zeros(n)
            gate = 0.025 * 9.81
            for w_ in range(0, max(1, (n - 1) // pps)):
                lo_, hi_ = w_ * pps + 1, min((w_ + 1) * pps, n - 1)          # interior samples of the window (its end points stay 0)
                if hi_ <= lo_:
                    continue
                m_ = int(rng.integers(3))
                seg = rng.choice([0.0, 0.1, -0.1, 0.05], size=hi_ - lo_)
                if m_ == 1:
                    seg[int(rng.integers(len(seg)))] = gate * float(rng.choice([1.0, -1.0]))
                elif m_ == 2:
                    seg[int(rng.integers(len(seg)))] = float(rng.choice([0.3, -0.26, gate * 1.0000001]))
                a[lo_:hi_] = seg
        if i % 3 == 1:          # ... which is the only part of the record that reaches the gate
            a = np.clip(a, -0.1, 0.1)
            a[-max(2, pps // 2):] = rng.choice([-1, 1]) * rng.uniform(0.5, 2.0)
        dp, pps2, W = cavdp(a, dt)
        from eqsig import im
        import eqsig
        cav_final = float(im.calc_cav(eqsig.AccSignal(a, dt))[-1])
        add({"kind": "cavdp", "dt": enc(dt), "pps": pps2, "W": W, "a": enc_seq(a), "dp": enc_seq(dp), "cav_final": enc(cav_final)},
            {"kind": "cavdp", "n": n, "dt": dt, "pps": pps2, "W": W, "gen": kind, "final": float(dp[-1])})
        # sign reversal / scaling do not apply to the gate; bounds are checked by the spec
    # standardised CAV of two records of counts whose raw bytes coincide (signed / unsigned of the same width), one after the other
    for j in range(4 if tier == "quick" else 20):
        dt = [0.01, 0.02, 0.05, 0.1][j % 4]
        pps = int(round(1 / dt))
        n = pps * int(rng.integers(2, 5)) + 1 + int(rng.integers(0, pps))
        a_, b_ = gen.byte_twins(np.random.default_rng(seed + 900 + j * 4 + int(rng.integers(3))), n)
        if len(b_) != len(a_):
            b_ = a_.view(np.uint32).copy() if a_.dtype == np.int32 else a_[::-1].copy()
        for rec_ in (a_, b_):
            xf = np.asarray(rec_, dtype=float)
            dp, pps2, W = cavdp(rec_, dt)
            cav_final = float(im.calc_cav(eqsig.AccSignal(xf, dt))[-1])
            add({"kind": "cavdp", "dt": enc(dt), "pps": pps2, "W": W, "a": enc_seq(xf), "dp": enc_seq(dp), "cav_final": enc(cav_final)},
                {"kind": "cavdp", "n": n, "dt": dt, "pps": pps2, "W": W, "gen": "byte twins (%s after %s)" % (rec_.dtype, a_.dtype), "final": float(dp[-1])})
    write_ndjson(path, recs)
    return meta


def run(tier, seed):
    rep = Report("C09", tier, seed)
    wd = workdir("C09")
    maxlen = 6 if tier == "quick" else 7
    tab = os.path.join(wd, "table.txt")
    with warnings.catch_warnings():
        warnings.simplefilter("ignore")
        nrows = gen.build_table(tab, NL, maxlen, table_row)
    r = tlc.run("MC_Intensity", cfg=MC_CFG % maxlen, env={"TABLE_FILE": tab}, job="C09/mc", coverage=(tier == "thorough"))
    if r.invariant_violated:
        raise tlc.MachineryError("model invariant violated in MC_Intensity: %s" % r.invariant_violated)
    rep.add_tlc("MC_Intensity(MaxLen=%d)" % maxlen, r, "every record over 6 levels straddling the 0.025 g gate, dt = 1/2; seven measures in lock-step")
    rep.evaluations += nrows
    rep.exhaustive = True
    for code, clause in r.mismatches[:2000]:
        rep.fail(clause, "lattice", {"code": code, "a": [LEVELS[d - 1] for d in gen.decode(code, NL)], "dt": DT})
    rep.sample({"lockstep": "record [0.25, 0, 0.125, 0, 1] dt=0.5 (2 s): windows {0..2},{2..4}; first qualifies by 0.25 >= 0.24525, second by 1"})
    tr = os.path.join(wd, "trace.ndjson")
    with warnings.catch_warnings():
        warnings.simplefilter("ignore")
        meta = build_traces(tr, tier, seed)
    r2 = tlc.run("Trace_Intensity", cfg="Trace_Intensity", env={"TRACE_FILE": tr}, job="C09/trace")
    rep.add_tlc("Trace_Intensity", r2, "series records: one sample per step; cavdp and relation records: one event")
    for t in meta:
        if t not in r2.verdicts:
            raise tlc.MachineryError("no verdict for tid %d" % t)
        rep.traces += 1
        for c in r2.verdicts[t][0]:
            rep.fail(c, "trace:" + meta[t]["kind"], meta[t])
    for t in (1, 2, len(meta)):
        rep.sample(meta[t])
    rep.assumptions = ["standardised CAV: records of at least 2 s and dt = 1/k s for whole k (%s)" % [round(1.0 / d, 6) for d in CAVDP_DTS],
                       "series values compared with the machine at 1e-10 relative; monotone up to 1e-15 of the final value",
                       "zero padding law for the acceleration-based quadrature measures (Arias, CAV, integral of |a|) only"]
    return rep.finish(checker_cmd="tlc MC_Intensity / Trace_Intensity (harness/drivers/c09.py)",
                      trusted_base=["TLC 1.8", "FP.class", "TableIO.class", "harness/common.py enc"])

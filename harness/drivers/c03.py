"""C03 -- response spectra are peak responses with consistent pseudo-spectral relations."""
import os
import warnings
import numpy as np

from harness import tlc, gen
from harness.common import enc, enc_seq, workdir, write_ndjson, Report
from harness.drivers import c01

TICK = 2.0 ** -7
QS = [1, 2, 4, 8]
MC_CFG = """SPECIFICATION Spec
CONSTANT TMax = %d
INVARIANT StepRule
INVARIANT Minimal
INVARIANT KRange
INVARIANT Conforms
CHECK_DEADLOCK FALSE
"""


def tick_table(path, tmax):
    import eqsig
    from eqsig import sdof
    rng = np.random.default_rng(303)
    x = rng.standard_normal(40)
    pga = float(np.max(np.abs(x)))
    with open(path, "w") as f:
        for d in range(1, 5):
            for q in QS:
                for t in range(1, tmax + 1):
                    dt, T = d * TICK, t * TICK
                    sd, sv, sa = sdof.pseudo_response_spectra(x, dt, np.array([T]), 0.05)
                    o = eqsig.AccSignal(x, dt, response_times=np.array([T]))
                    o.gen_response_spectrum(min_dt_ratio=q)
                    f.write("%d %d %d %d %d\n" % (d, q, t, 1 if float(sa[0]) == pga else 0, 1 if float(o.s_a[0]) == pga else 0))
    return 4 * 4 * tmax


def build_traces(path, tier, seed):
    import eqsig
    from eqsig import sdof
    rng = np.random.default_rng(seed + 3)
    recs, meta = [], {}
    tid = 0

    def add(rec, m):
        nonlocal tid
        tid += 1
        rec["tid"] = tid
        recs.append(rec)
        meta[tid] = m

    edge = [5.5, 5.99, 6.0, 6.01, 6.5]
    ncall = 36 if tier == "quick" else 600
    nmax = 250 if tier == "quick" else 1500
    for i in range(ncall):
        n = gen.length(rng, 3, nmax)
        a, shape = gen.record(rng, n, amp=float(10.0 ** rng.uniform(-1, 1)))
        dt = [0.01, 0.0078125, 0.02, 0.005, 0.5, 1.0e-10, 3.0e-7][int(rng.integers(7))]      # incl. records timed in other units (ns, us)
        nper = int(rng.integers(1, 5))
        ratios = sorted(set([edge[(i + k) % 5] if k % 2 == 0 else c01.regime(rng, i * 4 + k)[0] for k in range(nper)]))
        xi = [0.0, 0.05, 0.3, 0.7, 0.999, float(rng.uniform(0, 0.999)), 0][int(rng.integers(7))]     # incl. exactly 0 (float and int)
        periods = [r * dt for r in ratios]
        if i % 3 == 1:
            periods = [0.0] + periods
        container = [np.array(periods), list(periods), tuple(periods)][i % 3]
        if i % 6 >= 4:       # all-integer period containers, with and without a leading 0
            dt = 0.01
            container = [[0, 1, 2, 3], np.array([1, 2]), (0, 2), [3]][(i // 6) % 4]
            periods = [float(t) for t in container]
        kind = ["pseudo", "true"][int(rng.integers(2))]
        fn = sdof.pseudo_response_spectra if kind == "pseudo" else sdof.true_response_spectra
        arg = a            # records are arrays here: the property quantifies over period containers (record containers: C05)
        raised = False
        sd = sv = sa = []
        try:
            sd, sv, sa = fn(arg, dt, container, xi)
        except Exception as ex:
            raised = True
        add({"kind": kind, "dt": enc(dt), "xi": enc(xi), "a": enc_seq(a), "periods": enc_seq(periods), "raised": raised,
             "sd": enc_seq(sd), "sv": enc_seq(sv), "sa": enc_seq(sa), "q": 1},
            {"kind": kind, "n": n, "dt": dt, "xi": xi, "T_over_dt": [p / dt for p in periods], "container": type(container).__name__, "raised": raised, "shape": shape})
    # records held as digitiser counts in narrow integer types, with the type's most negative count (which has no absolute
    # value in the type itself) as the peak, over periods on both sides of 6 dt
    for j in range(6 if tier == "quick" else 40):
        n = int(rng.integers(5, 80))
        dtp = [np.int8, np.int16, np.int32, np.int8][j % 4]
        top = np.iinfo(dtp).max
        a = np.round(gen.record(rng, n, amp=1.0)[0] / 3.5 * top * 0.7).clip(-top, top).astype(dtp)
        if j % 3 != 2:
            a[int(rng.integers(n))] = np.iinfo(dtp).min
        dt = [0.01, 0.02][j % 2]
        ratios = sorted([float(rng.uniform(1.0, 5.9)), 5.99, float(rng.uniform(6.5, 40))][: 1 + j % 3])
        periods = ([0.0] if j % 2 else []) + [r * dt for r in ratios]
        xi = [0.05, 0.0, 0.3][j % 3]
        kind = ["pseudo", "true"][j % 2]
        fn = sdof.pseudo_response_spectra if kind == "pseudo" else sdof.true_response_spectra
        raised = False
        sd = sv = sa = []
        try:
            with warnings.catch_warnings():
                warnings.simplefilter("ignore")
                sd, sv, sa = fn(a, dt, np.array(periods), xi)
        except Exception as ex:
            raised = True
        add({"kind": kind, "dt": enc(dt), "xi": enc(xi), "a": enc_seq(a), "periods": enc_seq(periods), "raised": raised,
             "sd": enc_seq(sd), "sv": enc_seq(sv), "sa": enc_seq(sa), "q": 1},
            {"kind": kind, "n": n, "dt": dt, "xi": xi, "T_over_dt": [p / dt for p in periods], "record dtype": np.dtype(dtp).name,
             "most negative count present": bool(j % 3 != 2), "raised": raised})
    # long period lists (beyond any internal block size), in no particular order, on short records
    for j, nper in enumerate([257, 300] if tier == "quick" else [257, 300, 513, 600, 1025, 256, 512]):
        n = int(rng.integers(4, 14))
        a, shape = gen.record(rng, n, amp=1.0)
        dt = [0.01, 0.02][j % 2]
        ratios = np.exp(rng.uniform(np.log(1.5), np.log(300.0), size=nper))
        periods = [float(r * dt) for r in ratios]
        if j % 2:
            periods = [0.0] + periods[:-1]
        xi = float([0.05, 0.0, 0.3][j % 3])
        kind = ["pseudo", "true"][j % 2] if tier != "quick" else "pseudo"
        fn = sdof.pseudo_response_spectra if kind == "pseudo" else sdof.true_response_spectra
        raised = False
        sd = sv = sa = []
        try:
            sd, sv, sa = fn(a, dt, np.array(periods), xi)
        except Exception as ex:
            raised = True
        add({"kind": kind, "dt": enc(dt), "xi": enc(xi), "a": enc_seq(a), "periods": enc_seq(periods), "raised": raised,
             "sd": enc_seq(sd), "sv": enc_seq(sv), "sa": enc_seq(sa), "q": 1},
            {"kind": kind, "n": n, "dt": dt, "xi": xi, "periods": nper, "container": "ndarray (long, unsorted)", "raised": raised, "shape": shape})
    nobj = 18 if tier == "quick" else 250
    for i in range(nobj):
        n = gen.length(rng, 4, 120 if tier == "quick" else 400)
        a, shape = gen.record(rng, n, amp=1.0)
        dt = [0.01, 0.02, 0.005][i % 3]
        q = QS[i % 4]
        # shortest period / dt: ordinary values, values just below 20/k (the refinement factor must then be k + 1), and values
        # that make the factor odd (6.67 .. 10 -> 3; with min_dt_ratio 8 also 4 .. 5 -> 5, 2.86 .. 3.33 -> 7)
        tmin_ratio = float([3.0, 6.0, 12.0, 25.0, 50.0, 5.99, 45.0, 20.0 / 2.0003, 20.0 / 3.0004, 20.0 / 4.0002, 20.0 / 1.0004, 8.0, 9.5, 4.5, 3.1, 7.0][(i * 7) % 16 if i < 16 else int(rng.integers(16))])     # each regime at least once
        ratios = [tmin_ratio] + sorted(float(tmin_ratio * rng.uniform(1.1, 8.0)) for _ in range(int(rng.integers(0, 3))))
        if rng.integers(3) == 0:
            # resonance with the shortest period on a record of ODD length: the response is still growing when the record stops
            n = n + 1 - (n % 2)
            t_ = np.arange(n)
            a = np.sin(2 * np.pi * t_ / tmin_ratio + 0.3) * (1.0 + 0.002 * t_)
            shape = "resonant build-up, odd length"
        periods = [r * dt for r in ratios]
        if i % 4 == 3:
            periods = [0.0] + periods
        xi = [0.05, 0.0, 0.3, 0.7][i % 4]
        hist = i % 3
        if hist == 0:
            o = eqsig.AccSignal(a, dt, response_times=np.array(periods))
            if i % 2:
                o.gen_response_spectrum(xi=xi, min_dt_ratio=[q, float(q), np.int64(q)][int(rng.integers(3))])
            else:
                o.generate_response_spectrum(response_times=[np.array(periods), list(periods)][i % 2], xi=xi, min_dt_ratio=q)
        else:
            # history: the object reported spectra for OTHER periods / another record before; then it is changed and the
            # spectra are read lazily (default damping 0.05 and min_dt_ratio 4 apply), s_v or s_d first
            xi, q = 0.05, 4
            if hist == 1:
                o = eqsig.AccSignal(a, dt, response_times=np.array([p * 1.37 for p in periods if p > 0] + [periods[-1] * 3.0]))
                _ = (o.s_a, o.s_v, o.s_d)
                if i % 2:
                    o.response_times = np.array(periods)
                else:
                    o.response_series(response_times=np.array(periods))
            else:
                o = eqsig.AccSignal(a[::-1] * 0.7 + 0.1, dt, response_times=np.array(periods))
                _ = (o.s_d, o.s_v)
                o.reset_values(a.copy()) if i % 2 else o.add_series(a - o.values)
        order = [("s_d", "s_v", "s_a"), ("s_a", "s_d", "s_v"), ("s_v", "s_a", "s_d")][i % 3]
        got = {nm: np.array(getattr(o, nm)) for nm in order}
        add({"kind": "object", "dt": enc(dt), "xi": enc(xi), "a": enc_seq(a), "periods": enc_seq(periods), "raised": False, "q": q,
             "sd": enc_seq(got["s_d"]), "sv": enc_seq(got["s_v"]), "sa": enc_seq(got["s_a"])},
            {"kind": "object", "n": n, "dt": dt, "xi": xi, "min_dt_ratio": q, "T_over_dt": [p / dt for p in periods], "shape": shape})
    # odd refinement factors on records of odd length whose response is still growing when the record stops (the peak lies on
    # the held tail / the last sub-steps of the refined record)
    for j, (ratio_, q_) in enumerate([(8.0, 4), (9.0, 4), (7.0, 8), (4.5, 8), (3.1, 8), (8.0, 8)]):
        n = [41, 63, 25, 101, 33, 75][j]
        dt = [0.01, 0.02, 0.005][j % 3]
        t_ = np.arange(n)
        a = np.sin(2 * np.pi * t_ / ratio_ + 0.3) * (1.0 + 0.01 * t_)
        periods = [ratio_ * dt, 3.7 * ratio_ * dt]
        xi = [0.0, 0.02, 0.05][j % 3]
        o = eqsig.AccSignal(a, dt, response_times=np.array(periods))
        o.gen_response_spectrum(xi=xi, min_dt_ratio=q_)
        add({"kind": "object", "dt": enc(dt), "xi": enc(xi), "a": enc_seq(a), "periods": enc_seq(periods), "raised": False, "q": q_,
             "sd": enc_seq(o.s_d), "sv": enc_seq(o.s_v), "sa": enc_seq(o.s_a)},
            {"kind": "object", "n": n, "dt": dt, "xi": xi, "min_dt_ratio": q_, "T_over_dt": [p / dt for p in periods], "shape": "resonant build-up, odd length (deterministic)"})
    # a USED object: spectra were already read (lazily: min_dt_ratio 4, default damping); then the generator is called with
    # another min_dt_ratio and nothing else -- the step rule of THAT call applies to what is reported afterwards
    for j, (ratio_, q_) in enumerate([(4.5, 8), (3.1, 8), (7.0, 8), (4.5, 8), (9.0, 1), (8.0, 2)]):
        n = [41, 64, 25, 100, 33, 75][j]
        dt = [0.01, 0.02, 0.005][j % 3]
        t_ = np.arange(n)
        a = np.sin(2 * np.pi * t_ / ratio_ + 0.3) * (1.0 + 0.01 * t_) + 0.2 * rng.standard_normal(n)
        periods = [ratio_ * dt, 3.7 * ratio_ * dt]
        o = eqsig.AccSignal(a, dt, response_times=np.array(periods))
        _ = (o.s_a, o.s_d) if j % 2 else o.s_v
        if j % 3 == 2:
            o.generate_response_spectrum(min_dt_ratio=q_)
        else:
            o.gen_response_spectrum(min_dt_ratio=q_)
        add({"kind": "object", "dt": enc(dt), "xi": enc(0.05), "a": enc_seq(a), "periods": enc_seq(periods), "raised": False, "q": q_,
             "sd": enc_seq(o.s_d), "sv": enc_seq(o.s_v), "sa": enc_seq(o.s_a)},
            {"kind": "object", "n": n, "dt": dt, "xi": 0.05, "min_dt_ratio": q_, "T_over_dt": [p / dt for p in periods],
             "shape": "used object: spectra read lazily, then the generator called with min_dt_ratio only"})
    # the same object asked for the spectra of ANOTHER period list of the same count with the same first and last entry (the
    # two lists differ only in their interior: under coarse numpy print options they print identically)
    for j in range(3 if tier == "quick" else 12):
        n = int(rng.integers(30, 90))
        dt = [0.01, 0.02, 0.005][j % 3]
        a, shape = gen.record(rng, n, amp=1.0)
        p1 = np.array([7.0, 9.0, 13.0, 21.0, 30.0, 55.0, 80.0]) * dt
        p2 = p1.copy()
        p2[1:-1] *= np.array([1.21, 0.87, 1.3, 0.9, 1.17])
        o = eqsig.AccSignal(a, dt, response_times=p1.copy())
        xi = [0.05, 0.2, 0.0][j % 3]
        if j % 2:
            o.gen_response_spectrum(xi=xi)
        else:
            _ = o.s_a
            xi = 0.05
        o.gen_response_spectrum(response_times=p2.copy(), xi=xi)
        add({"kind": "object", "dt": enc(dt), "xi": enc(xi), "a": enc_seq(a), "periods": enc_seq(p2), "raised": False, "q": 4,
             "sd": enc_seq(o.s_d), "sv": enc_seq(o.s_v), "sa": enc_seq(o.s_a)},
            {"kind": "object", "n": n, "dt": dt, "xi": xi, "min_dt_ratio": 4, "T_over_dt": [p / dt for p in p2],
             "shape": shape + " (same object, another period list with the same ends asked for right after)"})
    # one LARGE object job (npts x min_dt_ratio x periods above 2^23 response samples: implementations may work through the periods in
    # blocks): a handful of its periods, short and long, validated against the step rule of the WHOLE list
    if True:
        n, nper = (2300, 1500) if tier == "quick" else (3200, 2000)
        dt = 0.05              # (coarse sampling: every period of the list is short enough for the refinement to matter)
        a, shape = gen.record(rng, n, shape="noise", amp=1.0)
        plist = np.sort(np.concatenate([[0.25], rng.uniform(0.25, 4.0, size=nper - 1)]))
        o = eqsig.AccSignal(np.array(a), dt, response_times=plist.copy())
        o.gen_response_spectrum()
        pick = sorted(set([0, nper - 1] + list(range(nper // 10, nper, nper // 10))))
        add({"kind": "object", "dt": enc(dt), "xi": enc(0.05), "a": enc_seq(a), "periods": enc_seq(plist[pick]), "tmin": enc(float(plist[0])), "raised": False, "q": 4,
             "sd": enc_seq(np.asarray(o.s_d)[pick]), "sv": enc_seq(np.asarray(o.s_v)[pick]), "sa": enc_seq(np.asarray(o.s_a)[pick])},
            {"kind": "object", "n": n, "dt": dt, "xi": 0.05, "min_dt_ratio": 4, "T_over_dt": [float(plist[k] / dt) for k in pick],
             "shape": "large job: %d periods, rows %s validated" % (nper, pick)})
    # the two inputs named in known_findings.json (C03-input-energy-negative) are always exercised
    for (n, a0, a1, ratio, xi, dt) in [(10, 0.9, 0.3, 1.06, 0.05, 0.01), (14, 0.8, 0.2, 1.05, 0.3, 0.01), (205, 0.967, 0.678, 0.35, 0.554, 0.005)]:
        a = np.linspace(a0, a1, n)
        T = ratio * dt
        o = eqsig.AccSignal(a, dt)
        ein = sdof.calc_input_energy_spectrum(o, periods=np.array([T]), xi=xi)
        euke = sdof.calc_resp_uke_spectrum(o, periods=np.array([T]), xi=xi)
        u, v, acc = sdof.response_series(a, dt, np.array([T]), xi)
        add({"kind": "energy", "dt": enc(dt), "xi": enc(xi), "a": enc_seq(a), "T": enc(T), "v": enc_seq(v[0]), "ein": enc(float(ein[0])), "euke": enc(float(euke[0])), "raised": False},
            {"kind": "energy", "n": n, "dt": dt, "xi": xi, "T_over_dt": ratio, "shape": "ramp %.4f..%.4f" % (a0, a1), "ein": float(ein[0])})
    nen = 20 if tier == "quick" else 400
    for i in range(nen):
        n = gen.length(rng, 3, 300 if tier == "quick" else 1500)
        a, shape = gen.record(rng, n, amp=1.0)
        dt = [0.01, 0.02, 0.005][i % 3]
        ratio, xi = c01.regime(rng, i + 7)
        if i % 4 == 0:
            ratio = float(rng.uniform(500, 5000))          # long periods on short records: under-resolved energy
        T = ratio * dt
        o = eqsig.AccSignal(a, dt)
        ein = sdof.calc_input_energy_spectrum(o, periods=np.array([T]), xi=xi)
        eins = sdof.calc_input_energy_spectrum(o, periods=np.array([T]), xi=xi, series=True)
        euke = sdof.calc_resp_uke_spectrum(o, periods=[T] if i % 2 else np.array([T]), xi=xi)
        u, v, acc = sdof.response_series(a, dt, np.array([T]), xi)
        e_last = float(eins[0][-1]) if i % 2 else float(ein[0])
        add({"kind": "energy", "dt": enc(dt), "xi": enc(xi), "a": enc_seq(a), "T": enc(T), "v": enc_seq(v[0]), "ein": enc(e_last), "euke": enc(float(euke[0])),
             "raised": False},
            {"kind": "energy", "n": n, "dt": dt, "xi": xi, "T_over_dt": ratio, "shape": shape, "ein": e_last, "a_head": [float(t) for t in a[:6]]})
    write_ndjson(path, recs)
    return meta


def run(tier, seed):
    rep = Report("C03", tier, seed)
    wd = workdir("C03")
    tmax = 40 if tier == "quick" else 60
    tab = os.path.join(wd, "ticks.txt")
    with warnings.catch_warnings():
        warnings.simplefilter("ignore")
        nrows = tick_table(tab, tmax)
    r = tlc.run("MC_Spectra", cfg=MC_CFG % tmax, env={"TABLE_FILE": tab}, job="C03/mc", coverage=(tier == "thorough"))
    if r.invariant_violated:
        raise tlc.MachineryError("model invariant violated in MC_Spectra: %s" % r.invariant_violated)
    rep.add_tlc("MC_Spectra(TMax=%d)" % tmax, r, "tick instance d in 1..4, T = 1..40 ticks, min_dt_ratio in {1,2,4,8}: PGA branch and refinement rule; replayed at tick = 2^-7 s")
    rep.evaluations += nrows
    rep.exhaustive = True
    for code, clause in r.mismatches[:500]:
        c = code - 1
        t = c % tmax + 1
        c //= tmax
        rep.fail(clause, "ticks", {"d": c // 4 + 1, "min_dt_ratio": QS[c % 4], "t": t, "dt": (c // 4 + 1) * TICK, "T": t * TICK})
    rep.sample({"ticks": "d=2, T=12 ticks: T = 6 dt exactly -> not below 6 steps -> S_a = w^2 S_d; T=11 ticks -> PGA"})
    tr = os.path.join(wd, "trace.ndjson")
    with warnings.catch_warnings():
        warnings.simplefilter("ignore")
        meta = build_traces(tr, tier, seed)
    r2 = tlc.run("Trace_Spectra", cfg="Trace_Spectra", env={"TRACE_FILE": tr}, job="C03/trace")
    rep.add_tlc("Trace_Spectra", r2, "one event per period: the exact flow is run over the record and its peaks compared with the reported spectra")
    rep.classifiers["always"] = lambda case: True
    for t in meta:
        if t not in r2.verdicts:
            raise tlc.MachineryError("no verdict for tid %d" % t)
        rep.traces += 1
        for c in r2.verdicts[t][0]:
            site = {"pseudo": "pseudo_response_spectra", "true": "true_response_spectra", "object": "AccSignal.s_a/s_v/s_d", "energy": "calc_input_energy_spectrum"}[meta[t]["kind"]]
            rep.fail(c, site, meta[t])
    ks = sorted(meta)
    for t in (ks[0], ks[len(ks) // 2], ks[-1]):
        rep.sample(meta[t])
    rep.assumptions = ["object API: ascending period lists (the class derives T_min from the first non-zero entry)",
                       "object spectra accepted for SOME refinement factor k in [k_min, 2 k_min + 2], with or without the clamped tail of less than one step",
                       "S_d against the exact flow within the C01 tolerance"]
    return rep.finish(checker_cmd="tlc MC_Spectra / Trace_Spectra (harness/drivers/c03.py)",
                      trusted_base=["TLC 1.8", "FP.class", "TableIO.class", "harness/common.py enc"])

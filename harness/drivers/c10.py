"""C10 -- significant and bracketed durations locate threshold crossings exactly."""
import os
import warnings
import numpy as np

from harness import tlc, gen
from harness.common import enc, enc_seq, workdir, write_ndjson, Report

NL = 5
DT = 0.5
PAIRS = [(0.125, 0.875), (0.25, 0.75), (0.5, 0.75), (0.125, 0.5), (0.25, 0.875), (0.5, 0.875)]
THRS = [0.0, 0.5, 1.0, 2.0]
MC_CFG = """SPECIFICATION Spec
CONSTANT MaxLen = %d
INVARIANT RangeOK
INVARIANT ScaleInvariant
INVARIANT ShiftByK
INVARIANT WideningMonotone
INVARIANT BracMonotone
INVARIANT BracScaleTogether
INVARIANT Conforms
CHECK_DEADLOCK FALSE
"""


_USED = [0]


_NOISE = np.random.default_rng(1010)


def used_object(a, dt):
    """an AccSignal that already held ANOTHER record of the same length whose durations / cumulative statistics were
    computed, and was then given `a` (history: results must describe the record the object holds now)"""
    import warnings
    import eqsig
    from eqsig import im
    n = len(a)
    other = np.concatenate([np.zeros(n - n // 2), np.asarray(a, dtype=float)[: n // 2][::-1] * 1.7 + 0.3])
    _USED[0] += 1
    if _USED[0] % 3 == 0 and n >= 4:
        other = other[: max(2, n // 2)]          # the earlier record was SHORTER (or, below, longer) than the one it holds now
    elif _USED[0] % 3 == 1:
        other = np.concatenate([other, other[::-1] * 0.5])
    o = eqsig.AccSignal(other, dt)
    with warnings.catch_warnings():
        warnings.simplefilter("ignore")
        try:
            _ = (o.time, o.npts)
            im.calc_sig_dur(o)
            o.generate_cumulative_stats()
            im.calc_brac_dur(o, 0.1)
            im.calc_brac_dur(o, 0.0, se=True)
        except Exception:
            pass
        try:
            # ... and was corrected over a time window / re-based while it held that earlier record
            r_ = int(_NOISE.integers(3))       # (an independent choice: a counter would correlate with which function is asked next)
            if r_ == 0 and len(other) >= 12 and float(np.max(np.abs(other))) > 0:
                t_end = (len(other) - 1) * dt
                o.set_zero_residual_displacement_and_velocity(timezone=(0.3 * t_end, 0.9 * t_end))
            elif r_ == 1:
                o.rebase_displacement()
        except Exception:
            pass
        if n % 2 or len(other) != n:
            o.reset_values(np.array(a, dtype=float))
        else:
            o.add_series(np.asarray(a, dtype=float) - o.values)
            if not np.array_equal(np.asarray(o.values, dtype=float), np.asarray(a, dtype=float)):
                o.reset_values(np.array(a, dtype=float))       # other + (a - other) is not always a: the record must be exactly a
        if _USED[0] % 2:
            gen.asig_noise(_NOISE, o)           # other public functions applied to the object just before the measured call
    return o


HISTORY = {"on": False}


_SE = [0]


def sig(variant, a, dt, lo, hi, se=True):
    se_py = bool(se)
    _SE[0] += 1
    se = [bool(se), np.bool_(se), int(bool(se))][_SE[0] % 3]          # the flag as python bool / numpy bool / int
    """returns (raised, t0, t1) or (raised, dur)"""
    import eqsig
    from eqsig import im
    mk = (lambda: used_object(a, dt)) if HISTORY["on"] else (lambda: eqsig.AccSignal(a, dt))
    try:
        if variant == "vals" and not se and HISTORY["on"]:
            import warnings
            with warnings.catch_warnings():
                warnings.simplefilter("ignore")
                r = im.calc_significant_duration(a, dt, start=lo, end=hi)          # deprecated alias of the array variant
        elif variant == "vals" and (lo, hi) == (0.05, 0.95):
            r = im.calc_sig_dur_vals(a, dt, se=se)                                  # default fractions 5 % - 95 %
        elif variant == "arias" and (lo, hi) == (0.05, 0.95) and not HISTORY["on"]:
            r = im.calc_sig_dur(eqsig.AccSignal(a, dt), se=se)
        elif variant == "vals":
            r = im.calc_sig_dur_vals(a, dt, start=lo, end=hi, se=se)
        elif variant == "arias":
            r = im.calc_sig_dur(mk(), start=lo, end=hi, se=se)
        elif variant == "cumsq":
            # a user-supplied cumulative measure that does NOT start at zero: the running sum of squares (must agree with
            # the array variant, whose cumulative series is the same)
            r = im.calc_sig_dur(mk(), start=lo, end=hi, im=as_callable(lambda s: np.cumsum(np.asarray(s.values, dtype=float) ** 2)), se=se)
        elif variant == "signed":
            # a user-supplied measure that is not monotone: the running sum of the samples (final value > 0 by construction)
            r = im.calc_sig_dur(mk(), start=lo, end=hi, im=as_callable(lambda s: np.cumsum(np.asarray(s.values, dtype=float))), se=se)
        else:
            r = im.calc_sig_dur(mk(), start=lo, end=hi, im=as_callable(im.calc_cav), se=se)
    except IndexError:
        return (1, 0.0, 0.0) if se_py else (1, 0.0)
    if r is None or (se_py and (len(r) != 2 or r[0] is None or r[1] is None)):
        return (1, 0.0, 0.0) if se_py else (1, 0.0)          # "no duration" reported without raising: validated like the IndexError
    return (0, float(r[0]), float(r[1])) if se_py else (0, float(r))


class _Measure(object):
    """a measure given as an object with __call__ / as a bound method"""
    def __init__(self, fn):
        self.fn = fn

    def __call__(self, s):
        return self.fn(s)

    def evaluate(self, s):
        return self.fn(s)


_KIND = [0]


def as_callable(fn):
    """the user-supplied measure in the forms a caller may hand over: plain function, lambda, functools.partial,
    callable object, bound method (rotating)"""
    import functools
    _KIND[0] += 1
    k = _KIND[0] % 5
    if k == 0:
        return fn
    if k == 1:
        return lambda s: fn(s)
    if k == 2:
        return functools.partial(lambda scale, s: fn(s), 1.0)
    if k == 3:
        return _Measure(fn)
    return _Measure(fn).evaluate


_THR = [0]


def brac(a, dt, thr):
    import eqsig
    from eqsig import im
    import warnings
    s = used_object(a, dt) if HISTORY["on"] else eqsig.AccSignal(a, dt)
    if float(thr).is_integer() and 0 <= thr < 200:
        # a whole-number threshold in the scalar types a caller may hand over (python int / float, numpy signed and unsigned)
        _THR[0] += 1
        thr = [float(thr), int(thr), np.uint8(thr), np.int64(thr), np.uint16(thr), np.float32(thr)][_THR[0] % 6]
    t0, t1 = im.calc_brac_dur(s, thr, se=True)
    with warnings.catch_warnings():
        warnings.simplefilter("ignore")
        d = im.calc_brac_dur(s, thr) if len(a) % 2 else im.calc_bracketed_duration(s, thr)      # deprecated alias
    if t0 is None:
        return 1, 0.0, 0.0, float(d)
    return 0, float(t0), float(t1), float(d)


def table_row(code, digits):
    a = np.array(digits, dtype=float) - 3.0
    row = [code]
    for variant in ("vals", "arias", "cumsq"):
        for lo, hi in PAIRS:
            r, t0, t1 = sig(variant, a, DT, lo, hi)
            row += [r] + enc(t0) + enc(t1)
    r, d = sig("vals", a, DT, PAIRS[1][0], PAIRS[1][1], se=False)
    row += [r] + enc(d)
    for thr in THRS:
        none, t0, t1, d = brac(a, DT, thr)
        row += [none] + enc(t0) + enc(t1) + enc(d)
    return row


def build_traces(path, tier, seed):
    rng = np.random.default_rng(seed + 10)
    recs, meta = [], {}
    nsig = 60 if tier == "quick" else 360
    nmax = 1500 if tier == "quick" else 5000
    tid = 0

    def add(rec, m):
        nonlocal tid
        tid += 1
        rec["tid"] = tid
        recs.append(rec)
        meta[tid] = m

    for i in range(nsig):
        HISTORY["on"] = (i % 3 == 1)          # every third record goes through an object with a history
        n = gen.length(rng, 2, nmax)
        a, shape = gen.record(rng, n)
        if i % 5 == 0:
            a = np.round(a / (np.max(np.abs(a)) + 1e-300) * 4)     # integer valued: exact ties with dyadic fractions
        elif rng.integers(5) == 0:
            # counts in a narrow integer dtype (the cumulative measures square / sum them)
            dt_, top = [(np.int8, 100), (np.int16, 30000), (np.int32, 2.0e9), (np.uint8, 250)][int(rng.integers(4))]
            a = np.abs(a) if dt_ is np.uint8 else np.asarray(a, dtype=float)
            a = np.round(a / (np.max(np.abs(a)) + 1e-300) * top).astype(dt_)
            shape += " (%s counts)" % np.dtype(dt_).name
        elif rng.integers(6) == 0:
            a = a * float(10.0 ** rng.uniform(-9, -4))          # weak motion / records in small units: nothing here is "flat"
            shape += " (small units)"
        dt = gen.dt(rng)
        variant = ["vals", "arias", "cav", "cumsq", "signed"][i % 5]
        if variant == "signed":
            a = np.asarray(a, dtype=float)
            if not (np.sum(a) > 0):
                a = -a
            if not (np.cumsum(a)[-1] > 1e-6 * np.max(np.abs(np.cumsum(a)))):
                variant = "cumsq"          # the total must be a meaningful reference for the fractions
        fsel = int(rng.integers(4))
        if fsel == 0:
            lo, hi = 0.05, 0.95
        elif fsel == 1:
            lo, hi = PAIRS[rng.integers(len(PAIRS))]
        else:
            lo = float(rng.uniform(0.01, 0.6))
            hi = float(rng.uniform(lo + 0.05, 0.99))
        r, t0, t1 = sig(variant, a, dt, lo, hi)
        r2, d = sig(variant, a, dt, lo, hi, se=False)
        add({"kind": "sig", "variant": variant, "dt": enc(dt), "a": enc_seq(a), "lo": enc(lo), "hi": enc(hi), "raised": bool(r),
             "t0": enc(t0), "t1": enc(t1), "dur": enc(d)},
            {"kind": "sig", "variant": variant, "n": n, "shape": shape, "dt": dt, "lo": lo, "hi": hi, "raised": bool(r), "t0": t0, "t1": t1})
        # laws (relation events)
        if r == 0 and i % 2 == 0:
            alpha = float(2.0 ** rng.integers(-20, 20)) * (-1 if (i % 4 and variant != "signed") else 1)     # (a signed measure has no sign symmetry)
            rs = sig(variant, a * alpha, dt, lo, hi)
            add({"kind": "rel", "law": "same", "clause": "ScaleInvariant", "dt": enc(dt), "k": 0, "x": enc_seq([t0, t1]), "y": enc_seq(rs[1:])},
                {"kind": "rel", "law": "ScaleInvariant", "alpha": alpha, "variant": variant, "n": n})
            k = int(rng.integers(1, 40))
            # trapezoid-based measures (Arias, CAV): prepending zeros is an exact shift only if the record starts at
            # zero (otherwise the panel between the last zero and a[0] adds area); the running sum has no such panel
            a0 = a.copy()
            if variant != "vals":
                a0[0] = 0.0
            rb = sig(variant, a0, dt, lo, hi)
            rz = sig(variant, np.concatenate([np.zeros(k), a0]), dt, lo, hi)
            if rb[0] == 0 and rz[0] == 0:
              add({"kind": "rel", "law": "shift", "clause": "ShiftByK", "dt": enc(dt), "k": k, "x": enc_seq(rb[1:]), "y": enc_seq(rz[1:])},
                {"kind": "rel", "law": "ShiftByK", "k": k, "variant": variant, "n": n})
            if False:
              add({"kind": "rel", "law": "shift", "clause": "ShiftByK", "dt": enc(dt), "k": k, "x": enc_seq([t0, t1]), "y": enc_seq(rz[1:])},
                {"kind": "rel", "law": "ShiftByK", "k": k, "variant": variant, "n": n})
            lo2, hi2 = lo * float(rng.uniform(0.3, 1.0)), hi + (1 - hi) * float(rng.uniform(0.0, 0.9))
            rw = sig(variant, a, dt, lo2, hi2, se=False)
            if rw[0] == 0:
                add({"kind": "rel", "law": "geq", "clause": "WideningMonotone", "dt": enc(dt), "k": 0, "x": enc_seq([rw[1]]), "y": enc_seq([d])},
                    {"kind": "rel", "law": "WideningMonotone", "pairs": [(lo, hi), (lo2, hi2)], "variant": variant, "n": n})
        # bracketed
        pk = float(np.max(np.abs(a)))
        thr = float([0.0, pk * rng.uniform(0, 1), pk, pk * 1.5, np.abs(a[rng.integers(n)])][i % 5])
        none, b0, b1, bd = brac(a, dt, thr)
        add({"kind": "brac", "dt": enc(dt), "a": enc_seq(a), "thr": enc(thr), "none": bool(none), "t0": enc(b0), "t1": enc(b1), "dur": enc(bd)},
            {"kind": "brac", "n": n, "shape": shape, "thr": thr, "none": bool(none), "t0": b0, "t1": b1})
        thr2 = thr + pk * float(rng.uniform(0, 0.5))
        _, _, _, bd2 = brac(a, dt, thr2)
        add({"kind": "rel", "law": "geq", "clause": "BracMonotone", "dt": enc(dt), "k": 0, "x": enc_seq([bd]), "y": enc_seq([bd2])},
            {"kind": "rel", "law": "BracMonotone", "thr": [thr, thr2], "n": n})
        alpha = float(2.0 ** rng.integers(-10, 10)) * (-1 if i % 2 else 1)
        ns, s0, s1, sd = brac(a * alpha, dt, thr * abs(alpha))
        add({"kind": "rel", "law": "same", "clause": "BracScaleTogether", "dt": enc(dt), "k": 0, "x": enc_seq([none, b0, b1, bd]), "y": enc_seq([ns, s0, s1, sd])},
            {"kind": "rel", "law": "BracScaleTogether", "alpha": alpha, "n": n})
    # counts in a narrow integer dtype through every variant (the cumulative measures square / sum the samples)
    HISTORY["on"] = False
    for j in range(12 if tier == "quick" else 60):
        n = int(rng.integers(12, 300))
        a, shape = gen.record(rng, n, shape=["noise", "sine", "burst"][j % 3], amp=1.0)
        dt_, top = [(np.int8, 100), (np.int16, 30000), (np.int32, 2.0e9), (np.uint8, 250)][j % 4]
        a = np.abs(a) if dt_ is np.uint8 else np.asarray(a, dtype=float)
        a = np.round(a / (np.max(np.abs(a)) + 1e-300) * top).astype(dt_)
        dt = gen.dt(rng)
        variant = ["vals", "arias", "cav"][(j // 4) % 3]
        lo, hi = PAIRS[int(rng.integers(len(PAIRS)))]
        r, t0, t1 = sig(variant, a, dt, lo, hi)
        r2, d = sig(variant, a, dt, lo, hi, se=False)
        add({"kind": "sig", "variant": variant, "dt": enc(dt), "a": enc_seq(np.asarray(a, dtype=float)), "lo": enc(lo), "hi": enc(hi), "raised": bool(r),
             "t0": enc(t0), "t1": enc(t1), "dur": enc(d)},
            {"kind": "sig", "variant": variant, "n": n, "shape": shape + " (%s counts)" % np.dtype(dt_).name, "dt": dt, "lo": lo, "hi": hi, "raised": bool(r), "t0": t0, "t1": t1})
        if dt_ is not np.uint8:
            # the type's most negative count (no absolute value in the type itself) brackets the strong motion
            ii = np.iinfo(dt_)
            a2 = a.copy()
            j1, j2 = sorted(int(v) for v in rng.choice(n, size=2, replace=False))
            a2[j1] = a2[j2] = ii.min
            thr = float(top) + 1.0 + float(rng.uniform(0, -float(ii.min) - top - 2.0))      # above every other sample, below |min count|
            HISTORY["on"] = False
            none, b0, b1, bd = brac(a2, dt, thr)
            add({"kind": "brac", "dt": enc(dt), "a": enc_seq(np.asarray(a2, dtype=float)), "thr": enc(thr), "none": bool(none), "t0": enc(b0), "t1": enc(b1), "dur": enc(bd)},
                {"kind": "brac", "n": n, "shape": shape + " (%s counts with the most negative count)" % np.dtype(dt_).name, "thr": thr, "none": bool(none), "t0": b0, "t1": b1})
    # records held in single / half precision with a threshold (a python float) that the record's type cannot represent: the
    # samples that bracket the motion equal the threshold ROUNDED to that type -- whether they exceed it is decided by their
    # exact values
    for j in range(10 if tier == "quick" else 60):
        n = int(rng.integers(12, 200))
        a, shape = gen.record(rng, n, shape=["noise", "sine", "burst"][j % 3], amp=1.0)
        ft_ = [np.float32, np.float16][j % 2]
        a = (np.asarray(a, dtype=float) / (np.max(np.abs(a)) + 1e-300) * 0.4).astype(ft_)
        thr = float(rng.uniform(0.45, 0.55)) if j % 5 else 0.05 * 9.8
        j1, j2 = sorted(int(v) for v in rng.choice(n, size=2, replace=False))
        a[j1] = ft_(thr)
        a[j2] = -ft_(thr) if j % 3 else ft_(thr)
        dt = gen.dt(rng)
        HISTORY["on"] = False
        none, b0, b1, bd = brac(a, dt, thr)
        add({"kind": "brac", "dt": enc(dt), "a": enc_seq(np.asarray(a, dtype=float)), "thr": enc(thr), "none": bool(none), "t0": enc(b0), "t1": enc(b1), "dur": enc(bd)},
            {"kind": "brac", "n": n, "shape": shape + " (%s, bracketing samples = the threshold rounded to the record's type)" % np.dtype(ft_).name, "thr": thr,
             "none": bool(none), "t0": b0, "t1": b1})
    # a non-monotone user-supplied measure whose oscillation crosses both fractions several times (the in-band samples are then
    # not a single run: the first and the last of them are not the first crossing of one fraction and the last of the other)
    HISTORY["on"] = False
    for j in range(24 if tier == "quick" else 160):
        n = int(rng.integers(30, 300))
        dt = gen.dt(rng)
        t = np.arange(n)
        P = float(rng.uniform(4, 30))
        c = float(10.0 ** rng.uniform(-3.3, -0.5))      # mean step from far below to comparable with the oscillation: the running sum
        #                                                 may jump over the whole band in one step and come back into it later
        a = np.sin(2 * np.pi * t / P + rng.uniform(0, 6.28)) * float(rng.uniform(0.5, 2.0)) + c + 0.05 * rng.standard_normal(n)
        if not (np.sum(a) > 0):
            a = a - np.mean(a) + c
        lo = float(rng.uniform(0.05, 0.5))
        hi = float(rng.uniform(lo + 0.1, 0.98))
        r, t0, t1 = sig("signed", a, dt, lo, hi)
        r2, d = sig("signed", a, dt, lo, hi, se=False)
        add({"kind": "sig", "variant": "signed", "dt": enc(dt), "a": enc_seq(a), "lo": enc(lo), "hi": enc(hi), "raised": bool(r),
             "t0": enc(t0), "t1": enc(t1), "dur": enc(d)},
            {"kind": "sig", "variant": "signed", "n": n, "shape": "oscillating running sum", "dt": dt, "lo": lo, "hi": hi, "raised": bool(r), "t0": t0, "t1": t1})
    write_ndjson(path, recs)
    return meta


def run(tier, seed):
    rep = Report("C10", tier, seed)
    wd = workdir("C10")
    maxlen = 6 if tier == "quick" else 7
    tab = os.path.join(wd, "table.txt")
    with warnings.catch_warnings():
        warnings.simplefilter("ignore")
        nrows = gen.build_table(tab, NL, maxlen, table_row)
    r = tlc.run("MC_Duration", cfg=MC_CFG % maxlen, env={"TABLE_FILE": tab}, job="C10/mc", coverage=(tier == "thorough"))
    if r.invariant_violated:
        raise tlc.MachineryError("model invariant violated in MC_Duration: %s" % r.invariant_violated)
    rep.add_tlc("MC_Duration(MaxLen=%d)" % maxlen, r, "every record over {-2..2}, dt=1/2; 6 dyadic fraction pairs x {sum of squares, Arias, custom CAV}; 4 thresholds; table in lock-step")
    rep.evaluations += nrows
    rep.exhaustive = True
    for code, clause in r.mismatches[:2000]:
        a = [d - 3 for d in gen.decode(code, NL)]
        rep.fail(clause, "lattice", {"code": code, "a": a, "dt": DT, "pairs": PAIRS, "thresholds": THRS})
    rep.sample({"lockstep": "record [0,2,-1,2] dt=0.5: cumulative squares [0,4,5,9]; pair (1/2,3/4): 0.5*9=4.5 < 5 < 6.75 -> only index 2 inside"})
    tr = os.path.join(wd, "trace.ndjson")
    with warnings.catch_warnings():
        warnings.simplefilter("ignore")
        meta = build_traces(tr, tier, seed)
    r2 = tlc.run("Trace_Duration", cfg="Trace_Duration", env={"TRACE_FILE": tr}, job="C10/trace")
    rep.add_tlc("Trace_Duration", r2, "recorded calls on random records + relation events")
    for t in meta:
        if t not in r2.verdicts:
            raise tlc.MachineryError("no verdict for tid %d" % t)
        rep.traces += 1
        for c in r2.verdicts[t][0]:
            rep.fail(c, "trace:" + meta[t]["kind"], meta[t])
    for t in (1, 2, 3):
        rep.sample(meta[t])
    rep.assumptions = ["a cumulative value within 1e-12 (relative to the total) of a fraction of the total is accepted on either side, except on the exact lattice (sum of squares, CAV) where ties are decided exactly",
                       "scaling laws are exercised with alpha = +-2^k (exact), so that boundary ties cannot flip by rounding"]
    return rep.finish(checker_cmd="tlc MC_Duration / Trace_Duration (harness/drivers/c10.py)",
                      trusted_base=["TLC 1.8", "FP.class", "TableIO.class", "harness/common.py enc"])

"""C20 -- interpolation, averaging, step-fit and design-spectrum helpers match definitions."""
import itertools
import os
import warnings
import numpy as np

from harness import tlc, gen
from harness.common import enc, enc_seq, workdir, write_ndjson, Report

NL = 5
MODES = ["forward", "backward", "centre"]
MC_CFG = """SPECIFICATION Spec
CONSTANT MaxLen = %d
INVARIANT ConstPreserved
INVARIANT WindowOneIdentity
INVARIANT ErrNonNeg
INVARIANT PerfectStepZero
INVARIANT Conforms
CHECK_DEADLOCK FALSE
"""


def table_row(code, digits):
    from eqsig.fns import average as av
    v = np.array(digits) - 3
    n = len(v)
    row = [code, n]
    if n < 3:
        return row
    arg = [v, v.astype(float), v.tolist()][code % 3]
    for mode in MODES:
        for s in range(1, n + 1):
            for x in av.calc_roll_av_vals(arg, s, mode=mode):
                row += enc(x)
    for p in (1, 2):
        for x in np.asarray(av.calc_step_fn_vals_error(v.astype(float), pow=p), dtype=float):
            row += enc(x)
    for p in (1, 2):
        for x in np.asarray(av.calc_step_fn_vals_error([v, v.tolist()][code % 2], pow=p), dtype=float):
            row += enc(x)
    for ind in range(1, n - 1):
        pre, post = av.calc_step_fn_steps_vals(v.astype(float), ind=ind)
        row += enc(pre) + enc(post)
    return row


def build_traces(path, tier, seed):
    from eqsig.fns import average as av, generic as gn
    from eqsig import design_spectra as ds
    rng = np.random.default_rng(seed + 20)
    recs, meta = [], {}
    tid = 0

    def add(rec, m):
        nonlocal tid
        tid += 1
        rec["tid"] = tid
        recs.append(rec)
        meta[tid] = m

    # interpolation: every monotone node subset of size 3..5 of a lattice, queries on / between / outside the nodes
    lattice = [0.0, 1.0, 2.0, 4.0, 7.0]
    queries = np.array([-1.0, 0.0, 0.5, 1.0, 1.5, 2.0, 3.0, 4.0, 5.5, 7.0, 8.0])
    for size in (3, 4, 5):
        for nodes in itertools.combinations(lattice, size):
            xf = np.array(nodes)
            f = np.array([[(3 * i * i + 2 * c) % 7 - 3.0, 0.5 * i - c] for i in range(size) for c in [0]]).reshape(size, 2)
            f = np.array([[((3 * i * i) % 7) - 3.0, 0.5 * i, float(i % 2)] for i in range(size)])
            out = gn.interp2d(queries, xf, f)
            add({"kind": "interp2d", "xf": enc_seq(xf), "cols": [enc_seq(f[:, c]) for c in range(3)], "x": enc_seq(queries),
                 "out": [enc_seq(out[:, c]) for c in range(3)]}, {"kind": "interp2d", "nodes": list(nodes), "lattice": True})
            q2 = queries[queries >= xf[0]]
            y = f[:, 0]
            add({"kind": "interp_left", "xs": enc_seq(xf), "y": enc_seq(y), "x0": enc_seq(q2), "out": enc_seq(gn.interp_left(q2, xf, y))},
                {"kind": "interp_left", "nodes": list(nodes), "lattice": True})
            idx = gn.interp_left(q2, xf)                               # y = None: indices
            add({"kind": "interp_left", "xs": enc_seq(xf), "y": enc_seq(np.arange(size)), "x0": enc_seq(q2), "out": enc_seq(idx)},
                {"kind": "interp_left", "nodes": list(nodes), "y": None})
            s = gn.interp_left(float(xf[1]), xf, y)                     # scalar query exactly on a node
            add({"kind": "interp_left", "xs": enc_seq(xf), "y": enc_seq(y), "x0": enc_seq([xf[1]]), "out": enc_seq([s])},
                {"kind": "interp_left", "nodes": list(nodes), "scalar": True})
    # integer-typed nodes (also negative ones) with fractional queries on both sides of zero, nodes / queries as lists and ints
    for nodes_i in ([-6, -4, -1, 0, 3, 7], [-3, -2, 5], [0, 2, 3, 10], [-9, -8, -7]):
        xs_i = np.array(nodes_i, dtype=[np.int64, np.int32, np.int16][len(nodes_i) % 3])
        y_i = np.array([float((3 * j * j) % 7) - 2.5 for j in range(len(nodes_i))])
        q_i = np.array([q for q in (-8.5, -5.5, -3.9, -1.5, -0.5, 0.0, 0.5, 2.5, 3.0, 6.99, 7.0, 11.5) if q >= nodes_i[0]])
        for form in range(3):
            xs_arg = [xs_i, list(nodes_i), xs_i.astype(float)][form]
            out_i = gn.interp_left(q_i, xs_arg, y_i)
            add({"kind": "interp_left", "xs": enc_seq(nodes_i), "y": enc_seq(y_i), "x0": enc_seq(q_i), "out": enc_seq(out_i)},
                {"kind": "interp_left", "nodes": nodes_i, "node_type": ["int ndarray", "list of int", "float ndarray"][form]})
            idx_i = gn.interp_left(q_i, xs_arg)
            add({"kind": "interp_left", "xs": enc_seq(nodes_i), "y": enc_seq(np.arange(len(nodes_i))), "x0": enc_seq(q_i), "out": enc_seq(idx_i)},
                {"kind": "interp_left", "nodes": nodes_i, "y": None, "node_type": ["int ndarray", "list of int", "float ndarray"][form]})
            for q in (-0.5, -1.5, 2.5):
                if q >= nodes_i[0]:
                    s_i = gn.interp_left(q, xs_arg, y_i)
                    add({"kind": "interp_left", "xs": enc_seq(nodes_i), "y": enc_seq(y_i), "x0": enc_seq([q]), "out": enc_seq([s_i])},
                        {"kind": "interp_left", "nodes": nodes_i, "scalar": q})
        f_i = np.array([[y_i[j], 0.5 * j] for j in range(len(nodes_i))])
        q2_i = np.array([-8.5, -5.5, -1.5, -0.5, 0.5, 2.5, 11.5])
        out2_i = gn.interp2d(q2_i, xs_i, f_i)
        add({"kind": "interp2d", "xf": enc_seq(nodes_i), "cols": [enc_seq(f_i[:, c]) for c in range(2)], "x": enc_seq(q2_i),
             "out": [enc_seq(out2_i[:, c]) for c in range(2)]}, {"kind": "interp2d", "nodes": nodes_i, "node_type": "int ndarray"})
    # evenly and ALMOST evenly spaced nodes (time stamps): queries on the nodes, one ulp and a tiny fraction of the spacing on
    # either side of them, and in the sliver before a node that is slightly late -- "the greatest node not exceeding the query"
    for j in range(8 if tier == "quick" else 60):
        k = int(rng.integers(3, 40))
        dx = float([0.01, 0.005, 0.1, 1.0 / 3.0, 1.0e-9, 2.0, 0.02, 1.0e-3][j % 8])
        t0 = float(rng.choice([0.0, 0.0, 5.0, -1.0]))
        xs_e = t0 + dx * np.arange(k)
        if j % 3 == 1:
            xs_e[int(rng.integers(1, k))] += float(rng.choice([1e-5, 3e-6, -4e-6])) * dx          # one stamp slightly late / early
        elif j % 3 == 2:
            xs_e = xs_e + dx * 1e-7 * rng.uniform(-1, 1, size=k)                               # jitter far below the spacing
            xs_e = np.sort(xs_e)
        y_e = rng.standard_normal(k)
        pick = xs_e[rng.integers(1, k, size=min(k - 1, 6))]
        q_e = np.concatenate([pick, np.nextafter(pick, -np.inf), np.nextafter(pick, np.inf), pick - 1e-10 * dx, pick - 1e-6 * dx, pick + 1e-10 * dx,
                              pick - 0.5 * dx, [xs_e[0], xs_e[-1], xs_e[-1] + dx]])
        q_e = q_e[q_e >= xs_e[0]]
        out_e = gn.interp_left(q_e, xs_e, y_e)
        add({"kind": "interp_left", "xs": enc_seq(xs_e), "y": enc_seq(y_e), "x0": enc_seq(q_e), "out": enc_seq(out_e)},
            {"kind": "interp_left", "nodes": "evenly / almost evenly spaced, dx=%g, k=%d, variant %d" % (dx, k, j % 3)})
        idx_e = gn.interp_left(q_e, xs_e)
        add({"kind": "interp_left", "xs": enc_seq(xs_e), "y": enc_seq(np.arange(k)), "x0": enc_seq(q_e), "out": enc_seq(idx_e)},
            {"kind": "interp_left", "nodes": "evenly / almost evenly spaced, dx=%g, k=%d, variant %d" % (dx, k, j % 3), "y": None})
    nrand = 30 if tier == "quick" else 250
    for i in range(nrand):
        k = int(rng.integers(2, 12))
        xf = np.cumsum(rng.uniform(0.01, 2.0, size=k)) + rng.uniform(-5, 5)
        ncol = int(rng.integers(1, 4))
        f = rng.standard_normal((k, ncol)) * 10.0 ** rng.uniform(-2, 3)
        x = np.concatenate([rng.uniform(xf[0] - 1, xf[-1] + 1, size=8), xf[rng.integers(0, k, size=3)], [xf[0], xf[-1]]])
        out = gn.interp2d(x, xf, f)
        add({"kind": "interp2d", "xf": enc_seq(xf), "cols": [enc_seq(f[:, c]) for c in range(ncol)], "x": enc_seq(x),
             "out": [enc_seq(out[:, c]) for c in range(ncol)]}, {"kind": "interp2d", "k": k, "ncol": ncol})
        if i % 3 == 1:
            # tables of whole numbers held in integer types (also unsigned and narrow ones): rising and falling columns, the
            # interpolated values in between are fractional
            dtt = [np.uint8, np.int8, np.uint16, np.int16, np.int64, np.uint32][int(rng.integers(6))]
            ii = np.iinfo(dtt)
            f_t = rng.integers(max(ii.min, -60000), min(ii.max, 60000), size=(k, ncol), endpoint=True).astype(dtt)
            out_t = gn.interp2d(x, xf, f_t)
            add({"kind": "interp2d", "xf": enc_seq(xf), "cols": [enc_seq(np.asarray(f_t[:, c], dtype=float)) for c in range(ncol)], "x": enc_seq(x),
                 "out": [enc_seq(out_t[:, c]) for c in range(ncol)]}, {"kind": "interp2d", "k": k, "ncol": ncol, "table dtype": np.dtype(dtt).name})
            y_t = f_t[:, 0]
            x0_t = x[x >= xf[0]]
            add({"kind": "interp_left", "xs": enc_seq(xf), "y": enc_seq(np.asarray(y_t, dtype=float)), "x0": enc_seq(x0_t), "out": enc_seq(gn.interp_left(x0_t, xf, y_t))},
                {"kind": "interp_left", "k": k, "y dtype": np.dtype(dtt).name})
        x0 = x[x >= xf[0]]
        y = f[:, 0]
        add({"kind": "interp_left", "xs": enc_seq(xf), "y": enc_seq(y), "x0": enc_seq(x0), "out": enc_seq(gn.interp_left(x0, xf, y))},
            {"kind": "interp_left", "k": k})
        n = gen.length(rng, 3, 400 if tier == "quick" else 3000)
        v, shape = gen.record(rng, n)
        if i % 4 == 0:
            v = v - 3 * np.max(np.abs(v)) - 1.0            # all negative: negative side means
        steps = int([1, 2, n, rng.integers(1, n + 1), rng.integers(1, min(n, 25) + 1)][i % 5])
        mode = ["forward", "backward", "centre", "center"][i % 4]
        out = av.calc_roll_av_vals(v, gen.intlike(rng, steps), mode=mode)
        add({"kind": "rollav", "v": enc_seq(v), "steps": steps, "mode": "centre" if mode == "center" else mode, "out": enc_seq(out)},
            {"kind": "rollav", "n": n, "steps": steps, "mode": mode, "shape": shape})
        if n <= 600:
            p = 1 + (i % 2)
            err = np.asarray(av.calc_step_fn_vals_error(v, pow=[p, float(p), np.int64(p)][int(rng.integers(3))]), dtype=float)
            add({"kind": "steperr", "v": enc_seq(v), "pow": p, "out": enc_seq(err)}, {"kind": "steperr", "n": n, "pow": p, "shape": shape, "mean": float(np.mean(v))})
        # split sample: interior, or the first / last sample (one side is then empty: only the other level is stated)
        ind = [int(rng.integers(1, n - 1)), 0, n - 1, int(rng.integers(1, n - 1))][int(rng.integers(4))]
        with warnings.catch_warnings():
            warnings.simplefilter("ignore")
            pre, post = av.calc_step_fn_steps_vals(v, ind=(ind if i % 2 else np.int64(ind)))
        add({"kind": "levels", "v": enc_seq(v), "ind": ind, "pre": enc(pre if ind > 0 else 0.0), "post": enc(post if ind < n - 1 else 0.0)}, {"kind": "levels", "n": n, "ind": ind})
    # default split (ind=None: the best-fit split of the pow=1 error) asked for right after the error of ANOTHER series with the same
    # length, first and last sample was computed (the two series print identically under coarse numpy print options)
    for j in range(6 if tier == "quick" else 40):
        n = int(rng.integers(7, 300))
        v = np.concatenate([rng.standard_normal(n // 2) + float(rng.uniform(1, 4)), rng.standard_normal(n - n // 2) - float(rng.uniform(1, 4))])
        if j % 2:
            v = v[::-1].copy()
        other = v.copy()
        cut = int(rng.integers(1, n - 1))
        other[1:-1] = np.concatenate([np.full(cut, 5.0), np.full(n - 1 - cut, -5.0)])[: n - 2] + 0.1 * rng.standard_normal(n - 2)
        with warnings.catch_warnings():
            warnings.simplefilter("ignore")
            err = np.asarray(av.calc_step_fn_vals_error(np.array(v)), dtype=float)
            ind0 = int(np.argmin(err))
            av.calc_step_fn_vals_error(other)
            pre, post = av.calc_step_fn_steps_vals(v)
        add({"kind": "steperr", "v": enc_seq(v), "pow": 1, "out": enc_seq(err)}, {"kind": "steperr", "n": n, "pow": 1, "shape": "two-level", "mean": float(np.mean(v))})
        if 0 < ind0 < n - 1:
            add({"kind": "levels", "v": enc_seq(v), "ind": ind0, "pre": enc(pre), "post": enc(post)},
                {"kind": "levels", "n": n, "ind": ind0, "default_split": True, "history": "error of another series with the same ends computed just before"})
    if tier == "thorough":
        # one series long enough for the n x n work matrices to exceed 256 MiB (n > 5792), riding on a large offset: the error at a
        # handful of splits (a full evaluation is quadratic)
        n = 5800 + int(rng.integers(0, 200))
        v = 3.0e5 + rng.standard_normal(n)
        v[n // 2:] -= 2.0
        err = np.asarray(av.calc_step_fn_vals_error(v, pow=1), dtype=float)
        idx = sorted(set([1, n // 2, n // 2 + 1, n - 1, n] + [int(t_) for t_ in rng.integers(2, n, size=4)]))
        add({"kind": "steperr_at", "v": enc_seq(v), "pow": 1, "idx": idx, "vals": enc_seq(err[np.array(idx) - 1] if len(err) == n else []), "len_ok": bool(len(err) == n)},
            {"kind": "steperr_at", "n": n, "pow": 1, "offset": 3.0e5, "splits": idx})
    # design spectra
    g = 9.81
    bounds = {"C": [0.1, 0.3, 1.5, 3.0], "D": [0.1, 0.56, 1.5, 3.0], "E": [0.1, 1.0, 1.5, 3.0]}
    for site in ("C", "D", "E"):
      for z, r, nf in ((0.3, 1.0, 1.0), (0.13, 1.3, 1.2), (float(rng.uniform(0.1, 0.6)), float(rng.uniform(0.25, 1.8)), float(rng.uniform(1.0, 1.72)))):
            periods = sorted(set([0.0, 1e-6, 0.05, 0.2, 0.4, 0.7, 1.2, 2.0, 3.0, 4.5, 10.0] + [b * (1 + e) for b in bounds[site] for e in (-1e-9, 0.0, 1e-9)]))
            for T in periods:
                ch = float(ds.c_h_factor(float(T), site))
                sd = float(ds.sd_nzs(float(T), site, z, r, nf))
                add({"kind": "sd_ch", "T": enc(T), "ch": enc(ch), "sd": enc(sd), "znr": enc(z * nf * r)}, {"kind": "sd_ch", "site": site, "T": T, "ch": ch, "sd": sd})
            arr = ds.c_h_factor(np.array(periods), site)
            for T, a in zip(periods, arr):
                add({"kind": "cont", "lo": enc(a), "hi": enc(ds.c_h_factor(float(T), site))}, {"kind": "cont", "site": site, "T": T, "what": "array vs scalar"})
            for container in (np.arange(0, 6), [1, 2, 3, 4], np.array([0, 1, 3], dtype=np.int32), [0.5, 2]):
                arr = ds.c_h_factor(container, site)
                for T, a in zip(list(container), arr):
                    add({"kind": "cont", "lo": enc(a), "hi": enc(ds.c_h_factor(float(T), site))},
                        {"kind": "cont", "site": site, "T": float(T), "what": "integer-typed period container vs scalar float"})
            for b in [0.0] + bounds[site]:
                lo_t, hi_t = (0.0, 1e-9) if b == 0.0 else (b * (1 - 1e-9), b * (1 + 1e-9))
                add({"kind": "cont", "lo": enc(ds.c_h_factor(lo_t, site)), "hi": enc(ds.c_h_factor(hi_t, site))}, {"kind": "cont", "site": site, "boundary": b, "fn": "c_h_factor"})
                if b > 0:
                    add({"kind": "cont", "lo": enc(ds.sd_nzs(lo_t, site, z, r, nf)), "hi": enc(ds.sd_nzs(hi_t, site, z, r, nf))}, {"kind": "cont", "site": site, "boundary": b, "fn": "sd_nzs"})
            d_c = ds.sd_nzs(3.0, site, z, r, nf) * g / (2 * np.pi) ** 2
            for x in (1.0, 0.5, 0.01, float(rng.uniform(0.05, 1.0))):
                t = ds.t_eff(d_c * x * (1 - 1e-12 if x == 1.0 else 1.0), site, z, r, nf)
                raised = False
                try:
                    ds.t_eff(d_c * 1.001, site, z, r, nf)
                except ValueError:
                    raised = True
                if x == 1.0:
                    # ... and a displacement that IS the corner displacement C_h(3) * 9 * Z * R * N * g / (2 pi)^2 (evaluated left
                    # to right): the corner itself belongs to the domain, the effective period there is 3 s
                    d_exact = {"C": 3.96, "D": 6.42, "E": 9.96}[site] * z * r * nf / (2 * np.pi) ** 2 * g
                    try:
                        t_c = float(ds.t_eff(d_exact, site, z, r, nf))
                    except ValueError:
                        t_c = float("nan")
                    add({"kind": "teff", "x": enc(1.0), "t": enc(t_c), "raised_above": raised},
                        {"kind": "teff", "site": site, "x": "exactly the corner displacement", "t": t_c, "z": z, "r": r, "n": nf})
                add({"kind": "teff", "x": enc(x), "t": enc(t), "raised_above": raised}, {"kind": "teff", "site": site, "x": x, "t": float(t), "z": z, "r": r, "n": nf})
    write_ndjson(path, recs)
    return meta


def run(tier, seed):
    rep = Report("C20", tier, seed)
    wd = workdir("C20")
    maxlen = 5 if tier == "quick" else 6        # (length 7: a 267 MB lock-step table; TLC did not finish it within the 30 min limit on a busy machine)
    tab = os.path.join(wd, "table.txt")
    with warnings.catch_warnings():
        warnings.simplefilter("ignore")
        nrows = gen.build_table(tab, NL, maxlen, table_row)
    r = tlc.run("MC_Helpers", cfg=MC_CFG % maxlen, env={"TABLE_FILE": tab}, job="C20/mc", coverage=(tier == "thorough"))
    if r.invariant_violated:
        raise tlc.MachineryError("model invariant violated in MC_Helpers: %s" % r.invariant_violated)
    rep.add_tlc("MC_Helpers(MaxLen=%d)" % maxlen, r, "every series over {-2..2}: rolling average (all windows, 3 modes), step error pow 1 and 2, step levels at every split")
    rep.evaluations += nrows
    rep.exhaustive = True
    for code, clause in r.mismatches[:20000]:
        rep.fail(clause, "lattice", {"code": code, "values": [d - 3 for d in gen.decode(code, NL)],
                                     "container": ["int ndarray", "float ndarray", "list of int"][code % 3]})
    rep.sample({"lockstep": "series [-2,-2,1]: split after sample 2: both sides constant -> step error (pow 1) must be 0"})
    tr = os.path.join(wd, "trace.ndjson")
    with warnings.catch_warnings():
        warnings.simplefilter("ignore")
        meta = build_traces(tr, tier, seed)
    r2 = tlc.run("Trace_Helpers", cfg="Trace_Helpers", env={"TRACE_FILE": tr}, job="C20/trace")
    rep.add_tlc("Trace_Helpers", r2, "interpolation on all node subsets of a lattice + random; rolling average / step fit on random series; NZS 1170.5 relations")
    for t in meta:
        if t not in r2.verdicts:
            raise tlc.MachineryError("no verdict for tid %d" % t)
        rep.traces += 1
        for c in r2.verdicts[t][0]:
            rep.fail(c, "trace:" + meta[t]["kind"], meta[t])
    for t in (1, 2, len(meta)):
        rep.sample(meta[t])
    rep.assumptions = ["interp_left queries are >= the first node (documented domain)", "step levels for splits with samples on both sides",
                       "design spectra are checked as relations only (S_d = C_h T^2 Z N R, continuity to 1 %, t_eff inverse)"]
    return rep.finish(checker_cmd="tlc MC_Helpers / Trace_Helpers (harness/drivers/c20.py)",
                      trusted_base=["TLC 1.8", "FP.class", "TableIO.class", "harness/common.py enc"])

"""C16 -- saved signals load back unchanged (to the format's precision)."""
import itertools
import os
import shutil
import warnings
import numpy as np

from harness import tlc, gen
from harness.common import enc, enc_seq, workdir, write_ndjson, Report

LABELS = {1: "m1", 2: "  my label 2 "}        # spaces inside and at both ends
DTUS = [1, 100, 9999, 10000, 10625, 123456, 999999, 1000000]
MICRO = [-1500000, -1, 0, 1, 499999, 123456789]
LOADERS = ["load_values_and_dt", "load_signal(signal)", "load_signal(acc_sig)", "load_sig", "load_sig(m=2)", "load_sig(m=-3)",
           "load_asig", "load_asig(label)", "load_asig(label, m=2)", "load_asig(m=-3)"]
MC_CFG = """SPECIFICATION Spec
INVARIANT RoundTrip
INVARIANT ResaveIdempotent
INVARIANT Conforms
CHECK_DEADLOCK FALSE
"""


_CALLS = [0]


def load(k, ffp):
    """returns (values, dt, label or None, class ok, object or None, m)"""
    import eqsig
    from eqsig import loader
    name = LOADERS[k]
    _CALLS[0] += 1
    pos = _CALLS[0] % 2 == 1          # alternate documented positional order / keywords
    if name == "load_values_and_dt":
        v, dt = loader.load_values_and_dt(ffp)
        return v, dt, None, isinstance(v, np.ndarray) and isinstance(dt, float), None, 1.0
    if name == "load_signal(signal)":
        o = loader.load_signal(ffp, "signal") if pos else loader.load_signal(ffp, astype="signal")
        return o.values, o.dt, o.label, type(o) is eqsig.Signal, o, 1.0
    if name == "load_signal(acc_sig)":
        o = loader.load_signal(ffp, "acc_sig") if pos else loader.load_signal(ffp, astype="acc_sig")
        return o.values, o.dt, o.label, type(o) is eqsig.AccSignal, o, 1.0
    if name.startswith("load_sig"):
        m = {"load_sig": 1.0, "load_sig(m=2)": 2.0, "load_sig(m=-3)": -3.0}[name]
        o = (loader.load_sig(ffp, m) if pos else loader.load_sig(ffp, m=m)) if m != 1.0 else loader.load_sig(ffp)
        return o.values, o.dt, o.label, type(o) is eqsig.Signal, o, m
    m = {"load_asig": 1.0, "load_asig(label)": 1.0, "load_asig(label, m=2)": 2.0, "load_asig(m=-3)": -3.0}[name]
    lab = "label" in name
    if pos:
        o = loader.load_asig(ffp, lab, m) if m != 1.0 else (loader.load_asig(ffp, lab) if lab else loader.load_asig(ffp))
    else:
        o = loader.load_asig(ffp, load_label=lab, m=m)
    return o.values, o.dt, o.label, type(o) is eqsig.AccSignal, o, m


def configs(tier):
    out = []
    cid = 0
    for npts in (1, 2, 3):
        tuples = list(itertools.product(MICRO, repeat=npts))
        if npts == 3 and tier == "quick":
            tuples = tuples[::5]
        for vals in tuples:
            for dtu in DTUS:
                cid += 1
                out.append((cid, 1 + (cid % 2), dtu, list(vals)))
    return out


def build_tables(wd, tier):
    import eqsig
    from eqsig import loader
    tmp = os.path.join(wd, "tmp")
    shutil.rmtree(tmp, ignore_errors=True)
    os.makedirs(tmp)
    cfgs = configs(tier)
    cfgp, impp = os.path.join(wd, "config.txt"), os.path.join(wd, "impl.txt")
    ffp, ffp2 = os.path.join(tmp, "sig.txt"), os.path.join(tmp, "sig2.txt")
    with open(cfgp, "w") as fc, open(impp, "w") as fi:
        for cid, lab, dtu, vals in cfgs:
            fc.write(" ".join(map(str, [cid, lab, dtu, len(vals)] + vals)) + "\n")
            x = np.array(vals, dtype=float) * 1e-6
            dt = dtu * 1e-4
            sig = eqsig.AccSignal(x, dt, label=LABELS[lab])
            loader.save_signal(ffp, sig)
            text = open(ffp).read()
            for k in range(len(LOADERS)):
                row = [cid, k + 1]
                try:
                    with warnings.catch_warnings():
                        warnings.simplefilter("ignore")
                        v, dt2, label, cls_ok, o, m = load(k, ffp)
                        v = np.asarray(v, dtype=float)
                        n2 = int(v.size) if v.ndim > 0 else -1       # a 0-d array is not a record of length 1
                        label_ok = True if label is None else (label == (LABELS[lab] if "label" in LOADERS[k] else "m1"))
                        same = 1
                        if o is not None and m == 1.0:
                            o.label = LABELS[lab]
                            loader.save_signal(ffp2, o)
                            same = 1 if open(ffp2).read() == text else 0
                        row += [0, n2, int(round(dt2 * 1e4)), int(bool(label_ok)), int(bool(cls_ok)), same]
                        row += [int(round(float(y) * 1e6)) for y in np.atleast_1d(v)]
                except Exception as ex:
                    row += [1, 0, 0, 0, 0, 0]
                fi.write(" ".join(map(str, row)) + "\n")
    shutil.rmtree(tmp, ignore_errors=True)
    return cfgs


def build_traces(wd, path, tier, seed):
    import eqsig
    from eqsig import loader
    rng = np.random.default_rng(seed + 16)
    tmp = os.path.join(wd, "tmp")
    os.makedirs(tmp, exist_ok=True)
    ffp = os.path.join(tmp, "t.txt")
    recs, meta = [], {}
    nrec = 60 if tier == "quick" else 500
    for tid in range(1, nrec + 1):
        n = int(rng.integers(1, 40)) if tid % 3 else gen.length(rng, 1, 1500)
        if tid == nrec - 1:
            n = int(rng.choice([8193, 9000, 16385, 20001]))          # a long record (an hour at 5 Hz, 80 s at 100 Hz ...): writers work in blocks
        mag = 10.0 ** rng.uniform(-7, 9)
        x = rng.standard_normal(n) * mag
        if tid % 5 == 0:
            x[rng.integers(n)] = 0.0
        if tid % 7 == 0:
            x = np.round(x, 6) + rng.choice([0.5e-6, -0.5e-6, 0.0], size=n)       # close to rounding boundaries
        if rng.integers(5) == 0:
            # whole numbers (digitiser counts, round amplitudes): multiples of 10, 100, 1000 among them, zeros, signs
            x = (rng.integers(-300, 301, size=n) * 10.0 ** rng.integers(0, 4, size=n)).astype(float)
            if rng.integers(2):
                x[rng.integers(n)] = float(rng.choice([10.0, -20.0, 1000.0, 100.0, -10.0, 0.0]))
        dt = float([10.0 ** rng.uniform(-4, 2), 1.0, 1.5, 10.0, 100.0, 0.01, 0.9999, 0.0001, 2.0][tid % 9])
        dt = min(max(dt, 1e-4), 100.0)
        label = ["m1", "rec 7 east", "a b  c", "  padded column name", "station 12 EW   ", "x", "D\u00fczce 1999 NS", "\u795e\u6238 EW", "", " ", "   ", "\t",
                 "1995 6.9", "2011 9", "7 0.5", "12", "3.5", "1999 0.01 NS", "-4 1e-3", "0 0"][int(rng.integers(20))]      # incl. no label at all / blanks only / labels that read like numbers (year and magnitude, a count and a step)
        cls = eqsig.AccSignal if tid % 2 else eqsig.Signal
        if tid % 4 == 3:
            loader.save_values_and_dt(ffp, x if tid % 8 == 3 else x.tolist(), dt, label)     # array-level saver, positional order
        else:
            loader.save_signal(ffp, cls(x, dt, label=label))
        k = int(rng.integers(len(LOADERS)))
        if rng.integers(3) == 0:
            # history: the file was already loaded (through some entry point) and the caller changed what it was handed
            # -- the file itself is untouched, the next load returns its content again
            try:
                with warnings.catch_warnings():
                    warnings.simplefilter("ignore")
                    v0 = load(int(rng.integers(len(LOADERS))), ffp)[0]
                    if isinstance(v0, np.ndarray) and v0.ndim == 1 and v0.flags.writeable:
                        v0 *= 9.81
                        v0 += 1.0
            except Exception:
                pass
        raised, n2, dt2, y, lab_ok, cls_ok, m = False, 0, 0.0, [], False, False, 1.0
        try:
            with warnings.catch_warnings():
                warnings.simplefilter("ignore")
                v, dt2, lab, cls_ok, o, m = load(k, ffp)
                if "m=" in LOADERS[k] and rng.integers(2):
                    # any load factor, not only whole numbers: small, fractional, g
                    m = float(rng.choice([0.01, -0.25, 9.81, 1.0e-3, 2.5, -0.001]))
                    o = loader.load_sig(ffp, m=m) if LOADERS[k].startswith("load_sig") else loader.load_asig(ffp, load_label="label" in LOADERS[k], m=m)
                    v, dt2, lab = o.values, o.dt, o.label
                v = np.asarray(v, dtype=float)
                n2 = int(v.size) if v.ndim > 0 else -1
                y = np.atleast_1d(v)
                lab_ok = True if lab is None else (lab == (label if "label" in LOADERS[k] else "m1"))
        except Exception as ex:
            raised = True
        recs.append({"tid": tid, "dt": enc(dt), "x": enc_seq(x), "loader": LOADERS[k], "m": enc(m), "raised": raised, "npts2": n2,
                     "dt2": enc(float(dt2)), "y": enc_seq(y), "label_ok": bool(lab_ok), "class_ok": bool(cls_ok)})
        meta[tid] = {"n": n, "dt": dt, "label": label, "loader": LOADERS[k], "x_head": [float(t) for t in x[:4]], "dt_loaded": float(dt2), "raised": raised}
    shutil.rmtree(tmp, ignore_errors=True)
    write_ndjson(path, recs)
    return meta


def run(tier, seed):
    rep = Report("C16", tier, seed)
    wd = workdir("C16")
    cfgs = build_tables(wd, tier)
    r = tlc.run("TextFormat", cfg=MC_CFG, env={"CONFIG_FILE": os.path.join(wd, "config.txt"), "IMPL_FILE": os.path.join(wd, "impl.txt")},
                job="C16/mc", coverage=(tier == "thorough"))
    if r.invariant_violated:
        raise tlc.MachineryError("model invariant violated in TextFormat: %s" % r.invariant_violated)
    rep.add_tlc("TextFormat", r, "npts 1..3 x 8 time steps (1e-4 .. 100 s) x 6 micro-values x 10 loader entry points; New -> Save -> Load -> Resave; real files written and read back")
    rep.evaluations += len(cfgs) * len(LOADERS)
    rep.exhaustive = (tier == "thorough")
    for code, clause in r.mismatches[:4000]:
        cid, k = (code - 1) // len(LOADERS), (code - 1) % len(LOADERS)
        _, lab, dtu, vals = cfgs[cid]
        rep.fail(clause, LOADERS[k], {"config": cid + 1, "loader": LOADERS[k], "dt": dtu * 1e-4, "values": [v * 1e-6 for v in vals], "label": LABELS[lab]})
    rep.sample({"config": 9, "file": "label / '2 1.5000' / '-1.500000' / '0.000001'", "loaders": LOADERS})
    tr = os.path.join(wd, "trace.ndjson")
    meta = build_traces(wd, tr, tier, seed)
    r2 = tlc.run("Trace_TextFormat", cfg="Trace_TextFormat", env={"TRACE_FILE": tr}, job="C16/trace")
    rep.add_tlc("Trace_TextFormat", r2, "random floats |x| up to 1e9, dt in [1e-4, 100], labels with spaces, random loader")
    for t in meta:
        if t not in r2.verdicts:
            raise tlc.MachineryError("no verdict for tid %d" % t)
        rep.traces += 1
        for c in r2.verdicts[t][0]:
            rep.fail(c, meta[t]["loader"], meta[t])
    for t in (1, 2, 3):
        rep.sample(meta[t])
    rep.assumptions = ["exhaustive part compares in integer micro-units / 1e-4 time-step units (values already on the format's grid)",
                       "a 0-d result for a one-sample file is not a record of length 1"]
    # histories: the files as a state machine (spec/FileStore.tla), behaviours replayed on real files, sessions validated by
    # Trace_FileStore which carries what every path holds
    from harness import filestore
    filestore.run(rep, tier, seed, "C16/store", LOADERS, load)
    return rep.finish(checker_cmd="tlc TextFormat / Trace_TextFormat / FileStore / Trace_FileStore (harness/drivers/c16.py, harness/filestore.py)",
                      trusted_base=["TLC 1.8", "FP.class", "TableIO.class", "the file system under /verif/work"])

"""C08 -- velocity/displacement are cumulative trapezoid integrals; peaks are max abs."""
import numpy as np

from harness import tlc, gen
from harness.common import enc, enc_seq, dec, workdir, write_ndjson, Report
import os

LEVELS = [-1.0, -0.5, 0.0, 0.5, 1.5]
DTS = [0.5, 2.0]

MC_CFG = """SPECIFICATION Spec
CONSTANT MaxLen = %d
INVARIANT StartZero
INVARIANT Twin
INVARIANT Linear
INVARIANT PeakLaws
INVARIANT ExactForLinearAcc
INVARIANT Conforms
CHECK_DEADLOCK FALSE
"""


READS = ["pga", "pgv", "pgd", "velocity", "displacement"]


def read_object(o, k):
    """Read the five derived quantities of an AccSignal in the k-th order (all 120 orders occur), then
    read each a second time; what is returned is the LAST value read (reads must be idempotent and must
    not disturb each other)."""
    import itertools
    order = list(itertools.permutations(READS))[k % 120]
    got = {}
    for name in order:
        got[name] = getattr(o, name)
    between_reads(o, k)
    for name in order[::-1]:
        got[name] = getattr(o, name)
    return got


def between_reads(o, k):
    """Between the two passes of reads the object is handed to analysis functions and shallow-copied (the copy then gets a
    record of its own and is read): none of this may disturb what the object itself reports."""
    import copy
    import warnings
    from eqsig import im, sdof
    fns = [im.calc_integral_of_abs_velocity, im.calc_cumulative_abs_displacement, im.calc_integral_of_abs_acceleration,
           im.calc_arias_intensity, im.calc_cav, im.calc_isv, im.calc_unit_kinetic_energy,
           lambda s: sdof.calc_resp_uke_spectrum(s, periods=np.array([0.3, 1.0])),
           lambda s: sdof.calc_input_energy_spectrum(s, periods=np.array([0.2, 0.7]))]
    with warnings.catch_warnings():
        warnings.simplefilter("ignore")
        for j in range(3):
            try:
                fns[(k + 4 * j) % len(fns)](o)
            except Exception:
                pass                # whether a measure accepts this record is not this property's business
        if k % 3 == 0:
            twin = copy.copy(o)
            twin.reset_values(np.asarray(o.values, dtype=float)[::-1] * 3.0 + 1.0)
            _ = (twin.pgd, twin.pga, twin.pgv, twin.velocity, twin.displacement)


def table_row(code, digits):
    import eqsig
    from eqsig.displacements import calc_velo_and_disp_from_accel_arr as f
    from eqsig import im
    a = np.array(LEVELS)[np.array(digits) - 1]
    row = [code]
    if len(a) >= 2:
        for dt in DTS:
            v, d = f(a.copy(), dt, trap=True)
            v2, d2 = f(a.copy(), dt, trap=False)
            o = eqsig.AccSignal(a.copy(), dt)
            ob = read_object(o, code)
            fl = [v[-1], d[-1], im.calc_peak(a), im.calc_peak(v), im.calc_peak(d), v2[-1], d2[-1],
                  ob["velocity"][-1], ob["displacement"][-1], ob["pga"], ob["pgv"], ob["pgd"]]
            for x in fl:
                row += enc(x)
    return row


def build_table(path, maxlen):
    return gen.build_table(path, len(LEVELS), maxlen, table_row)


def series_record(tid, fn, a, dt, trap, rng):
    import eqsig
    from eqsig.displacements import calc_velo_and_disp_from_accel_arr as f
    from eqsig import im
    rec = {"tid": tid, "kind": "series", "fn": fn, "dt": enc(dt), "trap": bool(trap), "a": enc_seq(np.asarray(a, dtype=float))}
    if fn == "arr":
        v, d = f(a.copy() if rng.random() < 0.7 else a.tolist() if trap else a.copy(), dt, trap=trap)
        import warnings
        with warnings.catch_warnings():
            warnings.simplefilter("ignore")
            pk = im.calc_peak if len(a) % 2 else im.calculate_peak           # deprecated alias
            rec.update(v=enc_seq(v), d=enc_seq(d), haspeaks=True, pga=enc(pk(a)), pgv=enc(pk(v)), pgd=enc(pk(d)))
    elif fn == "arr2":     # the alias entry point, list input
        from eqsig.displacements import velocity_and_displacement_from_acceleration as g
        v, d = g(np.array(a), dt, trap=trap)
        rec.update(v=enc_seq(v), d=enc_seq(d), haspeaks=False)
    else:
        if fn == "obj_hist":
            # history: the object held another record, whose derived quantities were read, before it got this one
            other = np.cos(np.arange(len(a)) / 3.0) * (np.max(np.abs(a)) + 1.0)
            o = eqsig.AccSignal(other if rng.random() < 0.5 else np.concatenate([other, other[:3]]), dt)
            _ = (o.velocity[-1], o.pgd, o.displacement[-1], o.pgv)
            if len(o.values) == len(a) and rng.random() < 0.5:
                o.add_series(np.asarray(a, dtype=float) - o.values)
            else:
                o.reset_values(a.copy())
            a = np.asarray(o.values, dtype=float)
            rec["a"] = enc_seq(a)
        elif fn == "obj" and rng.random() < 0.4:
            # history: the object held a record that differs from this one by a few parts in a million in every sample, and
            # its derived quantities were read
            af = np.asarray(a, dtype=float)
            o = eqsig.AccSignal(af * (1.0 - 3e-6) - 1e-6 * (np.max(np.abs(af)) + 1e-300), dt)
            _ = (o.pgv, o.velocity[-1], o.pgd, o.displacement[-1], o.pga)
            if rng.random() < 0.5:
                o.reset_values(af.copy())
            else:
                o.add_series(af - np.asarray(o.values, dtype=float))
            a = np.asarray(o.values, dtype=float)
            rec["a"] = enc_seq(a)
        elif fn == "obj_inplace":
            # history: series and peaks were read (under either rule), then the record was changed IN PLACE through the public API:
            # the array handed out by .values edited and handed back, a residual correction, a displacement re-basing.  Afterwards
            # the default (trapezoid) rule applies to the record the object holds now.
            af = np.asarray(a, dtype=float)
            if not (np.max(np.abs(af)) > 0):
                af = af + 1.0
            o = eqsig.AccSignal(af.copy(), dt)
            if rng.random() < 0.5:
                o.generate_displacement_and_velocity_series(trap=False)
            _ = (o.pgv, o.velocity[-1], o.pgd, o.displacement[-1], o.pga)
            how = int(rng.integers(5))
            import warnings as _w
            with _w.catch_warnings():
                _w.simplefilter("ignore")
                if how == 0:
                    v_ = o.values
                    v_[len(v_) // 3:] *= 1.5
                    o.reset_values(v_)
                elif how == 1:
                    o.set_zero_residual_velocity()
                elif how == 2:
                    o.set_zero_residual_displacement()
                elif how == 3:
                    o.rebase_displacement()
                else:
                    v_ = o.values
                    v_ += 0.25 * float(np.max(np.abs(v_)))
                    o.reset_values(v_)
            a = np.asarray(o.values, dtype=float)
            rec["a"] = enc_seq(a)
            rec["trap"] = True
            trap = True
            rec["fn"] = "obj"
        else:
            o = eqsig.AccSignal(a.copy(), dt)
        # the integration rule is switched on the object in every order, with and without peaks read in between
        r_ = rng.random() if fn != "obj_inplace" else 1.0
        if not trap:
            if r_ < 0.3:
                _ = (o.pgv, o.pgd)
            elif r_ < 0.5:
                o.generate_displacement_and_velocity_series(trap=True)
            o.generate_displacement_and_velocity_series(trap=False)
        elif r_ < 0.35:
            o.generate_displacement_and_velocity_series(trap=False)
            if r_ < 0.2:
                _ = (o.pgd, o.pgv, o.velocity[-1])
            if r_ < 0.1:
                o.generate_displacement_and_velocity_series()
            else:
                o.generate_displacement_and_velocity_series(trap=True)
        ob = read_object(o, int(rng.integers(120)))      # read order varies over all permutations
        v, d, pk = ob["velocity"], ob["displacement"], (ob["pga"], ob["pgv"], ob["pgd"])
        rec.update(v=enc_seq(v), d=enc_seq(d), haspeaks=True, pga=enc(pk[0]), pgv=enc(pk[1]), pgd=enc(pk[2]))
    return rec


def linear_record(tid, a, b, alpha, beta, dt):
    import eqsig
    from eqsig.displacements import calc_velo_and_disp_from_accel_arr as f
    from eqsig import im
    c = alpha * a + beta * b
    va, da = f(a, dt)
    vb, db = f(b, dt)
    vc, dc = f(c, dt)
    sa = alpha * a
    vsa, dsa = f(sa, dt)
    vna, dna = f(-a, dt)
    pk = lambda x, v, d: [enc(im.calc_peak(x)), enc(im.calc_peak(v)), enc(im.calc_peak(d))]
    return {"tid": tid, "kind": "linear", "dt": enc(dt), "alpha": enc(alpha), "beta": enc(beta),
            "a": enc_seq(a), "b": enc_seq(b), "va": enc_seq(va), "vb": enc_seq(vb), "vc": enc_seq(vc),
            "da": enc_seq(da), "db": enc_seq(db), "dc": enc_seq(dc),
            "pva": enc(np.max(np.abs(va))), "pvb": enc(np.max(np.abs(vb))),
            "pda": enc(np.max(np.abs(da))), "pdb": enc(np.max(np.abs(db))),
            "pk_a": pk(a, va, da), "pk_sa": pk(sa, vsa, dsa), "pk_na": pk(-a, vna, dna)}


def build_traces(path, tier, seed):
    rng = np.random.default_rng(seed + 8)
    nser = 56 if tier == "quick" else 280
    nlin = 12 if tier == "quick" else 60
    nmax = 1500 if tier == "quick" else 5000
    recs, meta = [], {}
    tid = 0
    for i in range(nser):
        n = gen.length(rng, 2, nmax)
        a, shape = gen.record(rng, n)
        if rng.random() < 0.15:
            a = np.round(a * 100)  # integer-valued floats
        dt = gen.dt(rng)
        fn = ["arr", "obj", "arr", "obj_hist", "arr2", "obj", "obj_inplace"][i % 7]
        trap = (i % 3) != 2
        if i % 4 == 1:               # integer dtype record (counts): the integrals are fractional
            a = np.round(a / (np.max(np.abs(a)) + 1e-300) * 50).astype(np.int64)
        elif i % 4 == 3 and rng.integers(2):
            # counts in a narrow integer dtype (int8 / int16 / int32 / uint8), also with a whole-number time step
            dt_, top = [(np.int8, 100), (np.int16, 30000), (np.int32, 2.0e9), (np.uint8, 250)][int(rng.integers(4))]
            a = np.abs(a) if dt_ is np.uint8 else np.asarray(a, dtype=float)
            a = np.round(a / (np.max(np.abs(a)) + 1e-300) * top).astype(dt_)
            shape += " (%s counts)" % np.dtype(dt_).name
            if dt_ is not np.uint8 and rng.integers(2):
                # the most negative count of the type (it has no absolute value in the type itself) is the record's peak
                a[int(rng.integers(n))] = np.iinfo(dt_).min
                shape += " with the most negative count"
                fn = "obj"
            if rng.integers(2):
                dt = int(rng.integers(1, 4))
        elif i not in (6, 20, 34, 48) and rng.integers(6) == 0:
            # records held in single / half precision, riding on an offset (the running integrals soon dwarf their increments):
            # the integrals are those of the stored samples, accumulated in double precision
            ft_ = [np.float32, np.float16, np.float32][int(rng.integers(3))]
            a = (np.asarray(a, dtype=float) / (np.max(np.abs(a)) + 1e-300) * float(rng.uniform(0.2, 3.0)) + float(rng.choice([0.5, -2.0, 0.0]))).astype(ft_)
            shape += " (%s)" % np.dtype(ft_).name
        elif i in (6, 20, 34, 48) or rng.integers(8) == 0:   # magnitudes whose squares leave the double range (2^-560 .. 2^520): |x| itself is ordinary
            #                                                   (four fixed positions of every run, tiny and huge alternating, through the object)
            a = np.asarray(a, dtype=float)
            if not np.max(np.abs(a)) > 0:
                a = a + 1.0
            a = a / (np.max(np.abs(a)) + 1e-300) * float(2.0 ** ([-560, 520, -400, 380][(i // 14) % 4] if i in (6, 20, 34, 48) else rng.choice([-560, -400, 380, 520])))
            shape += " (extreme magnitude)"
        tid += 1
        recs.append(series_record(tid, fn, a, dt, trap, rng))
        meta[tid] = {"kind": "series", "fn": fn, "n": n, "shape": shape, "dt": dt, "trap": trap, "a_head": [float(x) for x in a[:6]]}
    for i in range(nlin):
        n = gen.length(rng, 2, nmax)
        a, s1 = gen.record(rng, n)
        b, s2 = gen.record(rng, n)
        alpha = float(rng.choice([-3.0, 0.1, 7.0, -1.0, rng.uniform(-5, 5)]))
        beta = float(rng.choice([2.0, -0.5, 1.0, rng.uniform(-5, 5)]))
        dt = gen.dt(rng)
        tid += 1
        recs.append(linear_record(tid, a, b, alpha, beta, dt))
        meta[tid] = {"kind": "linear", "n": n, "shapes": [s1, s2], "alpha": alpha, "beta": beta, "dt": dt}
    write_ndjson(path, recs)
    return meta


def run(tier, seed):
    rep = Report("C08", tier, seed)
    wd = workdir("C08")
    maxlen = 6 if tier == "quick" else 8
    # 1. exhaustive lattice + lock-step table (spec -> code)
    tab = os.path.join(wd, "table.ndjson")
    nrows = build_table(tab, maxlen)
    r = tlc.run("MC_Integrate", cfg=MC_CFG % maxlen, env={"TABLE_FILE": tab}, job="C08/mc", coverage=(tier == "thorough"))
    rep.add_tlc("MC_Integrate(MaxLen=%d)" % maxlen, r, "all records over 5 dyadic levels x 2 dt; implementation table in lock-step")
    if r.invariant_violated:
        raise tlc.MachineryError("model invariant violated in MC_Integrate: %s" % r.invariant_violated)
    rep.evaluations += nrows
    rep.exhaustive = True
    for code, clause in r.mismatches[:2000]:
        digits = gen.decode(code, len(LEVELS))
        rep.fail(clause, "lattice", {"code": code, "a": [LEVELS[k - 1] for k in digits], "dts": DTS})
    rep.count("lockstep_states", r.distinct)
    rep.sample({"lockstep": "record [-1, 0.5, 1.5] dt=0.5 -> table row compared with machine state in the TLC state reached by that record"})
    # 2. recorded executions (code -> spec)
    tr = os.path.join(wd, "trace.ndjson")
    meta = build_traces(tr, tier, seed)
    r2 = tlc.run("Trace_Integrate", cfg="Trace_Integrate", env={"TRACE_FILE": tr}, job="C08/trace")
    rep.add_tlc("Trace_Integrate", r2, "one chain per recorded call, one sample per step")
    missing = [t for t in meta if t not in r2.verdicts]
    if missing:
        raise tlc.MachineryError("no verdict for tids %s" % missing[:10])
    for t, (cl, n) in sorted(r2.verdicts.items()):
        rep.traces += 1
        for c in cl:
            rep.fail(c, meta[t].get("fn", "linear"), meta[t])
        if t <= 3 or meta[t]["kind"] == "linear" and len(rep.samples) < 5:
            rep.sample(meta[t])
    rep.assumptions = ["lattice part: levels {-1,-.5,0,.5,1.5}, dt in {0.5,2}, exact arithmetic",
                       "float traces: increment identity checked to 8 eps of the operands (bitwise today)",
                       "rectangle rule accepted with the integrand at either end of the panel, consistently per series"]
    return rep.finish(checker_cmd="tlc MC_Integrate / Trace_Integrate (see harness/drivers/c08.py)",
                      trusted_base=["TLC 1.8", "FP.class", "harness/common.py enc"])

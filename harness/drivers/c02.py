"""C02 -- the response operator is linear, causal, shift- and refinement-invariant."""
import os
import warnings
import numpy as np

from harness import tlc, gen
from harness.common import enc, enc_seq, workdir, write_ndjson, Report
from harness.drivers import c01


def build_traces(path, tier, seed):
    import eqsig
    from eqsig import sdof
    from eqsig.fns import time_step as tp
    rng = np.random.default_rng(seed + 2)
    recs, meta = [], {}
    tid = 0

    def add(rec, m):
        nonlocal tid
        tid += 1
        rec["tid"] = tid
        recs.append(rec)
        meta[tid] = m

    def same(clause, x, y, m, tol=1e-12):
        x, y = np.ravel(np.asarray(x, dtype=float)), np.ravel(np.asarray(y, dtype=float))
        add({"kind": "rel", "law": "same", "clause": clause, "tol": enc(tol), "scale": enc(float(np.max(np.abs(x))) + 1e-300 if x.size else 1.0),
             "x": enc_seq(x), "y": enc_seq(y)}, dict(m, law=clause))

    def lin(clause, f, x, g, y, z, m, tol, scale):
        add({"kind": "rel", "law": "lin", "clause": clause, "tol": enc(tol), "scale": enc(scale), "f": enc(f), "g": enc(g),
             "x": enc_seq(np.ravel(x)), "y": enc_seq(np.ravel(y)), "z": enc_seq(np.ravel(z))}, dict(m, law=clause))

    nev = 30 if tier == "quick" else 250
    nmax = 300 if tier == "quick" else 800
    for i in range(nev):
        n = gen.length(rng, 3, nmax)
        dt = gen.dt(rng)
        a, sa = gen.record(rng, n, amp=1.0)
        b, sb = gen.record(rng, n, amp=1.0)
        if i % 3 == 0:        # different numbers of exact leading zeros in the two records
            a[: int(rng.integers(1, max(2, n // 3)))] = 0.0
            b[: int(rng.integers(0, 2))] = 0.0
        nper = int(rng.integers(1, 5))
        regs = [c01.regime(rng, i * 5 + k) for k in range(nper)]
        xi = regs[0][1]
        periods = np.array([r * dt for r, _ in regs])
        lead0 = i % 4 == 2
        if lead0:
            periods = np.concatenate([[0.0], periods])
        m = {"n": n, "dt": dt, "xi": xi, "T_over_dt": (periods / dt).tolist(), "shapes": [sa, sb]}
        fn = [sdof.response_series, sdof.nigam_and_jennings_response][i % 2]
        ra, rb = fn(a, dt, periods, xi), fn(b, dt, periods, xi)
        # linearity (per series and period, relative to the peaks of the two responses)
        alpha, beta = float(rng.choice([-2.0, 0.5, 3.0])), float(rng.choice([-2.0, 0.5, 3.0]))
        rc = fn(alpha * a + beta * b, dt, periods, xi)
        for s in range(3):
            for k in range(len(periods)):
                scale = abs(alpha) * float(np.max(np.abs(ra[s][k]))) + abs(beta) * float(np.max(np.abs(rb[s][k]))) + 1e-300
                # "to rounding": rounding is relative to the operands of the recurrence, i.e. to the natural size of the series
                # (|a|max/w^2, |a|max/w, |a|max), which a heavily damped very short period oscillator (T/dt = 0.2, xi -> 1) falls
                # below by e^{-xi w dt} = 1e-13 per step; 1e-9 * 1e-7 = 1e-16 of that size is admitted on top
                w_ = 2 * np.pi / periods[k] if periods[k] > 0 else 1.0
                nat = (abs(alpha) * float(np.max(np.abs(a))) + abs(beta) * float(np.max(np.abs(b)))) * [1.0 / w_ ** 2, 1.0 / w_, 1.0][s]
                scale += 1e-7 * nat
                lin("Linear", alpha, ra[s][k], beta, rb[s][k], rc[s][k], dict(m, series=s, period=k, alpha=alpha, beta=beta), 1e-9, scale)
        # spectra scale by |alpha| and ignore the sign
        for spec_fn, nme in ((sdof.pseudo_response_spectra, "pseudo"), (sdof.true_response_spectra, "true")):
            s1 = spec_fn(a, dt, periods, xi)
            s2 = spec_fn(alpha * a, dt, periods, xi)
            s3 = spec_fn(-a, dt, periods, xi)
            for q in range(3):
                # "to rounding" is relative to the natural size of the response (|a|max / w^2, / w, 1), as for the Linear clause: for
                # xi = 0 and T/dt = 1/5, 1 ... the exact response vanishes at the sample instants and the reported spectrum of a
                # constant record is rounding noise (1e-16 of that size), which does not scale with alpha
                w_min = 2 * np.pi / max(float(np.max(periods)), 1e-300)
                nat = float(np.max(np.abs(a))) * [1.0 / w_min ** 2, 1.0 / w_min, 1.0][q]
                sc = abs(alpha) * (float(np.max(np.abs(s1[q]))) + 1e-7 * nat) + 1e-300
                if q < 2 and float(np.max(np.abs(s1[q]))) < 1e-6 * nat:
                    continue          # the spectrum itself is rounding noise here (nothing to scale)
                lin("SpectraHomogeneous", abs(alpha), s1[q], 0.0, s1[q], s2[q], dict(m, fn=nme, q=q), 1e-9, sc)
                lin("SpectraHomogeneous", 1.0, s1[q], 0.0, s1[q], s3[q], dict(m, fn=nme, q=q, sign=True), 1e-12, float(np.max(np.abs(s1[q]))) + 1e-4 * nat + 1e-300)
        # causality: change the record after index j
        j = int(rng.integers(0, n - 1))
        a2 = a.copy()
        a2[j + 1:] = rng.standard_normal(n - j - 1) * 3
        r2 = fn(a2, dt, periods, xi)
        for s in range(3):
            same("Causal", np.asarray(ra[s])[:, : j + 1], np.asarray(r2[s])[:, : j + 1], dict(m, split=j, series=s))
        # shift: record starting at zero, k zeros prepended
        az = a.copy()
        az[0] = 0.0
        k = int(rng.integers(1, 30))
        r0 = fn(az, dt, periods, xi)
        rk = fn(np.concatenate([np.zeros(k), az]), dt, periods, xi)
        for s in range(2):
            same("Shift", np.concatenate([np.zeros((len(periods), k)), np.asarray(r0[s])], axis=1), rk[s], dict(m, k=k, series=s))
        # permutation (a leading zero period stays leading) and batching
        idx = np.arange(len(periods))
        body = idx[1:] if lead0 else idx
        perm = np.concatenate([[0], rng.permutation(body)]) if lead0 else rng.permutation(body)
        rp = fn(a, dt, periods[perm], xi)
        for s in range(3):
            same("PermIndependent", np.asarray(ra[s])[perm], rp[s], dict(m, perm=perm.tolist(), series=s))
        sp = sdof.pseudo_response_spectra(a, dt, periods, xi)
        spp = sdof.pseudo_response_spectra(a, dt, periods[perm], xi)
        for q in range(3):
            same("PermIndependent", np.asarray(sp[q])[perm], spp[q], dict(m, perm=perm.tolist(), spectra=q))
        if len(periods) >= 2:
            cut = int(rng.integers(1, len(periods)))
            parts = [periods[:cut], periods[cut:]]
            if parts[1][0] == 0:
                parts = [periods]
            rows = [np.concatenate([np.asarray(fn(a, dt, p, xi)[s]) for p in parts], axis=0) for s in range(3)]
            for s in range(3):
                same("BatchIndependent", ra[s], rows[s], dict(m, cut=cut, series=s))
            tsp = sdof.true_response_spectra(a, dt, periods, xi)
            tparts = [sdof.true_response_spectra(a, dt, p, xi) for p in parts]
            for q in range(3):
                same("BatchIndependent", tsp[q], np.concatenate([np.asarray(t[q]) for t in tparts]), dict(m, cut=cut, true_spectra=q))
        # integer-typed period containers, with and without a leading 0: each period's result depends on that period only
        if i % 3 == 1:
            ip = [[0, 1, 2, 3], np.array([0, 2, 1]), (1, 3), [0, 1]][i % 4]
            fl = [float(t) for t in ip]
            nz = [t for t in fl if t > 0]
            dti = 0.01 if dt > 0.05 else dt
            for spec_fn, nme in ((sdof.pseudo_response_spectra, "pseudo"), (sdof.true_response_spectra, "true")):
                try:
                    si = spec_fn(a, dti, ip, xi)
                except TypeError:
                    continue            # container not accepted by this entry point (C03 asserts acceptance)
                sf = spec_fn(a, dti, np.array(fl), xi)
                sz = spec_fn(a, dti, np.array(nz), xi)
                for q in range(3):
                    same("BatchIndependent", sf[q], si[q], dict(m, int_periods=str(ip), fn=nme, q=q))
                    same("BatchIndependent", sz[q], np.asarray(si[q])[[k for k, t in enumerate(fl) if t > 0]], dict(m, int_periods=str(ip), fn=nme, q=q, without_zero=True))
            ri = fn(a, dti, ip, xi)
            rf = fn(a, dti, np.array(fl), xi)
            for s_ in range(3):
                same("BatchIndependent", rf[s_], ri[s_], dict(m, int_periods=str(ip), series=s_))
        # call history: the same call repeated after a call that shares dt, xi, the number of periods and the end periods
        if len(periods) >= 3 and not lead0:
            mid = periods.copy()
            mid[1:-1] = mid[1:-1][::-1] * (1.0 if len(periods) > 3 else 1.07)
            for spec_fn in (sdof.pseudo_response_spectra, sdof.true_response_spectra):
                first = spec_fn(a, dt, periods, xi)
                spec_fn(a, dt, mid, xi)
                again = spec_fn(a, dt, periods, xi)
                other = spec_fn(a, dt, mid, xi)
                singles = [spec_fn(a, dt, np.array([T]), xi) for T in mid]
                for q in range(3):
                    same("BatchIndependent", first[q], again[q], dict(m, history="repeat", q=q))
                    same("BatchIndependent", np.array([sg[q][0] for sg in singles]), other[q], dict(m, history="interior changed", q=q))
            r_mid = fn(a, dt, mid, xi)
            r_single = [fn(a, dt, np.array([T]), xi) for T in mid]
            for s_ in range(3):
                same("BatchIndependent", np.concatenate([np.asarray(rs[s_]) for rs in r_single], axis=0), r_mid[s_], dict(m, history="interior changed", series=s_))
        # refinement by an integer factor (keeping r*T/dt <= 2e4)
        r = int(rng.integers(2, 9))
        keep = [kk for kk, T in enumerate(periods) if T > 0 and r * T / dt <= 2e4]
        if keep and n <= 600:
            fine = np.interp(np.arange((n - 1) * r + 1) / r, np.arange(n), a)
            mo = n            # number of original instants covered by the refined record
            if i % 2:
                # the library's own refiner (default even=True drops a sample when the refined count is odd: the response is
                # then compared on the instants that remain -- the operator is causal)
                ev_ = bool(rng.integers(2))
                fine2, dtf = tp.interp_array_to_approx_dt(a, dt, dt / r * (1 + 1e-9), even=ev_) if not ev_ else tp.interp_array_to_approx_dt(a, dt, dt / r * (1 + 1e-9))
                if abs(dtf - dt / r) < 1e-12 * dt and len(fine2) >= len(fine) - 1:
                    fine = np.asarray(fine2)[: len(fine)]
                    mo = (len(fine) - 1) // r + 1
            pk = periods[keep]
            rf = fn(fine, dt / r, pk, xi)
            for kk, T in enumerate(pk):
                add({"kind": "refine", "T": enc(T), "xi": enc(xi), "dt": enc(dt), "r": r, "a": enc_seq(a[:mo]),
                     "u0": enc_seq(ra[0][keep[kk]][:mo]), "v0": enc_seq(ra[1][keep[kk]][:mo]), "ur": enc_seq(rf[0][kk][::r][:mo]), "vr": enc_seq(rf[1][kk][::r][:mo])},
                    dict(m, law="RefineInvariant", r=r, period=keep[kk]))
            s0 = sdof.pseudo_response_spectra(a[:mo], dt, pk, xi)
            s1 = sdof.pseudo_response_spectra(fine, dt / r, pk, xi)
            for q in range(3):
                # below 6 time steps the reported S_a is the PGA by rule (C03); refinement moves that threshold, so the
                # "never decrease" consequence is asserted for S_a only where both computations report w^2 S_d
                sel = np.ones(len(pk), dtype=bool) if q < 2 else (pk >= 6 * dt)
                if sel.any():
                    add({"kind": "rel", "law": "geq", "clause": "SpectraMonotoneUnderRefine", "tol": enc(1e-5), "scale": enc(1.0),
                         "x": enc_seq(np.asarray(s0[q])[sel]), "y": enc_seq(np.asarray(s1[q])[sel])}, dict(m, law="SpectraMonotoneUnderRefine", r=r, q=q))
    # one LARGE job (many periods x a long record, > 4 M cells): a sub-batch of its periods and a truncation of its record must
    # reproduce the corresponding rows / prefixes (sampled cells are compared)
    for j in range(1 if tier == "quick" else 3):
        nper, nlong = [(1300, 3400), (2100, 2100), (300, 15000)][j]
        dt = 0.01
        a = rng.standard_normal(nlong)
        periods = np.sort(rng.uniform(0.05, 4.0, size=nper))
        xi = 0.05
        full = sdof.nigam_and_jennings_response(a, dt, periods, xi)
        rows_ = np.array([0, 1, nper // 2, nper - 2, nper - 1])
        cols_ = np.unique(np.linspace(0, nlong - 1, 150).astype(int))
        sub = sdof.nigam_and_jennings_response(a, dt, periods[rows_], xi)
        ncut = nlong // 3
        cut = sdof.nigam_and_jennings_response(a[:ncut], dt, periods, xi)
        ccols = cols_[cols_ < ncut]
        mm = {"n": nlong, "dt": dt, "xi": xi, "periods": nper, "cells": nper * nlong}
        for s_ in range(3):
            same("BatchIndependent", sub[s_][:, cols_], full[s_][rows_][:, cols_], dict(mm, series=s_, history="large job vs 5 of its periods"))
            same("Causal", cut[s_][rows_][:, ccols], full[s_][rows_][:, ccols], dict(mm, series=s_, history="large job vs its first third"))
        del full, sub, cut
    # the object path refines internally (min_dt_ratio): its spectra are never below the raw-sample spectra -- also
    # when the peak response falls on the very last instant (records short relative to the period, truncated records)
    for j in range(10 if tier == "quick" else 80):
        n = int(rng.integers(8, 40))
        dt = [0.1, 0.05, 0.02][j % 3]
        shape = ["ramp", "step", "const", "impulse_last", "walk"][j % 5]
        a, _ = gen.record(rng, n, shape=shape, amp=1.0)
        if shape == "impulse_last":
            a[-2] = 0.5
        periods = np.sort(rng.uniform(6.5, 3.0 * n, size=3)) * dt
        raw = sdof.pseudo_response_spectra(a, dt, periods, 0.05)
        for ratio in (2, 4, 8):
            o = eqsig.AccSignal(a.copy(), dt, response_times=periods.copy())
            o.gen_response_spectrum(min_dt_ratio=ratio)
            for q, nm in enumerate(("s_d", "s_v", "s_a")):
                add({"kind": "rel", "law": "geq", "clause": "SpectraMonotoneUnderRefine", "tol": enc(1e-5), "scale": enc(1.0),
                     "x": enc_seq(raw[q]), "y": enc_seq(getattr(o, nm))},
                    {"law": "SpectraMonotoneUnderRefine", "path": "AccSignal.%s(min_dt_ratio=%d)" % (nm, ratio), "n": n, "dt": dt, "shape": shape, "T_over_dt": (periods / dt).tolist()})
    write_ndjson(path, recs)
    return meta


def run(tier, seed):
    rep = Report("C02", tier, seed)
    wd = workdir("C02")
    maxlen = 4 if tier == "quick" else 6
    tab = os.path.join(wd, "table.txt")
    with warnings.catch_warnings():
        warnings.simplefilter("ignore")
        nrows = gen.build_table(tab, c01.NL, maxlen, c01.table_row)
    r = tlc.run("MC_Oscillator", cfg=c01.MC_CFG % maxlen, env={"TABLE_FILE": tab}, job="C02/mc")
    if r.invariant_violated:
        raise tlc.MachineryError("model invariant violated in MC_Oscillator: %s" % r.invariant_violated)
    rep.add_tlc("MC_Oscillator(MaxLen=%d)" % maxlen, r, "the laws as theorems of the model: Linear (product machine a, b, 3a - b/2), FlowExact = refinement by 2, 3, 8, ZeroIC (shift)")
    rep.evaluations += nrows
    for code, clause in r.mismatches[:500]:
        rep.fail(clause, "lattice", {"code": code, "a": [c01.LEVELS[d - 1] for d in gen.decode(code, c01.NL)]})
    tr = os.path.join(wd, "trace.ndjson")
    with warnings.catch_warnings():
        warnings.simplefilter("ignore")
        meta = build_traces(tr, tier, seed)
    r2 = tlc.run("Trace_Oscillator", cfg="Trace_Oscillator", env={"TRACE_FILE": tr}, job="C02/trace")
    rep.add_tlc("Trace_Oscillator(relations)", r2, "relation events between recorded executions: linear, spectra homogeneous, causal, shift, permutation, batch, refinement")
    for t in meta:
        if t not in r2.verdicts:
            raise tlc.MachineryError("no verdict for tid %d" % t)
        rep.traces += 1
        rep.count(meta[t]["law"])
        for c in r2.verdicts[t][0]:
            rep.fail(c, "trace", meta[t])
    for t in (1, len(meta) // 2, len(meta)):
        rep.sample(meta[t])
    rep.assumptions = ["linearity to 1e-9 of (|alpha| peak_a + |beta| peak_b); causality / shift / permutation / batching to 1e-12 of the peak",
                       "refinement compared within the C01 tolerance evaluated at both steps, keeping r*T/dt <= 2e4", "permutations keep a leading zero period leading"]
    return rep.finish(checker_cmd="tlc MC_Oscillator / Trace_Oscillator (harness/drivers/c02.py)",
                      trusted_base=["TLC 1.8", "FP.class", "TableIO.class", "harness/common.py enc"])

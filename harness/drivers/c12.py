"""C12 -- zero crossings and per-half-cycle (switched) peaks are exact."""
import os
import numpy as np

from harness import tlc, gen
from harness.common import enc_seq, enc, workdir, write_ndjson, Report

TOLS = [0.0, 1.0, 1.5, 2.0]     # 1 and 2 are hit exactly by turning points of the integer alphabets
MC_CFG = """SPECIFICATION Spec
CONSTANT MaxLen = %d
CONSTANT NL = %d
CONSTANT NegLo = %d
CONSTANT TwinLen = %d
INVARIANT ZcTwin
INVARIANT ZcLaws
INVARIANT AcceptorIsDeclarative
INVARIANT GlobalMaxIncluded
INVARIANT Satisfiable
INVARIANT Conforms
CHECK_DEADLOCK FALSE
"""


def impl_lists(v):
    from eqsig.fns import peaks_and_crossings as pc
    out = []
    for tol in TOLS:
        out.append(pc.get_zero_crossings_array_indices(v, keep_adj_zeros=False, tol=tol))
        out.append(pc.get_zero_crossings_array_indices(v, keep_adj_zeros=True, tol=tol))
        out.append(pc.get_switched_peak_array_indices(v, tol=tol))
    return out


class RowFn(object):
    def __init__(self, nl, lo):
        self.nl, self.lo = nl, lo

    def __call__(self, code, digits):
        vals = np.array(digits) - 1 + self.lo
        v = [vals.astype(float), vals][code % 2]
        row = [code]
        for lst in impl_lists(v):
            row += [len(lst)] + [int(x) for x in lst]
        return row


def rand_series(rng, n):
    kind = rng.integers(8)
    if kind == 7:     # more than 160 decades of dynamic range INSIDE one series: unit-size samples next to crossings and half cycles at 1e-170 .. 1e-300
        x = rng.standard_normal(n) * 10.0 ** rng.choice([0.0, -170.0, -200.0, -300.0, -170.0], size=n)
        if n >= 5 and rng.integers(2):
            j = int(rng.integers(0, n - 4))
            x[j:j + 5] = np.array([1.0, -2e-170, -1e-170, -3e-170, 2e-170]) * float(rng.choice([1.0, -1.0, 250.0]))
    elif kind == 6:     # crests / troughs whose top samples are one or two ulps apart (later one larger or smaller)
        x = np.repeat(rng.standard_normal(max(2, n // 3 + 1)), 3)[:n]
        for j in range(1, len(x)):
            if x[j] == x[j - 1]:
                x[j] = np.nextafter(x[j - 1], x[j - 1] + rng.choice([-1.0, 1.0]) * (abs(x[j - 1]) + 1.0))
                if rng.integers(2):
                    x[j] = np.nextafter(x[j], x[j] + (x[j] - x[j - 1]) * 1e300)
    elif kind == 5:     # near ties on the crests: neighbouring top samples that differ by 1e-15 .. 1e-7 relative (not equal)
        x = np.repeat(rng.standard_normal(n), rng.integers(1, 4, size=n))[:n]
        x = x * (1.0 + rng.choice([0.0, 1e-15, 1e-12, 5e-9, 1e-7], size=n) * rng.choice([-1, 1], size=n))
    elif kind == 0:
        x = rng.standard_normal(n)
    elif kind == 1:   # integer valued with many exact zeros and ties
        x = rng.integers(-3, 4, size=n).astype(float)
    elif kind == 2:   # sine bursts: >= 3 distinct levels per excursion
        t = np.arange(n)
        x = np.sin(2 * np.pi * t / rng.uniform(7, 60)) * (1 + 0.5 * np.sin(t / 9.0)) + 0.2 * rng.standard_normal(n)
    elif kind == 3:   # runs of zeros between excursions
        x = rng.standard_normal(n)
        mask = np.repeat(rng.integers(0, 2, size=n), rng.integers(1, 6, size=n))[:n]
        x = x * mask
    else:             # plateaus
        x = np.repeat(rng.integers(-4, 5, size=n), rng.integers(1, 4, size=n))[:n].astype(float) * rng.uniform(0.1, 3)
    return x


def build_traces(path, tier, seed):
    from eqsig.fns import peaks_and_crossings as pc
    rng = np.random.default_rng(seed + 12)
    nrec = 40 if tier == "quick" else 240
    nmax = 1200 if tier == "quick" else 5000
    recs, meta = [], {}
    nshort = 400 if tier == "quick" else 3000     # many short series: hysteresis (tol) corner cases are pattern-driven
    for tid in range(1, nrec + nshort + 1):
        n = gen.length(rng, 1, nmax) if tid <= nrec else int(rng.integers(1, 40))
        x = rand_series(rng, n)
        tol = float(rng.choice([0.3, 1.0, 2.0, 2.5, rng.uniform(0.01, 3)]))
        if rng.integers(4) == 0:
            # records in small / large units (nanometre displacements, counts): the results are scale free
            sc = 10.0 ** rng.choice([rng.uniform(-12, -6), rng.uniform(3, 8), rng.uniform(155, 250), rng.uniform(-300, -160)])     # (... down to units in which products of neighbours underflow)
            x = x * sc
            tol = tol * sc
        arg = x if tid % 4 else x.tolist()
        narrow = (tid - nrec - 1) if nrec < tid <= nrec + 10 else (-1 if rng.integers(8) else int(rng.integers(5)))
        if narrow >= 0:
            # counts in a narrow integer dtype whose products leave the dtype (int8 up to 120, int16 up to 30000, int32 up to 2e9), and
            # small values in half / single precision whose products underflow in that precision; the first ten short series of
            # every run are of this kind (every run sees each type)
            dt_, top = [(np.int8, 120), (np.int16, 30000), (np.int32, 2.0e9), (np.float16, 2.0e-4), (np.float32, 3.0e-23)][narrow % 5]
            if n < 4:
                n = int(rng.integers(4, 40))
                x = rand_series(rng, n)
            xs_ = x / (np.max(np.abs(x)) + 1e-300) * top
            arg = (np.round(xs_) if np.dtype(dt_).kind == "i" else xs_).astype(dt_)
            x = np.asarray(arg, dtype=float)
            tol = float(rng.choice([0.3, 1.0, 2.0])) * top / 4.0
        import eqsig
        way = tid % 3      # 0: explicit keywords, 1: defaults (keep_adj_zeros=False, tol=0), 2: signal-level wrappers
        if way == 1:
            zcf = pc.get_zero_crossings_array_indices(arg)
            sw0 = pc.get_switched_peak_array_indices(arg)
        elif way == 2:
            cls_ = [eqsig.AccSignal, eqsig.Signal][int(rng.integers(2))]
            if rng.integers(2) and n >= 2:
                # a signal object that was analysed while it held ANOTHER record, and whose values were then changed through
                # the public API (replaced / an increment added / filtered and replaced): the wrappers see the current record
                other = rand_series(rng, n if rng.integers(2) else int(rng.integers(2, 60)))
                sobj = cls_(other, 0.01)
                _ = (pc.get_zero_crossings_indices(sobj), pc.get_switched_peak_indices(sobj), pc.get_peak_indices(sobj))
                hist = int(rng.integers(3))
                if hist == 0 or len(other) != n:
                    sobj.reset_values(x)
                elif hist == 1:
                    sobj.add_series(x - other)
                else:
                    sobj.remove_poly(1)
                    _ = pc.get_switched_peak_indices(sobj)
                    sobj.reset_values(x.copy())
                if not np.array_equal(np.asarray(sobj.values, dtype=float), x):
                    sobj.reset_values(x)          # (the increment rounds: the object must hold exactly x)
            else:
                sobj = cls_(x, 0.01)
            zcf = pc.get_zero_crossings_indices(sobj)
            sw0 = pc.get_switched_peak_indices(sobj) if tid % 2 else pc.get_switched_peak_indices(x)
        else:
            # the flag / tolerance as the scalar types a caller may hand over (python, numpy, int)
            f_ = [False, np.bool_(False), 0][int(rng.integers(3))]
            if rng.integers(4) == 0:
                gen.array_noise(rng, arg)
            zcf = pc.get_zero_crossings_array_indices(arg, keep_adj_zeros=f_, tol=[0.0, 0, np.float64(0.0)][int(rng.integers(3))])
            sw0 = pc.get_switched_peak_array_indices(arg, tol=[0.0, 0, np.float64(0.0)][int(rng.integers(3))])
        rec = {"tid": tid, "x": enc_seq(x), "tol": enc(tol),
               "zcf": [int(i) for i in zcf],
               "zct": [int(i) for i in pc.get_zero_crossings_array_indices(arg, keep_adj_zeros=[True, np.bool_(True), 1][int(rng.integers(3))])],
               "sw": [int(i) for i in sw0],
               "zcf_tol": [int(i) for i in pc.get_zero_crossings_array_indices(arg, keep_adj_zeros=[False, np.bool_(False), 0][int(rng.integers(3))], tol=tol)],
               "zct_tol": [int(i) for i in pc.get_zero_crossings_array_indices(arg, keep_adj_zeros=True, tol=tol)],
               "sw_tol": [int(i) for i in pc.get_switched_peak_array_indices(arg, tol=tol)]}
        recs.append(rec)
        meta[tid] = {"n": n, "head": [float(v) for v in x[:10]], "tol": tol, "container": "ndarray" if tid % 4 else "list",
                     "sw_head": rec["sw"][:8], "sw_tol_head": rec["sw_tol"][:8]}
    write_ndjson(path, recs)
    return meta


def run(tier, seed):
    rep = Report("C12", tier, seed)
    wd = workdir("C12")
    alph = [(5, -2, 7 if tier == "quick" else 8), (7, -3, 5 if tier == "quick" else 6)]
    twin = 4 if tier == "quick" else 6
    for nl, lo, maxlen in alph:
        tab = os.path.join(wd, "table_%d.txt" % nl)
        nrows = gen.build_table(tab, nl, maxlen, RowFn(nl, lo))
        r = tlc.run("MC_Crossings", cfg=MC_CFG % (maxlen, nl, -lo, min(twin, maxlen)), env={"TABLE_FILE": tab},
                    job="C12/mc%d" % nl, coverage=(tier == "thorough"))
        if r.invariant_violated:
            raise tlc.MachineryError("model invariant violated in MC_Crossings: %s" % r.invariant_violated)
        rep.add_tlc("MC_Crossings(levels %d..%d, MaxLen=%d)" % (lo, lo + nl - 1, maxlen), r,
                    "every series; zc/switched tables for tol 0, 0.5, 1.5 in lock-step; acceptor = declarative on all index subsets to length %d" % twin)
        rep.evaluations += nrows
        for code, clause in r.mismatches[:3000]:
            digits = gen.decode(code, nl)
            vals = [d - 1 + lo for d in digits]
            rep.fail(clause, "lattice", {"code": code, "values": vals, "impl": [[int(i) for i in l] for l in impl_lists(np.array(vals, dtype=float))]})
        rep.extra["lockstep_mismatches_%d" % nl] = len(r.mismatches)
    rep.exhaustive = True
    rep.sample({"lockstep": "series [1,-2,-1,-3,0] over {-3..3}: table row lists zc/switched for tol 0, .5, 1.5"})
    tr = os.path.join(wd, "trace.ndjson")
    meta = build_traces(tr, tier, seed)
    r2 = tlc.run("Trace_Crossings", cfg="Trace_Crossings", env={"TRACE_FILE": tr}, job="C12/trace")
    rep.add_tlc("Trace_Crossings", r2, "one chain per recorded call, one sample per step")
    missing = [t for t in meta if t not in r2.verdicts]
    if missing:
        raise tlc.MachineryError("no verdict for tids %s" % missing[:10])
    for t, (cl, n) in sorted(r2.verdicts.items()):
        rep.traces += 1
        for c in cl:
            rep.fail(c, "trace", meta[t])
        if t <= 3:
            rep.sample(meta[t])
    rep.assumptions = ["exhaustive part: integers {-2..2} and {-3..3}", "trace part: records in units from 1e-300 to 1e250",
                       "switched peaks: any maximiser of |value| inside an excursion is accepted (relation, not equality)"]
    return rep.finish(checker_cmd="tlc MC_Crossings / Trace_Crossings (harness/drivers/c12.py)",
                      trusted_base=["TLC 1.8", "FP.class", "TableIO.class", "harness/common.py enc"])

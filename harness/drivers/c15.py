"""C15 -- Stockwell transform: definition, Fourier marginal and exact inverse."""
import os
import warnings
import numpy as np

from harness import tlc, gen
from harness.common import enc, enc_seq, enc_cseq, workdir, write_ndjson, Report

NL = 3
LEVELS = [-1.0, 0.0, 2.0]
MC_CFG = """SPECIFICATION Spec
CONSTANT MaxLen = %d
INVARIANT Marginal
INVARIANT Linear
INVARIANT Conforms
CHECK_DEADLOCK FALSE
"""


def table_row(code, digits):
    from eqsig import stockwell
    x = np.array(LEVELS)[np.array(digits) - 1]
    n = len(x)
    row = [code, n]
    if n < 4:
        return row
    arg = [x, x.copy(), x.astype(np.int64)][code % 3]
    s1 = np.asarray(stockwell.transform(arg))
    s2 = np.asarray(stockwell.transform_w_scipy_fft(np.array(arg, dtype=float)))
    row += [s1.shape[0], s1.shape[1]]
    if s2.shape != s1.shape:
        s2 = np.full(s1.shape, np.nan + 0j)
    for s in (s1, s2):
        for z in np.ravel(s):
            row += enc(z.real) + enc(z.imag)
    inv = np.asarray(stockwell.itransform(s1), dtype=float)
    row += [len(inv)]
    for v in inv:
        row += enc(v)
    return row


def build_traces(path, tier, seed):
    import eqsig
    from eqsig import stockwell
    rng = np.random.default_rng(seed + 15)
    recs, meta = [], {}
    tid = 0

    def add(rec, m):
        nonlocal tid
        tid += 1
        rec["tid"] = tid
        recs.append(rec)
        meta[tid] = m

    sizes = [4, 5, 6, 7, 8, 9, 11, 12, 15, 16, 19, 23, 27, 31, 32] if tier == "quick" else list(range(4, 49)) + [63, 64, 65, 96, 127, 128]
    for n in sizes:
        x, shape = gen.record(rng, n, amp=float(10.0 ** rng.choice([rng.uniform(-1, 1), rng.uniform(-1, 1), rng.uniform(-12, -7), rng.uniform(4, 8)])))
        if shape in ("zero",):
            x = rng.standard_normal(n)
        if n % 3 == 1:       # raw counts: unit-size signal on a large baseline
            x = rng.standard_normal(n) + float(10.0 ** rng.uniform(3, 6))
            shape = "noise on a large offset"
        # both implementations on the SAME array, one after the other in either order (a record is still the record after it
        # has been transformed), or on copies
        xa = np.array(x, dtype=float)
        if n % 3 == 0:
            # helper results for this record's size were handed out and overwritten by the caller just before
            gen._scribble(stockwell.generate_gaussian(n // 2))
            gen.array_noise(rng, xa, k=1)
        if n % 2:
            s2 = np.asarray(stockwell.transform_w_scipy_fft(xa))
            s1 = np.asarray(stockwell.transform(xa if n % 4 == 1 else x.copy()))
        else:
            s1 = np.asarray(stockwell.transform(xa))
            s2 = np.asarray(stockwell.transform_w_scipy_fft(xa if n % 4 == 0 else x.copy()))
        if s2.shape != s1.shape:
            s2 = np.full(s1.shape, np.nan + 0j)
        add({"kind": "full", "x": enc_seq(x), "rows": int(s1.shape[0]), "cols": int(s1.shape[1]), "s": [enc_cseq(r) for r in s1], "s2": [enc_cseq(r) for r in s2]},
            {"kind": "full", "n": n, "shape": shape, "transform_shape": list(s1.shape)})
        inv = stockwell.itransform(s1)
        add({"kind": "inv", "x": enc_seq(x), "y": enc_seq(inv)}, {"kind": "inv", "n": n, "len_y": len(inv)})
        # linearity on a sample of cells
        y = rng.standard_normal(n)
        f, g = float(rng.choice([-2.0, 0.5, 3.0])), float(rng.choice([-2.0, 0.5, 3.0]))
        sy = np.asarray(stockwell.transform(y.copy()))
        sz = np.asarray(stockwell.transform(f * x + g * y))
        idx = rng.choice(s1.size, size=min(s1.size, 40), replace=False)
        add({"kind": "lin", "f": enc(f), "g": enc(g), "x": enc_cseq(np.ravel(s1)[idx]), "y": enc_cseq(np.ravel(sy)[idx]), "z": enc_cseq(np.ravel(sz)[idx])},
            {"kind": "lin", "n": n, "f": f, "g": g})
    # two records whose raw BYTES coincide (signed / unsigned counts; an int32 record read as int64 has half the length) transformed
    # one after the other by the same implementation: each transform is that of its own values and length
    for j in range(4 if tier == "quick" else 16):
        n = int(rng.integers(4, 17))
        a_, b_ = gen.byte_twins(rng, n)
        if len(b_) < 4:
            a_, b_ = gen.byte_twins(np.random.default_rng(j), 12)
        fn = [stockwell.transform, stockwell.transform_w_scipy_fft][j % 2]
        for rec_ in (a_, b_):
            if len(rec_) < 4:
                continue
            s1 = np.asarray(fn(rec_))
            s2 = np.asarray([stockwell.transform_w_scipy_fft, stockwell.transform][j % 2](np.array(rec_)))
            if s2.shape != s1.shape:
                s2 = np.full(s1.shape, np.nan + 0j)
            xf = np.asarray(rec_, dtype=float)
            add({"kind": "full", "x": enc_seq(xf), "rows": int(s1.shape[0]), "cols": int(s1.shape[1]), "s": [enc_cseq(r) for r in s1], "s2": [enc_cseq(r) for r in s2]},
                {"kind": "full", "n": len(xf), "shape": "byte twins (%s after %s)" % (rec_.dtype, a_.dtype), "transform_shape": list(s1.shape)})
    big = [100, 200, 257, 1024] if tier == "quick" else [200, 256, 400, 511, 512, 777, 1000, 1023, 1024]
    # lengths whose half is a multiple of a power of two, or one more (the frequency rows may be processed in blocks)
    edge = [2 * (m * 2 ** e + r) + p for e in (5, 6, 7, 8) for m in (1, 2, 3) for r in (0, 1) for p in (0, 1) if 2 * (m * 2 ** e + r) + p <= 1024]
    edge_pick = [258, 514] + [int(v) for v in rng.choice(edge, size=2 if tier == "quick" else 12, replace=False)]
    big += edge_pick
    # (length, implementation): chosen independently of the parity; the longest admissible record goes through both
    plan = [(n, [stockwell.transform, stockwell.transform_w_scipy_fft][int(rng.integers(2))]) for n in big]
    plan += [(n_, f) for n_ in [1024] + [v for v in big if v in edge] for f in (stockwell.transform, stockwell.transform_w_scipy_fft) if (n_, f) not in plan]
    for n, fn in plan:
        x, shape = gen.record(rng, n, amp=1.0)
        xa = np.array(x, dtype=float)
        if rng.integers(2):
            gen._scribble(stockwell.generate_gaussian(n // 2))
        if rng.integers(2):
            other = stockwell.transform if fn is stockwell.transform_w_scipy_fft else stockwell.transform_w_scipy_fft
            other(xa)                  # the same array went through the other implementation first
        s1 = np.asarray(fn(xa))
        ncell = 60 if tier == "quick" else 400
        rr = rng.integers(1, s1.shape[0] + 1, size=ncell)
        cc = rng.integers(1, s1.shape[1] + 1, size=ncell)
        cells = [[int(r), int(c), enc(s1[r - 1, c - 1].real), enc(s1[r - 1, c - 1].imag)] for r, c in zip(rr, cc)]
        add({"kind": "cells", "x": enc_seq(x), "rows": int(s1.shape[0]), "cols": int(s1.shape[1]), "cells": cells, "rowsum": enc_cseq(np.sum(s1, axis=1))},
            {"kind": "cells", "n": n, "shape": shape, "impl": fn.__name__, "cells": ncell})
        inv = stockwell.itransform(s1)
        add({"kind": "inv", "x": enc_seq(x), "y": enc_seq(inv)}, {"kind": "inv", "n": n, "len_y": len(inv)})
    # stationary on-grid sinusoids between the second harmonic and 3/4 Nyquist: dominant-frequency trace
    pairs = [(28, 0.01), (52, 0.01), (64, 0.02), (26, 1.0), (80, 0.5), (56, 0.01), (90, 1.0), (33, 0.01)] if tier == "quick" else \
            [(n, dt) for n in (16, 24, 26, 28, 33, 52, 56, 60, 64, 80, 90, 104, 128) for dt in (0.01, 0.02, 0.5, 1.0)]
    for n, dt in pairs:
        M = 2 * (n // 2)
        ks = list(range(2, int(0.75 * (M // 2)) + 1))
        if tier == "quick":
            ks = ks[:: max(1, len(ks) // 4)]
        for k0 in ks:
            for ph in (0.0, 1.1):
                t = np.arange(n)
                x = np.sin(2 * np.pi * k0 * t / M + ph) * float(rng.choice([1.0, 0.37, 1e-9, 1e-12, 3e6, 2.0 ** -560, 2.0 ** 515]))   # micro-tremor .. raw counts .. units whose squares leave the double range
                o = eqsig.AccSignal(x, dt)
                if (k0 + n) % 2:
                    tr = stockwell.get_max_stockwell_freq(o)
                else:
                    tr = stockwell.get_max_tifq_vals_freq(stockwell.transform(x), dt)
                add({"kind": "dom", "n": n, "dt": enc(dt), "k0": k0, "trace": enc_seq(tr)}, {"kind": "dom", "n": n, "dt": dt, "k0": k0, "phase": ph})
    write_ndjson(path, recs)
    return meta


def run(tier, seed):
    rep = Report("C15", tier, seed)
    wd = workdir("C15")
    maxlen = 6 if tier == "quick" else 9
    tab = os.path.join(wd, "table.txt")
    with warnings.catch_warnings():
        warnings.simplefilter("ignore")
        nrows = gen.build_table(tab, NL, maxlen, table_row)
    r = tlc.run("MC_Stockwell", cfg=MC_CFG % maxlen, env={"TABLE_FILE": tab}, job="C15/mc", coverage=(tier == "thorough"))
    if r.invariant_violated:
        raise tlc.MachineryError("model invariant violated in MC_Stockwell: %s" % r.invariant_violated)
    rep.add_tlc("MC_Stockwell(MaxLen=%d)" % maxlen, r, "every record over {-1,0,2} of length 4..MaxLen: Marginal, Linear of the definition; transform, transform_w_scipy_fft, itransform in lock-step (every cell)")
    rep.evaluations += nrows
    rep.exhaustive = True
    for code, clause in r.mismatches[:2000]:
        rep.fail(clause, "lattice", {"code": code, "x": [LEVELS[d - 1] for d in gen.decode(code, NL)]})
    rep.sample({"lockstep": "record [2,0,-1,2,0] (odd: truncated to N=4): 2 x 4 cells against the definition"})
    tr = os.path.join(wd, "trace.ndjson")
    with warnings.catch_warnings():
        warnings.simplefilter("ignore")
        meta = build_traces(tr, tier, seed)
    r2 = tlc.run("Trace_Stockwell", cfg="Trace_Stockwell", env={"TRACE_FILE": tr}, job="C15/trace")
    rep.add_tlc("Trace_Stockwell", r2, "full transforms (one event per row), sampled cells of large transforms, inverse, linearity, dominant-frequency traces")
    for t in meta:
        if t not in r2.verdicts:
            raise tlc.MachineryError("no verdict for tid %d" % t)
        rep.traces += 1
        for c in r2.verdicts[t][0]:
            rep.fail(c, "trace:" + meta[t]["kind"], meta[t])
    ks = sorted(meta)
    for t in (ks[0], ks[len(ks) // 2], ks[-1]):
        rep.sample(meta[t])
    rep.assumptions = ["tolerance 1e-9 * sum|x|/N per cell", "dominant frequency asserted on the middle half of the record for on-grid sinusoids between the 2nd harmonic and 3/4 Nyquist"]
    return rep.finish(checker_cmd="tlc MC_Stockwell / Trace_Stockwell (harness/drivers/c15.py)",
                      trusted_base=["TLC 1.8", "FP.class (StrictMath exp/sin/cos)", "TableIO.class", "harness/common.py enc"])

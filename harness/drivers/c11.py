"""C11 -- local-peak detection is sound and complete on every series."""
import os
import numpy as np

from harness import tlc, gen
from harness.common import enc, enc_seq, workdir, write_ndjson, Report

NL = 5
MC_CFG = """SPECIFICATION Spec
CONSTANT MaxLen = %d
CONSTANT NL = 5
INVARIANT AutomatonIsDeclarative
INVARIANT ModelSatisfiesStatement
INVARIANT KindsAreLocalExtrema
INVARIANT ClausesDetermineResult
INVARIANT Conforms
CHECK_DEADLOCK FALSE
"""


def impl(values):
    from eqsig.fns import peaks_and_crossings as pc
    allp = pc.get_peak_array_indices(values)
    mx = pc.get_peak_array_indices(values, ptype='max')
    mn = pc.get_peak_array_indices(values, ptype='min')
    co = pc.get_n_cyc_array(values, opt='all', start='origin')
    cp = pc.get_n_cyc_array(values, opt='all', start='peak')
    return allp, mx, mn, co, cp


def table_row(code, digits):
    vals = np.array(digits) - 1
    row = [code]
    if len(set(digits)) > 1:
        # alternate the container / dtype the caller hands over: list, int array, float array
        v = [vals.tolist(), vals, vals.astype(float)][code % 3]
        allp, mx, mn, co, cp = impl(v)
        row += [len(allp)] + [int(x) for x in allp]
        row += [len(mx)] + [int(x) for x in mx]
        row += [len(mn)] + [int(x) for x in mn]
        row += [len(co)]
        for x in co:
            row += enc(x)
        for x in cp:
            row += enc(x)
        # plateau-free ("cleaned") series: the cleaned-array entry point and its deprecated alias
        if all(digits[i] != digits[i + 1] for i in range(len(digits) - 1)):
            from eqsig.fns import peaks_and_crossings as pc
            cl = pc.determine_indices_of_peaks_for_cleaned_array(v)
            row += [len(cl)] + [int(x) for x in cl]
            if code % 2:
                dp = pc.determine_indices_of_peaks_for_cleaned(v)
                row += [len(dp)] + [int(x) for x in dp]
            else:
                row += [-1]
        else:
            row += [-1, -1]
    return row


def build_table(path, maxlen):
    return gen.build_table(path, NL, maxlen, table_row)


def rand_series(rng, n):
    kind = rng.integers(13)
    if kind == 12:       # a swing across almost the whole double range (its difference overflows) next to movements of 1e-16 and single ulps
        x = rng.standard_normal(n) * 10.0 ** rng.choice([-16.0, -12.0, -300.0, 0.0])
        j = int(rng.integers(0, max(1, n - 1)))
        big = float(rng.choice([1.5e308, 1.0e308, 1.7e308]))
        x[j] = big
        if j + 1 < n:
            x[j + 1] = -big
        if n > 4:
            k_ = (j + 3) % n
            x[k_] = np.nextafter(x[k_ - 1], np.inf) if abs(x[k_ - 1]) < 1e300 else 0.0
    elif kind == 11:       # records in extremely small units: products of neighbouring differences underflow (their signs do not)
        base = [rng.standard_normal(n), np.repeat(rng.integers(-3, 4, size=n), rng.integers(1, 4, size=n))[:n].astype(float)][int(rng.integers(2))]
        x = base * float(rng.choice([1e-170, 1e-200, 2.0 ** -600, 1e-300, 3e-162]))
    elif kind == 10:       # small wiggles next to a single enormous excursion (steps spanning more than 160 decades in ONE series)
        x = rng.standard_normal(n) * 10.0 ** rng.choice([-6.0, -9.0, -90.0])
        x[int(rng.integers(n))] = float(rng.choice([1e155, -3e158, 4e75, 1e160]))
    elif kind == 8:        # a large first sample followed by movements far below its ulp (x - x[0] is not exact)
        x = rng.standard_normal(n) * 10.0 ** rng.uniform(-17, -9)
        x[0] = float(rng.choice([1.0, -1.0, 1e9, -3.7e5]))
        if rng.integers(2):
            x[1:] += float(rng.choice([1.0, -2.5]))            # ... or movements of a few ulps on an offset of the other sign
    elif kind == 9:      # neighbours one or two ulps apart
        base = rng.choice([1.0, -1.0, 3.3e-7, 1e12]) * np.ones(n)
        x = base.copy()
        for j in range(1, n):
            x[j] = np.nextafter(x[j - 1], x[j - 1] + rng.choice([-1.0, 1.0]) * abs(x[j - 1]) * rng.integers(1, 3))
        x[0] = -x[0] if rng.integers(2) else x[0]
    elif kind == 5:        # near ties: neighbours that differ by a few ulps up to 1e-6 relative (but are not equal)
        x = np.repeat(rng.standard_normal(n), rng.integers(1, 4, size=n))[:n]
        x = x * (1.0 + rng.choice([0.0, 1e-15, 1e-12, 1e-9, 1e-7, 1e-6], size=n) * rng.choice([-1, 1], size=n))
    elif kind == 6:      # tiny amplitudes (1e-9 .. 1e-12) and slowly varying crests
        t = np.arange(n)
        x = (np.sin(t * rng.uniform(1e-3, 3e-2)) + 2.0) * 10.0 ** rng.uniform(-12, -6)
    elif kind == 7:      # small wiggle inside a trough / on a crest
        t = np.arange(n)
        x = np.sin(2 * np.pi * t / rng.uniform(20, 200)) + 1e-7 * rng.standard_normal(n)
    elif kind == 0:
        x = rng.standard_normal(n)
    elif kind == 1:      # plateau-rich integers
        x = np.repeat(rng.integers(-3, 4, size=n), rng.integers(1, 5, size=n))[:n].astype(float)
    elif kind == 2:      # plateau-rich reals, plateau at the start and at the end
        x = np.repeat(rng.standard_normal(n), rng.integers(1, 4, size=n))[:n]
        k = rng.integers(1, max(2, n // 4))
        x[:k] = x[0]
        x[-k:] = x[-1]
    elif kind == 3:      # random walk with repeated values
        x = np.cumsum(rng.integers(-1, 2, size=n)).astype(float) * rng.uniform(0.1, 10)
    else:                # wide dynamic range but differences within [1e-100, 1e100]
        x = rng.standard_normal(n) * 10.0 ** rng.uniform(-30, 30)
    return gen.not_constant(x)


def build_traces(path, tier, seed):
    rng = np.random.default_rng(seed + 11)
    nrec = 40 if tier == "quick" else 240
    nmax = 1200 if tier == "quick" else 5000
    recs, meta = [], {}
    for tid in range(1, nrec + 1):
        n = gen.length(rng, 2, nmax)
        x = rand_series(rng, n)
        zero_down = bool(rng.integers(6) == 0 and n >= 3 and tid != nrec)
        if zero_down:
            # a series that starts at exactly zero and moves DOWN first (plateau-free start)
            x = np.asarray(x, dtype=float) - float(x[0])
            if x[1] >= 0:
                x = -x
            if x[1] == 0:
                x[1] = -abs(float(np.max(np.abs(x)))) * 0.5 - 1.0
            x = gen.not_constant(x)
        if tid == nrec:
            # one very long series with more than 10 000 turning points
            n = 16000 if tier == "quick" else 31000        # (two thirds of the samples of white noise are turning points)
            x = rng.standard_normal(n)
        arg = x if tid % 4 else x.tolist()
        if tid % 5 == 2:
            # narrow containers: 24-bit digitiser counts as int32 (products of differences exceed 2^31), int16, float32
            dt_ = [np.int32, np.int16, np.float32, np.int32][(tid // 5) % 4]
            big = 2.0e5 if dt_ is np.int32 else (120.0 if dt_ is np.int16 else 1.0)
            xi = np.round(x / (np.max(np.abs(x)) + 1e-300) * big) if dt_ is not np.float32 else x
            arg = np.asarray(xi, dtype=dt_)
            arg = gen.not_constant(arg)
            x = np.asarray(arg, dtype=float)
        if rng.integers(3) == 0:
            # other public functions of the library on the SAME container just before (their results overwritten by the caller)
            gen.array_noise(rng, arg)
        if zero_down:
            # ... in particular the peaks-only series of the same record (they normalise the sign of the first movement)
            from eqsig.fns import peaks_and_crossings as pc3_
            pc3_.determine_peaks_only_delta_series(arg)
            if rng.integers(2):
                pc3_.determine_pseudo_cyclic_peak_only_series(arg)
        allp, mx, mn, co, cp = impl(arg)
        if rng.integers(5) == 0 and n >= 4 and isinstance(arg, (np.ndarray, list)):
            # history: the caller's container was analysed, then EDITED IN PLACE, and the selections are asked for first
            from eqsig.fns import peaks_and_crossings as pc2_
            k_ = int(rng.integers(1, n - 1))
            if isinstance(arg, list):
                arg[k_] = arg[k_] + (abs(arg[k_]) + 1.0) * 3
                arg.reverse()
            else:
                arg[k_:] = arg[k_:][::-1].copy()
                arg[k_] = arg[k_] + (abs(float(arg[k_])) + 1) * (3 if arg.dtype.kind == "f" else 1)
            arg = gen.not_constant(arg)
            mx = pc2_.get_peak_array_indices(arg, ptype='max')
            mn = pc2_.get_peak_array_indices(arg, ptype='min')
            allp, _, _, co, cp = impl(arg)
            x = np.asarray(arg, dtype=float)
        if tid % 12 == 9 and n < 3000:
            # plateau-free counts over the full range of (unsigned) narrow integer types, for the cleaned-array entry point below
            dt_ = [np.int8, np.uint8, np.int16, np.uint16][int(rng.integers(4))]
            ii = np.iinfo(dt_)
            xi_ = rng.integers(ii.min, ii.max + 1, size=n)
            xi_ = xi_[np.insert(np.diff(xi_) != 0, 0, True)]
            if len(xi_) >= 2 and not np.all(xi_ == xi_[0]):
                arg = xi_.astype(dt_)
                x = np.asarray(arg, dtype=float)
                n = len(x)
                allp, mx, mn, co, cp = impl(arg)
        if tid % 6 == 3 and not np.any(np.diff(np.asarray(arg, dtype=float)) == 0):
            from eqsig.fns import peaks_and_crossings as pc_
            allp = pc_.determine_indices_of_peaks_for_cleaned_array(arg)            # plateau-free: the cleaned-array entry point
        if tid % 6 == 1:
            import eqsig
            from eqsig.fns import peaks_and_crossings as pc_
            sobj_ = [eqsig.Signal, eqsig.AccSignal][int(rng.integers(2))](np.asarray(arg), 0.01)
            if rng.integers(2):
                # the object was analysed while it held another record, then its values were replaced through the public API
                other_ = rand_series(rng, n if rng.integers(2) else int(rng.integers(2, 50)))
                sobj_ = type(sobj_)(other_, 0.01)
                _ = pc_.get_peak_indices(sobj_)
                sobj_.reset_values(np.asarray(arg))
            allp = pc_.get_peak_indices(sobj_)                                      # signal-level wrapper
            co = pc_.get_n_cyc_array(arg)                                           # defaults: opt='all', start='origin'
        recs.append({"tid": tid, "x": enc_seq(x), "all": [int(i) for i in allp], "mx": [int(i) for i in mx],
                     "mn": [int(i) for i in mn], "cyco": enc_seq(co), "cycp": enc_seq(cp)})
        meta[tid] = {"n": n, "head": [float(v) for v in x[:8]], "npeaks": len(allp), "container": "ndarray" if tid % 4 else "list"}
    write_ndjson(path, recs)
    return meta


def run(tier, seed):
    rep = Report("C11", tier, seed)
    wd = workdir("C11")
    maxlen = 7 if tier == "quick" else 8
    tab = os.path.join(wd, "table.txt")
    nrows = build_table(tab, maxlen)
    r = tlc.run("MC_Peaks", cfg=MC_CFG % maxlen, env={"TABLE_FILE": tab}, job="C11/mc", coverage=(tier == "thorough"))
    if r.invariant_violated:
        raise tlc.MachineryError("model invariant violated in MC_Peaks: %s" % r.invariant_violated)
    rep.add_tlc("MC_Peaks(MaxLen=%d)" % maxlen, r, "every series over 5 levels; implementation table (all/max/min, n_cyc origin/peak) in lock-step")
    rep.evaluations += nrows
    rep.exhaustive = True
    for code, clause in r.mismatches[:3000]:
        digits = gen.decode(code, NL)
        rep.fail(clause, "lattice", {"code": code, "values": [d - 1 for d in digits]})
    rep.extra["lockstep_mismatches"] = len(r.mismatches)
    rep.sample({"lockstep": "series [1,1,2,1] (code %d): TLC state reached by Sample(2),Sample(2),Sample(3),Sample(2); table row = what eqsig returned" % (((2 * 5 + 2) * 5 + 3) * 5 + 2)})
    tr = os.path.join(wd, "trace.ndjson")
    meta = build_traces(tr, tier, seed)
    r2 = tlc.run("Trace_Peaks", cfg="Trace_Peaks", env={"TRACE_FILE": tr}, job="C11/trace")
    rep.add_tlc("Trace_Peaks", r2, "one chain per recorded call, one sample per step")
    missing = [t for t in meta if t not in r2.verdicts]
    if missing:
        raise tlc.MachineryError("no verdict for tids %s" % missing[:10])
    for t, (cl, n) in sorted(r2.verdicts.items()):
        rep.traces += 1
        for c in cl:
            rep.fail(c, "trace", meta[t])
        if t <= 3:
            rep.sample(meta[t])
    rep.assumptions = ["exhaustive part: integer levels 0..4, lengths 2..%d, non-constant series" % maxlen,
                       "trace part: |values| up to 1e160; records in extremely small units (down to 1e-300) included"]
    return rep.finish(checker_cmd="tlc MC_Peaks / Trace_Peaks (harness/drivers/c11.py)",
                      trusted_base=["TLC 1.8", "FP.class", "TableIO.class", "harness/common.py enc"])

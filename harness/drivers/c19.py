"""C19 -- surface-energy and time-shift utilities match the shifted-wave definition."""
import itertools
import os
import warnings
import numpy as np

from harness import tlc, gen
from harness.common import enc, enc_seq, workdir, write_ndjson, Report

MC_CFG = """SPECIFICATION Spec
CONSTANT MaxLen = %d
INVARIANT CumAbsMonotone
INVARIANT ZeroTravelNodalZero
INVARIANT ScaleSquared
INVARIANT RowEqualsSingle
INVARIANT Lengths
CHECK_DEADLOCK FALSE
"""


def rows(a):
    a = np.asarray(a, dtype=float)
    return [a] if a.ndim == 1 else [a[i] for i in range(a.shape[0])]


_FL = [0]
_NOISE = np.random.default_rng(1919)


def energy_record(x, dt, tts, nodal, ru, rd, stt, trim, start, scalar_tt=False, dtype=float):
    import eqsig
    from eqsig import surface
    s = eqsig.AccSignal(np.array(x, dtype=dtype), dt)
    tt_arg = float(tts[0]) if scalar_tt else np.array(tts, dtype=float)
    _FL[0] += 1
    f_ = lambda b, j: [bool(b), np.bool_(b), int(bool(b))][(_FL[0] + j) % 3]          # flags as python bool / numpy bool / int
    kw = dict(nodal=f_(nodal, 0), up_red=ru, down_red=rd, stt=stt, trim=f_(trim, 1), start=f_(start, 2))
    k = len(tts)
    if _FL[0] % 2:
        # other public functions applied to the same object just before, incl. regenerating its velocity with the rectangle rule:
        # the energy is a function of the record
        gen.asig_noise(_NOISE, s, rule_switch=True)
    try:
        out = surface.calc_surface_energy(s, tt_arg, **kw)
        cum = surface.calc_cum_abs_surface_energy(s, tt_arg, **kw)
        mot = surface.get_time_shift_motions(s, tt_arg, **kw)
    except Exception as ex:       # an in-domain call must not raise: reported through the Lengths clause (no rows)
        out = cum = mot = np.zeros((0, 0))
    rul = [float(v) for v in (ru if hasattr(ru, "__len__") else [ru] * k)]
    rdl = [float(v) for v in (rd if hasattr(rd, "__len__") else [rd] * k)]
    return {"kind": "energy", "dt": enc(dt), "a": enc_seq(x), "tts": enc_seq(tts), "nodal": bool(nodal), "ru": enc_seq(rul), "rd": enc_seq(rdl),
            "trim": bool(trim), "start": bool(start), "stt": enc(float(stt)), "out": [enc_seq(r) for r in rows(out)], "cum": [enc_seq(r) for r in rows(cum)], "mot": [enc_seq(r) for r in rows(mot)]}


def build_traces(path, tier, seed):
    import eqsig
    from eqsig import surface
    from eqsig.fns import time_shift as ts
    rng = np.random.default_rng(seed + 19)
    recs, meta = [], {}
    tid = 0

    def add(rec, m):
        nonlocal tid
        tid += 1
        rec["tid"] = tid
        recs.append(rec)
        meta[tid] = m

    # 1. the lattice: every record over {-1, 0, 2} of length 2..L, dt = 1/2, four option sets x nodal x trim x start
    dt = 0.5
    L = 4 if tier == "quick" else 6
    optsets = [
        dict(tts=[0.0], ru=1.0, rd=1.0, stt=0.0, scalar=False),
        dict(tts=[0.125, 0.5, 0.75], ru=1.0, rd=0.5, stt=0.5, scalar=False),
        dict(tts=[0.25], ru=np.array([1.0]), rd=np.array([0.5]), stt=0.75, scalar=True),
        dict(tts=[0.0, 0.25, 0.5], ru=np.array([1.0, 0.5, 1.0]), rd=np.array([0.5, 1.0, 1.0]), stt=0.0, scalar=False),
        dict(tts=[0.75, 0.0, 0.25], ru=1.0, rd=0.5, stt=0.5, scalar=False),          # travel times in no particular order
    ]
    for n in range(2, L + 1):
        for digits in itertools.product([-1.0, 0.0, 2.0], repeat=n):
            for oi, o in enumerate(optsets):
                for nodal, trim, start in itertools.product([True, False], repeat=3):
                    if o["scalar"] and hasattr(o["ru"], "__len__"):
                        ru, rd = o["ru"], o["rd"]
                    else:
                        ru, rd = o["ru"], o["rd"]
                    rec = energy_record(list(digits), dt, o["tts"], nodal, ru, rd, o["stt"], trim, start, scalar_tt=o["scalar"])
                    add(rec, {"kind": "energy", "lattice": True, "a": list(digits), "optset": oi, "nodal": nodal, "trim": trim, "start": start})
    # 2. random records
    nrand = 40 if tier == "quick" else 300
    for i in range(nrand):
        n = gen.length(rng, 2, 200 if tier == "quick" else 600)
        x, shape = gen.record(rng, n, amp=float(10.0 ** rng.uniform(-2, 2)))
        dt = [0.01, 0.02, 0.005, 0.5, 0.1][i % 5]
        k = int(rng.integers(1, 4))
        choice = int(rng.integers(5))
        if choice == 4:       # every delay shorter than half a step (no padding is needed), or one such row next to longer ones
            tts = [float(rng.choice([0.0, 0.2, 0.45])) * dt for _ in range(k)]
            if k > 1 and rng.integers(2):
                tts[-1] = float(rng.integers(1, 6)) * dt
        elif choice == 0:
            tts = [0.0] + [float(rng.integers(1, 8)) * dt / 2 for _ in range(k - 1)]
        elif choice == 1:
            tts = [float(rng.integers(0, 12)) * dt / 2 for _ in range(k)]           # integer multiples of dt/2
        elif choice == 2:
            tts = [float(rng.uniform(0, 5)) * dt for _ in range(k)]                  # fractional delays
        else:
            tts = [0.15, 0.3, 0.35][:k] if dt == 0.1 else [float(rng.integers(1, 40)) * 0.005 for _ in range(k)]   # 2*tt/dt a hair below an integer
        tts = [float(t) for t in rng.permutation(tts)]                                # in no particular order
        nodal, trim, start = bool(rng.integers(2)), bool(rng.integers(2)), bool(rng.integers(2))
        if rng.integers(3) == 0:
            ru, rd = np.array(rng.uniform(0.3, 1.0, size=k)), np.array(rng.uniform(0.3, 1.0, size=k))
        else:
            ru, rd = float(rng.uniform(0.3, 1.0)), float(rng.uniform(0.3, 1.0))
        stt = float([0.0, dt, 3.5 * dt, rng.uniform(0, 10) * dt][int(rng.integers(4))])
        stt = min(stt, 0.5 * (n - 1) * dt)         # the input motion reaches the surface within the record
        with warnings.catch_warnings():
            warnings.simplefilter("ignore")
            rec = energy_record(x, dt, tts, nodal, ru, rd, stt, trim, start, scalar_tt=(k == 1 and i % 2 == 0 and not hasattr(ru, "__len__")))
        add(rec, {"kind": "energy", "n": n, "dt": dt, "tts": tts, "nodal": nodal, "trim": trim, "start": start, "stt": stt, "shape": shape})
        # laws as relation events (start = False so that values are comparable)
        s = eqsig.AccSignal(x, dt)
        tt = np.array(tts)
        alpha = float([-3.0, 0.1, 7.0][i % 3])
        c1 = rows(surface.calc_cum_abs_surface_energy(s, tt, nodal=nodal, up_red=ru, down_red=rd))
        c2 = rows(surface.calc_cum_abs_surface_energy(eqsig.AccSignal(x * alpha, dt), tt, nodal=nodal, up_red=ru, down_red=rd))
        add({"kind": "rel", "clause": "ScaleSquared", "x": enc_seq([r[-1] for r in c1]), "y": enc_seq([r[-1] for r in c2]), "f": enc(alpha * alpha)},
            {"kind": "rel", "law": "ScaleSquared", "alpha": alpha, "n": n})
        if k > 1 and not hasattr(ru, "__len__"):
            e = rows(surface.calc_surface_energy(s, tt, nodal=nodal, up_red=ru, down_red=rd, trim=True))
            j = int(rng.integers(k))
            single = rows(surface.calc_surface_energy(s, np.array([tts[j]]), nodal=nodal, up_red=ru, down_red=rd, trim=True))[0]
            add({"kind": "rel", "clause": "RowEqualsSingle", "x": enc_seq(single), "y": enc_seq(e[j]), "f": enc(1.0)},
                {"kind": "rel", "law": "RowEqualsSingle", "row": j, "n": n})
    # 2b'. one LARGE batch (thousands of travel times sorted by depth, more than 2^20 work-array elements: implementations may process
    #      the rows in blocks), untrimmed, the wave still moving at the end: sampled rows (and the deepest one, which fixes the common
    #      width) are validated against the definition over their WHOLE width like any other energy event
    for big in range(1 if tier == "quick" else 3):
        n = int(rng.integers(300, 500))
        x = np.cumsum(rng.standard_normal(n)) * 0.1 + rng.standard_normal(n)
        dt = 0.01
        s = eqsig.AccSignal(x, dt)
        nt = int(rng.integers(3500, 4500))
        tts_big = np.sort(np.round(rng.uniform(0.0, 1.2, size=nt) / (dt / 2)) * (dt / 2) if big % 2 == 0 else rng.uniform(0.0, 1.2, size=nt))
        nodal = bool(big % 2)
        ru, rd = (1.0, 1.0) if not nodal else (1.0, 0.7)
        kw = dict(nodal=nodal, up_red=ru, down_red=rd, trim=False, start=False)
        out = rows(surface.calc_surface_energy(s, tts_big, **kw))
        cum = rows(surface.calc_cum_abs_surface_energy(s, tts_big, **kw))
        mot = rows(surface.get_time_shift_motions(s, tts_big, **kw))
        pick = sorted(set([0, nt - 1] + [int(v) for v in rng.integers(1, nt - 1, size=4)]))
        ok_shape = len(out) == nt and len(cum) == nt and len(mot) == nt
        sub = lambda r: [enc_seq(r[j_]) for j_ in pick] if ok_shape else []
        add({"kind": "energy", "dt": enc(dt), "a": enc_seq(x), "tts": enc_seq(tts_big[pick]), "nodal": nodal, "ru": enc_seq([ru] * len(pick)), "rd": enc_seq([rd] * len(pick)),
             "trim": False, "start": False, "stt": enc(0.0), "out": sub(out), "cum": sub(cum), "mot": sub(mot)},
            {"kind": "energy", "n": n, "batch": nt, "rows_validated": pick, "nodal": nodal, "note": "large batch, untrimmed: rows over their whole width"})
    # 2c. each row of a batch equals the single-travel-time result under EVERY option combination (rows are compared on
    #     their common length: without trimming the batch decides how much padding every row gets)
    for rix in range(2 if tier == "quick" else 8):
        n = int(rng.integers(9, 30))
        x = rng.standard_normal(n)
        dt = [0.5, 0.01, 0.02, 0.1][rix % 4]
        s = eqsig.AccSignal(x, dt)
        batch = np.array([0.0, 0.3 * dt, 1.5 * dt, 3.0 * dt])[[0, 1, 2, 3] if rix % 2 == 0 else [2, 3, 0, 1]]
        for nodal, trim, start in itertools.product([True, False], repeat=3):
            for stt in (0.0, dt, 2.5 * dt):
                kw = dict(nodal=nodal, up_red=1.0, down_red=0.6, stt=stt, trim=trim, start=start)
                for fn_name in ("calc_surface_energy", "calc_cum_abs_surface_energy"):
                    fn = getattr(surface, fn_name)
                    e = rows(fn(s, batch, **kw))
                    for j in range(len(batch)):
                        single = rows(fn(s, batch[j:j + 1], **kw))[0]
                        m = min(len(single), len(e[j]))
                        add({"kind": "rel", "clause": "RowEqualsSingle", "x": enc_seq(single[:m]), "y": enc_seq(e[j][:m]), "f": enc(1.0)},
                            {"kind": "rel", "law": "RowEqualsSingle", "fn": fn_name, "row": j, "n": n, "dt": dt, "tt/dt": float(batch[j] / dt),
                             "nodal": nodal, "trim": trim, "start": start, "stt/dt": stt / dt})
    # 2d. records held in the integer types a digitiser delivers (counts), with whole-number reduction factors given as
    #     python / numpy integers or floats: the waves are real-valued whatever the record's storage type
    for i in range(12 if tier == "quick" else 80):
        n = int(rng.integers(6, 60))
        dtp = [np.int8, np.int16, np.int32, np.uint8, np.int64, np.float32][int(rng.integers(6))]
        if i < 4:
            dtp = [np.int8, np.int16, np.uint8, np.int8][i]
        top = {np.int8: 127, np.uint8: 255, np.int16: 32767}.get(dtp, 30000)
        x = np.round(gen.record(rng, n, amp=1.0)[0] / 3.0 * top).clip(0 if dtp is np.uint8 else -top, top)
        x[int(rng.integers(n))] = top                              # full scale somewhere
        x[int(rng.integers(n))] = 0 if dtp is np.uint8 else -top
        dt = [0.01, 0.5, 0.02][int(rng.integers(3))]
        k = int(rng.integers(1, 4))
        tts = [float(rng.integers(0, 9)) * dt / 2 for _ in range(k)] if rng.integers(2) else [float(rng.uniform(0, 4)) * dt for _ in range(k)]
        form = i if i < 4 else int(rng.integers(4))
        if form == 0:
            ru, rd = int(rng.integers(1 + (i < 4), 4)), int(rng.integers(1, 4))
        elif form == 1:
            ru, rd = np.int64(rng.integers(1 + (i < 4), 4)), np.int8(rng.integers(1, 4))
        elif form == 2:
            ru, rd = np.array(rng.integers(1 + (i < 4), 4, size=k)), np.array(rng.integers(1, 4, size=k))
        else:
            ru, rd = float(rng.integers(1, 4)), float(rng.uniform(0.3, 2.0))
        nodal, trim, start = bool(rng.integers(2)), bool(rng.integers(2)), bool(rng.integers(2))
        with warnings.catch_warnings():
            warnings.simplefilter("ignore")
            rec = energy_record(x, dt, tts, nodal, ru, rd, 0.0, trim, start, dtype=dtp)
        add(rec, {"kind": "energy", "n": n, "dt": dt, "tts": tts, "nodal": nodal, "trim": trim, "start": start, "record dtype": np.dtype(dtp).name,
                  "up_red": repr(ru), "down_red": repr(rd)})
        s_i, s_f = eqsig.AccSignal(np.array(x, dtype=dtp), dt), eqsig.AccSignal(np.array(x, dtype=float), dt)
        kw = dict(nodal=nodal, up_red=ru, down_red=rd, trim=trim, start=start)
        m_i, m_f = rows(surface.get_time_shift_motions(s_i, np.array(tts), **kw)), rows(surface.get_time_shift_motions(s_f, np.array(tts), **kw))
        for j in range(len(m_f)):
            add({"kind": "rel", "clause": "ShiftedWaveDefinition", "x": enc_seq(m_f[j]), "y": enc_seq(m_i[j] if len(m_i) > j and len(m_i[j]) == len(m_f[j]) else m_f[j] * np.nan), "f": enc(1.0)},
                {"kind": "rel", "law": "get_time_shift_motions on an integer record equals the float record's", "record dtype": np.dtype(dtp).name,
                 "up_red": repr(ru), "down_red": repr(rd), "row": j, "n": n})
    # 2b. whole- and half-sample delays written as decimal travel times (2*tt/dt lands a hair below/above an integer)
    xr = np.sin(np.arange(24) / 2.0) + 0.3
    for dt in (0.1, 0.01, 0.02):
        for m in range(1, 31 if tier == "quick" else 61):
            tt = round(m * dt / 2, 6)
            rec = energy_record(xr, dt, [tt], bool(m % 2), 1.0, 0.7, 0.0, False, False, scalar_tt=bool(m % 3 == 0))
            add(rec, {"kind": "energy", "sweep": True, "dt": dt, "tt": tt})
    # 3. shifting helpers: every shift vector in {-2..2}^(1..3) x clip on a short ramp, + random
    v = np.array([1.0, 2.0, 3.0, 4.0, 5.0])
    for m in (1, 2, 3):
        vecs = list(itertools.product(range(-2, 3), repeat=m))
        if m == 3 and tier == "quick":
            vecs = vecs[::3]
        for sh in vecs:
            for clip in ("none", "start", "end", "both"):
                out = ts.put_array_in_2d_array(v, np.array(sh), clip=clip)
                add({"kind": "put2d", "v": enc_seq(v), "shifts": list(sh), "clip": clip, "out": [enc_seq(r) for r in out]},
                    {"kind": "put2d", "shifts": list(sh), "clip": clip})
            if min(sh) >= 0:
                for sub in (False, True):
                    out = ts.join_values_w_shifts(v, np.array(sh), jtype="sub" if sub else "add")
                    add({"kind": "join", "v": enc_seq(v), "shifts": list(sh), "sub": sub, "out": [enc_seq(r) for r in out]},
                        {"kind": "join", "shifts": list(sh), "sub": sub})
    for i in range(20 if tier == "quick" else 150):
        n = int(rng.integers(1, 60))
        vv = rng.standard_normal(n)
        sh = [int(t) for t in rng.integers(-8, 9, size=int(rng.integers(1, 5)))]
        clip = ["none", "start", "end", "both"][int(rng.integers(4))]
        # the offsets in the integer types a caller may hold them in (narrow and unsigned ones when they fit)
        form = int(rng.integers(6))
        if form == 4:
            n = int(rng.integers(100, 200))        # a record longer than an int8 can count
            vv = rng.standard_normal(n)
        if form in (3,) and min(sh) < 0:
            sh = [abs(t) for t in sh]
        if form == 3 and min(sh) == 0 and rng.integers(2):
            sh = [t + 1 for t in sh]               # unsigned offsets that are all positive
        sh_arg = np.array(sh, dtype=[np.int64, np.int32, np.int16, np.uint8, np.int8, np.int64][form])
        out = ts.put_array_in_2d_array(vv, sh_arg, clip=clip)
        add({"kind": "put2d", "v": enc_seq(vv), "shifts": sh, "clip": clip, "out": [enc_seq(r) for r in out]}, {"kind": "put2d", "n": n, "shifts": sh, "clip": clip})
        shp = [abs(t) for t in sh]
        dt = 0.01
        tsh = np.array(shp) * dt + 0.004            # join_sig_w_time_shift truncates time shifts to whole samples
        out = ts.join_sig_w_time_shift(eqsig.Signal(vv, dt), tsh, jtype="add")
        add({"kind": "join", "v": enc_seq(vv), "shifts": [int(t) for t in np.array(tsh / dt, dtype=int)], "sub": False, "out": [enc_seq(r) for r in out]},
            {"kind": "join", "n": n, "time_shifts": tsh.tolist()})
    write_ndjson(path, recs)
    return meta


def run(tier, seed):
    rep = Report("C19", tier, seed)
    wd = workdir("C19")
    maxlen = 5 if tier == "quick" else 8
    r = tlc.run("MC_Surface", cfg=MC_CFG % maxlen, job="C19/mc", coverage=(tier == "thorough"))
    if r.invariant_violated:
        raise tlc.MachineryError("model invariant violated in MC_Surface: %s" % r.invariant_violated)
    rep.add_tlc("MC_Surface(MaxLen=%d)" % maxlen, r, "consequences listed by the property proved of the definition on an exact lattice")
    tr = os.path.join(wd, "trace.ndjson")
    with warnings.catch_warnings():
        warnings.simplefilter("ignore")
        meta = build_traces(tr, tier, seed)
    r2 = tlc.run("Trace_Surface", cfg="Trace_Surface", env={"TRACE_FILE": tr}, job="C19/trace")
    rep.add_tlc("Trace_Surface", r2, "lattice replay (every record over {-1,0,2} x 4 option sets x nodal x trim x start) + random records + shift-helper grid; one event per travel time")
    rep.evaluations += len(meta)
    rep.exhaustive = True
    for t in meta:
        if t not in r2.verdicts:
            raise tlc.MachineryError("no verdict for tid %d" % t)
        rep.traces += 1
        for c in r2.verdicts[t][0]:
            rep.fail(c, "trace:" + meta[t]["kind"], meta[t])
    ks = sorted(meta)
    for t in (ks[0], ks[len(ks) // 2], ks[-1]):
        rep.sample(meta[t])
    rep.assumptions = ["values are compared with the definition for start=False; for start=True each row must be an integer index shift of the start=False row and have length npts when trimmed",
                       "join helpers are exercised with non-negative shifts (the zero-padded original is padded at the end only)",
                       "tolerance 1e-10 relative to the row's peak energy"]
    return rep.finish(checker_cmd="tlc MC_Surface / Trace_Surface (harness/drivers/c19.py)",
                      trusted_base=["TLC 1.8", "FP.class", "harness/common.py enc"])

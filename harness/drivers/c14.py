"""C14 -- resampling keeps the record: bounded step, retained samples, band-limited exact."""
import os
import warnings
import numpy as np

from harness import tlc, gen
from harness.common import enc, enc_seq, workdir, write_ndjson, Report

TICKS = [2.0 ** -8, 0.001, 0.003, 0.007]
MC_CFG = """SPECIFICATION Spec
CONSTANT DMax = %d
CONSTANT NMin = %d
CONSTANT NMax = %d
CONSTANT NTicks = %d
INVARIANT StepRule
INVARIANT EvenRule
INVARIANT DurationRule
INVARIANT Conforms
CHECK_DEADLOCK FALSE
"""


def record(n):
    j = np.arange(n)
    return (((37 * j * j) % 64) - 32) / 8.0


def row_for(d, t, even, tick, n):
    import eqsig
    from eqsig.fns import time_step as tp
    x = record(n)
    dt, tg = d * TICKS[tick - 1], t * TICKS[tick - 1]
    row = [d, t, 1 if even else 0, tick, n] + enc(dt) + enc(tg)
    try:
        y, ndt = tp.interp_array_to_approx_dt(x.copy(), dt, tg, even=even)
        o = tp.interp_to_approx_dt(eqsig.AccSignal(x.copy(), dt), tg, even=even)
        same = 1 if (len(o.values) == len(y) and np.array_equal(o.values, y)) else 0
        row += enc(ndt) + enc(o.dt) + [len(y)]
        for v in y:
            row += enc(v)
        row += [same]
    except Exception:
        row += enc(0.0) + enc(0.0) + [0, 0]
    return row


def _chunk(args):
    dmax, nmin, nmax, nticks, lo, hi = args
    out = []
    per = nmax - nmin + 1
    for idx in range(lo, hi):
        cfg, k = divmod(idx, per)
        n = nmin + k
        tick = cfg % nticks + 1
        cfg //= nticks
        even = bool(cfg % 2)
        cfg //= 2
        t = cfg % dmax + 1
        d = cfg // dmax + 1
        out.append(" ".join(map(str, row_for(d, t, even, tick, n))))
    return "\n".join(out) + "\n"


def build_table(path, dmax, nmin, nmax, nticks):
    import multiprocessing as mp
    total = dmax * dmax * 2 * nticks * (nmax - nmin + 1)
    step = 400
    jobs = [(dmax, nmin, nmax, nticks, lo, min(lo + step, total)) for lo in range(0, total, step)]
    with open(path, "w") as f, mp.get_context("fork").Pool(16) as pool:
        for ch in pool.imap(_chunk, jobs):
            f.write(ch)
    return total


# "nice" decimal (dt, target) pairs: the quotients 0.03 / 0.01, 0.475 / 0.025 ... fall one ulp beside the whole number in binary64
NICE_PAIRS = [(0.01, 0.03), (0.005, 0.015), (0.005, 0.03), (0.01, 0.06), (0.02, 0.06), (0.01, 0.12), (0.01, 0.21), (0.01, 0.24),
              (0.025, 0.475), (0.05, 0.95), (0.01, 0.07), (0.1, 0.3), (0.01, 0.49), (0.002, 0.006), (0.004, 0.012), (0.01, 0.29)]


def build_traces(path, tier, seed):
    import eqsig
    from eqsig.fns import time_step as tp
    rng = np.random.default_rng(seed + 14)
    recs, meta = [], {}
    nint = 80 if tier == "quick" else 600
    nfou = 60 if tier == "quick" else 400
    tid = 0
    for i in range(nint):
        dt = gen.dt(rng)
        mode = i % 5
        spectra_first = False
        if mode == 0:
            target = dt
        elif mode == 1:
            target = dt * float(rng.integers(2, 9))            # commensurate, decimate
            if i // 5 < len(NICE_PAIRS):
                dt, target = NICE_PAIRS[i // 5]                # decimal pairs whose quotient is one ulp off a whole number: every run
        elif mode == 2:
            target = dt / float(rng.integers(2, 9))            # commensurate, refine
            if i // 5 < len(NICE_PAIRS) and i % 2:
                target, dt = NICE_PAIRS[i // 5]
            elif rng.integers(3):
                # the step the object's response spectra are integrated at by default (shortest default period 0.1 s / 20, or dt / 4)
                dt = float(rng.choice([0.0125, 0.015, 0.011, 0.013, 0.0075, 0.021]))
                target = max(0.1 / 20.0, dt / 4.0)
                spectra_first = True
        elif mode == 3 and i % 10 == 3:
            target = dt * (1.0 + float(rng.choice([5e-6, -5e-6, 1e-9, -1e-9, 1e-13, 3e-4, -3e-4])))   # almost, but not, equal steps
        else:
            target = dt * float(10.0 ** rng.uniform(-1.0, 1.0))
        nmin = int(2 * max(dt, target) / dt) + 2
        n = nmin + int(rng.integers(0, 60)) if i % 2 else gen.length(rng, nmin, max(nmin + 1, 1500))
        x, shape = gen.record(rng, n)
        if i % 4 == 1:
            x = x + (2.0 + 3.0 * float(np.max(np.abs(x)))) * (-1 if i % 8 == 1 else 1)     # one-signed record: 0 is outside its range
            shape += "+offset"
        if i % 7 == 4:
            # whole-number counts held in an integer type: the interpolated samples in between are fractional
            dtc = [np.int64, np.int16, np.int32, np.int8, np.uint8][int(rng.integers(5))]
            top = float(min(np.iinfo(dtc).max, 30000))
            x = np.round((np.abs(x) if dtc is np.uint8 else x) / (float(np.max(np.abs(x))) + 1e-300) * top).astype(dtc)
            shape += " (%s counts)" % np.dtype(dtc).name
        even = bool(i % 3 == 0)
        if spectra_first:
            even = True
            if len(x) % 2 == 0:
                x = x[:-1]
                n = len(x)
        raised, ndt, y, ondt, same = False, 0.0, [], 0.0, False
        try:
            with warnings.catch_warnings():
                warnings.simplefilter("ignore")
                xin = x.copy()
                y, ndt = tp.interp_array_to_approx_dt(xin, dt, target, even=gen.flag(rng, even))
                oin = eqsig.AccSignal(x.copy(), dt)
                if rng.integers(2):
                    gen.asig_noise(rng, oin)          # spectra, peaks, durations ... of the same object read just before
                if spectra_first:
                    _ = (oin.s_a, oin.s_d)            # the response spectra were computed (on the record refined to this very step)
                o = tp.interp_to_approx_dt(oin, target, even=gen.flag(rng, even))
                if rng.integers(2):
                    # history: the same array / object again (also after a Fourier resample of the same object, and after its
                    # values were changed without changing its length); the LAST results count
                    if rng.integers(2):
                        c_ = float(rng.uniform(0.5, 5.0)) * (float(np.max(np.abs(x))) + 1.0)
                        oin.add_constant(c_)
                        x = np.asarray(oin.values, dtype=float).copy()
                        xin = x.copy()
                    y, ndt = tp.interp_array_to_approx_dt(xin, dt, target, even=gen.flag(rng, even))
                    try:
                        tp.resample_to_approx_dt(oin, target, even=gen.flag(rng, even))
                    except Exception:
                        pass
                    o = tp.interp_to_approx_dt(oin, target, even=gen.flag(rng, even))
                ondt = o.dt
                same = bool(len(o.values) == len(y) and np.array_equal(o.values, y))
        except Exception as ex:
            raised = True
        tid += 1
        recs.append({"tid": tid, "kind": "interp", "dt": enc(dt), "target": enc(target), "even": even, "x": enc_seq(x), "raised": raised,
                     "ndt": enc(ndt), "y": enc_seq(y), "ondt": enc(ondt), "objsame": same})
        meta[tid] = {"kind": "interp", "n": n, "dt": dt, "target": target, "even": even, "new_dt": float(ndt), "new_n": len(y), "shape": shape}
    for i in range(nfou):
        dt = [0.01, 0.02, 0.005, 0.5, 0.004][i % 5]
        mode = i % 4
        if rng.integers(6) == 0:
            # decimation by a large ratio whose reciprocal does not round-trip ((1/k)*(k*m) lands one ulp below m), length an exact multiple
            mode = 4
            k = int(rng.choice([49, 98, 103, 107, 161, 187]))
            dt = float(rng.choice([0.001, 0.002, 0.01]))
            target, n = round(dt * k, 7), k * int(rng.choice([4, 6, 7, 8, 12, 5, 9]))
        elif i == nfou - 1:
            # one LONG record whose length has a large prime factor (2 x 10007, 4 x 5003: not an FFT-friendly length), refined or decimated
            mode = 5
            dt = 0.01
            if rng.integers(2):
                target, n = dt / 2, 2 * 10007
            else:
                target, n = dt * 2, 4 * 5003
        elif mode == 0:
            target, n = dt, int(rng.integers(8, 120))
        elif mode == 1:
            k = int(rng.integers(2, 6))
            target, n = dt * k, k * int(rng.integers(4, 40))              # decimation, n a multiple of k
        elif mode == 2:
            k = int(rng.integers(2, 6))
            target, n = dt / k, int(rng.integers(8, 80))                   # refinement
        else:
            k = int(rng.integers(2, 6))
            target, n = dt * k * float(rng.uniform(1.0, 1.3)), k * int(rng.integers(4, 40)) + int(rng.integers(0, k))
        # (large ratios with even=True only where the decimated count k*m / k = m is already even: nothing forces trimming)
        even = bool(rng.integers(3) == 0) and (mode != 4 or (n // k) % 2 == 0)
        if mode == 4 and (n // k) % 2 == 0 and rng.integers(2):
            even = True
        # band limit: below the Nyquist frequency of the coarser of (input, output) grids
        ratio = max(1.0, target / dt)
        kmax = max(0, int((n / ratio) / 2) - 2)
        if rng.integers(2):
            # up to the HIGHEST harmonic strictly below the Nyquist frequencies of both grids (the output length is asked of the
            # function itself, on a silent record)
            try:
                with warnings.catch_warnings():
                    warnings.simplefilter("ignore")
                    n_out = len(tp.resample_to_approx_dt(eqsig.AccSignal(np.zeros(n), dt), target, even=gen.flag(rng, even)).values)
                kmax = max(0, (min(n, n_out) - 1) // 2)
            except Exception:
                pass
        nk = int(min(kmax, rng.integers(1, 6))) if kmax >= 1 else 0
        ks = sorted(set(int(v) for v in rng.integers(1, kmax + 1, size=nk))) if nk else []
        if nk and rng.integers(2) and kmax not in ks:
            ks.append(kmax)          # the top admissible harmonic itself
        a_s = [float(v) for v in rng.standard_normal(len(ks))]
        b_s = [float(v) for v in rng.standard_normal(len(ks))]
        if mode in (0, 2) and n % 2 == 0 and i % 2 == 0:
            # refinement / same step: the record's own Nyquist bin (alternating +a, -a) is below the new Nyquist frequency
            ks.append(n // 2)
            a_s.append(float(rng.uniform(0.3, 1.0)))
            b_s.append(0.0)
        c0 = float(rng.uniform(-1, 1))
        count_dtype = None
        if mode in (0, 2) and (i % 5 == 3 or rng.integers(6) == 0):
            # a record of whole-number counts held in an integer type that is still exactly band limited: a whole-number mean
            # plus the quarter-rate harmonic (+a, +b, -a, -b, ...) with whole-number amplitudes, length a multiple of 4
            n = 4 * max(2, n // 4)
            ks, a_s, b_s = [n // 4], [float(rng.integers(-900, 900))], [float(rng.integers(-900, 900))]
            c0 = float(rng.integers(-300, 300))
            count_dtype = [np.int64, np.int32, np.int16][int(rng.integers(3))]
        tt = np.arange(n) * dt
        x = c0 + sum(a * np.cos(2 * np.pi * k * tt / (n * dt)) + b * np.sin(2 * np.pi * k * tt / (n * dt)) for k, a, b in zip(ks, a_s, b_s)) if ks else np.full(n, c0)
        raised, ndt, y = False, 0.0, []
        try:
            with warnings.catch_warnings():
                warnings.simplefilter("ignore")
                oin = eqsig.AccSignal(np.asarray(x, dtype=float) if count_dtype is None else np.round(x).astype(count_dtype), dt)
                o = tp.resample_to_approx_dt(oin, target, even=gen.flag(rng, even))
                if i % 2:            # history: the SAME input object is resampled again; the second result is the one validated
                    o = tp.resample_to_approx_dt(oin, target, even=gen.flag(rng, even))
                ndt, y = o.dt, o.values
        except Exception as ex:
            raised = True
        tid += 1
        recs.append({"tid": tid, "kind": "fourier", "dt": enc(dt), "target": enc(target), "even": even, "n": n, "raised": raised, "ndt": enc(ndt),
                     "y": enc_seq(y), "c0": enc(c0), "ks": ks, "as": enc_seq(a_s), "bs": enc_seq(b_s)})
        meta[tid] = {"kind": "fourier", "n": n, "dt": dt, "target": target, "even": even, "harmonics": ks, "new_dt": float(ndt), "new_n": len(y), "raised": raised,
                     "record dtype": "float64" if count_dtype is None else np.dtype(count_dtype).name}
    write_ndjson(path, recs)
    return meta


def run(tier, seed):
    rep = Report("C14", tier, seed)
    wd = workdir("C14")
    dmax, nmin, nmax, nticks = (6, 4, 16, 4) if tier == "quick" else (10, 4, 30, 4)
    tab = os.path.join(wd, "table.txt")
    with warnings.catch_warnings():
        warnings.simplefilter("ignore")
        nrows = build_table(tab, dmax, nmin, nmax, nticks)
    r = tlc.run("MC_Resample", cfg=MC_CFG % (dmax, nmin, nmax, nticks), env={"TABLE_FILE": tab}, job="C14/mc", coverage=(tier == "thorough"))
    if r.invariant_violated:
        raise tlc.MachineryError("model invariant violated in MC_Resample: %s" % r.invariant_violated)
    rep.add_tlc("MC_Resample(d,t<=%d, n=%d..%d, %d ticks)" % (dmax, nmin, nmax, nticks), r, "tick instance of the step rule; interp_array_to_approx_dt / interp_to_approx_dt in lock-step for every (d, t, even, tick, n)")
    rep.evaluations += nrows
    rep.exhaustive = True
    per = nmax - nmin + 1
    for code, clause in r.mismatches[:3000]:
        cfg, k = divmod(code - 1, per)
        n = nmin + k
        tick = cfg % nticks + 1
        cfg //= nticks
        even = bool(cfg % 2)
        cfg //= 2
        t, d = cfg % dmax + 1, cfg // dmax + 1
        rep.fail(clause, "grid", {"d": d, "t": t, "tick": TICKS[tick - 1], "dt": d * TICKS[tick - 1], "target": t * TICKS[tick - 1], "n": n, "even": even})
    rep.sample({"grid": "d=1, t=3, even=True, tick=2^-8, n=10: decimate by 3 -> samples 0,3,6,9 (4, even); duration 9 = 9"})
    tr = os.path.join(wd, "trace.ndjson")
    meta = build_traces(tr, tier, seed)
    r2 = tlc.run("Trace_Resample", cfg="Trace_Resample", env={"TRACE_FILE": tr}, job="C14/trace")
    rep.add_tlc("Trace_Resample", r2, "random (dt, target) pairs incl. dt == target and non-commensurate ones; Fourier resampling of random trigonometric polynomials")
    for t in meta:
        if t not in r2.verdicts:
            raise tlc.MachineryError("no verdict for tid %d" % t)
        rep.traces += 1
        for c in r2.verdicts[t][0]:
            rep.fail(c, "trace:" + meta[t]["kind"], meta[t])
    for t in (1, 2, len(meta)):
        rep.sample(meta[t])
    rep.assumptions = ["records last at least 2*max(dt, target) (the property's precondition)",
                       "'does not exceed the target' with 1e-12 relative slack (one-ulp quotients); subsequence to 1e-12 of the record's peak",
                       "'two steps' = two of the coarser of (dt, new dt)",
                       "Fourier exactness only where the returned grid spans the same period (new count = factor * npts)"]
    return rep.finish(checker_cmd="tlc MC_Resample / Trace_Resample (harness/drivers/c14.py)",
                      trusted_base=["TLC 1.8", "FP.class", "TableIO.class", "harness/common.py enc"])

"""C05 -- signal objects own their data; analysis functions do not mutate inputs (Ownership model)."""
import copy
import hashlib
import os
import warnings

import numpy as np

from harness import tlc
from harness.common import workdir, write_ndjson, Report
from harness.drivers.c04 import parse_edges, apply_op

CFG = """SPECIFICATION Spec
CONSTANT Kind = "%s"
CONSTANT AsFound = %s
CONSTANT Emit = %s
INVARIANT NoAlias
INVARIANT CallerIntact
INVARIANT ObjectIntact
INVARIANT ValuesNumericArray
CHECK_DEADLOCK FALSE
"""
TRACE_CFG = """SPECIFICATION TSpec
CONSTANT Kind = "%s"
CONSTANT AsFound = FALSE
CONSTANT Emit = FALSE
INVARIANT Verdict
INVARIANT NoAlias
CHECK_DEADLOCK FALSE
"""
DT = 0.01
OBSERVABLES = ["npts", "time", "fa_spectrum", "fa_frequencies", "smooth_fa_spectrum", "velocity", "displacement", "pga", "pgv", "pgd",
               "s_a", "s_v", "s_d"]


def digest(x):
    """bit-exact digest of an argument / result (arrays: dtype, shape, bytes; signals: values, dt, settings)"""
    h = hashlib.sha256()

    def upd(o):
        if isinstance(o, np.ndarray):
            h.update(str((o.dtype.str, o.shape)).encode())
            h.update(np.ascontiguousarray(o).tobytes() if o.dtype != object else repr(o.tolist()).encode())
        elif isinstance(o, (list, tuple)):
            h.update(("%s%d[" % (type(o).__name__, len(o))).encode())
            for e in o:
                upd(e)
            h.update(b"]")
        elif hasattr(o, "values") and hasattr(o, "dt"):
            h.update(type(o).__name__.encode())
            upd(o.values)
            upd(float(o.dt))
            upd(np.asarray(o.smooth_fa_freqs))
            if hasattr(o, "response_times"):
                upd(np.asarray(o.response_times))
            # every public observable of the object (reading them also fills the object's memo, so that a callee which
            # scribbles on a memoised array or regenerates a spectrum with other settings is seen afterwards)
            for name in OBSERVABLES:
                if hasattr(type(o), name):
                    try:
                        with warnings.catch_warnings():
                            warnings.simplefilter("ignore")
                            v = getattr(o, name)
                        upd(np.asarray(v))
                    except Exception as ex:
                        h.update(("raised:" + type(ex).__name__).encode())
        elif isinstance(o, (float, np.floating)):
            h.update(np.float64(o).tobytes())
        elif isinstance(o, (complex, np.complexfloating)):
            h.update(np.complex128(o).tobytes())
        else:
            h.update(repr(o).encode())
    upd(x)
    return h.hexdigest()[:24]


# ------------------------------------------------------------------------------------------------
# sessions on real objects

def base(n=40, seed=3):
    rng = np.random.default_rng(seed)
    t = np.arange(n)
    return 0.2 + np.sin(t / 2.5) + 0.2 * rng.standard_normal(n) + 0.01 * t


class Ctx(object):
    def __init__(self, kind, seed=3):
        import eqsig
        self.kind = kind
        self.cls = eqsig.AccSignal if kind == "AccSignal" else eqsig.Signal
        self.callers = [base(40, seed), [float(x) for x in base(40, seed + 1)]]
        self.expected = [digest(c) for c in self.callers]
        self.obj = self.cls(base(40, seed + 2), DT)
        self.object_ok = True

    def shares(self, k):
        v, c = self.obj.values, self.callers[k]
        if v is c:
            return True
        if isinstance(v, np.ndarray) and isinstance(c, np.ndarray):
            return bool(np.shares_memory(v, c))
        return False

    def pi(self):
        v = self.obj.values
        isarr = isinstance(v, np.ndarray) and v.dtype.kind in "fiu" and v.ndim == 1
        npts = self.obj.npts
        try:
            time_ok = bool(np.allclose(self.obj.time, self.obj.dt * np.arange(len(v)), rtol=1e-13, atol=0))
        except Exception:
            time_ok = False
        return {"shares": [self.shares(0), self.shares(1)],
                "caller_ok": [digest(self.callers[k]) == self.expected[k] for k in (0, 1)],
                "object_ok": bool(self.object_ok), "isarr": bool(isarr), "len_ok": bool(len(v) == npts), "time_ok": time_ok}


def session_ops(kind):
    import eqsig

    _ro = [0]

    def _handed_over(c, k, call):
        # every other time the caller's ndarray is handed over READ-ONLY (a frombuffer / memory-mapped record, or a flag the
        # caller switches back on afterwards): the object owns a copy all the same
        arr = c.callers[k]
        _ro[0] += 1
        ro = isinstance(arr, np.ndarray) and _ro[0] % 2 == 0
        if ro:
            arr.setflags(write=False)
        try:
            call(arr)
        finally:
            if ro:
                arr.setflags(write=True)

    def construct(k):
        def f(c):
            def mk(arr):
                c.obj = c.cls(arr, DT)
            _handed_over(c, k, mk)
        return f

    def reset(k):
        def f(c):
            _handed_over(c, k, lambda arr: c.obj.reset_values(arr))
        return f

    def caller_write(k):
        def f(c):
            before = digest(np.array(c.obj.values, dtype=float))
            if k == 0:
                c.callers[0][3] += 1.5
                c.callers[0][-1] *= 0.5
            else:
                c.callers[1][3] = c.callers[1][3] + 1.5
                c.callers[1][-1] = c.callers[1][-1] * 0.5
            c.expected[k] = digest(c.callers[k])
            if digest(np.array(c.obj.values, dtype=float)) != before:
                c.object_ok = False
        return f

    def call(name, *a, **kw):
        def f(c):
            getattr(c.obj, name)(*a, **kw)
        return f

    def add_signal(c):
        c.obj.add_signal(eqsig.Signal(0.2 * np.cos(np.arange(c.obj.npts) / 2.0), c.obj.dt))

    def read_derived(c):
        _ = (c.obj.fa_spectrum, c.obj.smooth_fa_spectrum, c.obj.npts, c.obj.time)
        if c.kind == "AccSignal":
            _ = (c.obj.velocity, c.obj.pgd)

    ops = {}
    for k in (0, 1):
        ops["construct_%d" % (k + 1)] = construct(k)
        ops["reset_%d" % (k + 1)] = reset(k)
        ops["caller_write_%d" % (k + 1)] = caller_write(k)
    ops["running_average"] = call("running_average", 3)
    ops["add_constant"] = call("add_constant", 0.37)
    ops["add_series"] = lambda c: c.obj.add_series(0.1 * np.sin(np.arange(c.obj.npts) / 1.7))
    ops["add_signal"] = add_signal
    ops["butter_pass"] = call("butter_pass", (0.9, 14.0), filter_order=2)
    ops["remove_average"] = call("remove_average")
    ops["remove_poly"] = call("remove_poly", 1)
    ops["reset_temp"] = lambda c: c.obj.reset_values(np.array(c.obj.values, dtype=float) * 0.9 + 0.01)
    def reset_rejected(c):
        try:
            c.obj.reset_values([[0.1, 0.2, 0.3], [0.4, 0.5]])         # ragged: cannot become a numeric record
        except Exception:
            pass

    ops["reset_rejected"] = reset_rejected

    def write_into_time(c):
        t = c.obj.time
        t[len(t) // 3:] -= t[len(t) // 3]
        t *= 2.0

    ops["write_into_time"] = write_into_time
    ops["read_values"] = lambda c: c.obj.values
    ops["read_derived"] = read_derived
    if kind == "AccSignal":
        ops["remove_rolling_average_acc"] = call("remove_rolling_average", mtype="acc", freq_window=12)
        ops["rebase_displacement"] = call("rebase_displacement")
        ops["set_zero_residual_velocity"] = call("set_zero_residual_velocity")
        ops["set_zero_residual_displacement"] = call("set_zero_residual_displacement")
        ops["set_zero_residual_displacement_and_velocity"] = call("set_zero_residual_displacement_and_velocity")
        ops["set_zero_residual_dv_timezone"] = call("set_zero_residual_displacement_and_velocity", timezone=(0.07, 0.31))
        ops["correct_me"] = call("correct_me")
        ops["remove_rolling_average_velocity"] = call("remove_rolling_average", mtype="velocity", freq_window=12)
    return ops


def run_session(rep, kind, opseq, site, seed=3):
    c = Ctx(kind, seed)
    ops = session_ops(kind)
    events = []
    for op in opseq:
        if op not in ops:
            raise tlc.MachineryError("operation %s of the model has no binding" % op)
        try:
            apply_op(c, ops[op])
        except Exception as ex:
            rep.fail("Raises", site, {"kind": kind, "op": op, "error": "%s: %s" % (type(ex).__name__, ex), "ops": list(opseq)[:40]})
            break
        e = c.pi()
        e["op"] = op
        events.append(e)
    return events


# ------------------------------------------------------------------------------------------------
# pure calls

def pure_calls():
    """(name, argument names, callable) -- every array-/signal-level public analysis function"""
    import eqsig
    from eqsig import sdof, im, stockwell, surface, displacements, multiple
    from eqsig.fns import peaks_and_crossings as pc, frequency as fq, average as av, generic as gn, time_shift as ts, time_step as tp
    P = np.array([0.0, 0.05, 0.3, 1.0])
    L = []
    A = L.append
    A(("sdof.response_series", ["v"], lambda v: sdof.response_series(v, DT, P, 0.05)))
    A(("sdof.nigam_and_jennings_response", ["v", "per"], lambda v, per: sdof.nigam_and_jennings_response(v, DT, per, 0.05)))
    A(("sdof.pseudo_response_spectra", ["v", "per"], lambda v, per: sdof.pseudo_response_spectra(v, DT, per, 0.05)))
    A(("sdof.true_response_spectra", ["v", "per"], lambda v, per: sdof.true_response_spectra(v, DT, per, 0.05)))
    A(("sdof.calc_resp_uke_spectrum", ["asig"], lambda s: sdof.calc_resp_uke_spectrum(s, periods=P[1:])))
    A(("sdof.calc_input_energy_spectrum", ["asig"], lambda s: sdof.calc_input_energy_spectrum(s, periods=P[1:])))
    A(("displacements.calc_velo_and_disp_from_accel_arr", ["v"], lambda v: displacements.calc_velo_and_disp_from_accel_arr(v, DT)))
    A(("displacements.calc_velo_and_disp_from_accel_arr(trap=False)", ["v"], lambda v: displacements.calc_velo_and_disp_from_accel_arr(v, DT, trap=False)))
    A(("im.calc_sig_dur_vals", ["v"], lambda v: im.calc_sig_dur_vals(v, DT, se=True)))
    A(("im.calc_peak", ["v"], lambda v: im.calc_peak(v)))
    for nme in ["calc_sig_dur", "calc_arias_intensity", "calc_cav", "calc_cav_dp", "calc_isv", "max_fa_period", "calc_bandwidth_freqs",
                "calc_bandwidth_f_min", "calc_bandwidth_f_max", "calc_integral_of_abs_velocity", "calc_integral_of_abs_acceleration",
                "calc_cumulative_abs_displacement", "calc_unit_kinetic_energy", "calc_asi", "calc_vsi", "calc_max_velocity_period",
                "max_acceleration_period"]:
        A(("im." + nme, ["asig"], (lambda f: (lambda s: f(s)))(getattr(im, nme))))
    A(("im.calc_brac_dur", ["asig"], lambda s: im.calc_brac_dur(s, 0.3, se=True)))
    A(("im.cumulative_response_spectra", ["asig"], lambda s: im.cumulative_response_spectra(s, "arias_intensity", periods=P[1:])))
    A(("im.calc_n_cyc_array_w_power_law", ["v"], lambda v: im.calc_n_cyc_array_w_power_law(v, 0.8, 0.3)))
    A(("im.calc_cyc_amp_array_w_power_law", ["v"], lambda v: im.calc_cyc_amp_array_w_power_law(v, 15, 0.3)))
    A(("im.calc_cyc_amp_gm_arrays_w_power_law", ["v", "w"], lambda v, w: im.calc_cyc_amp_gm_arrays_w_power_law(v, w, 15, 0.3)))
    A(("im.calc_cyc_amp_combined_arrays_w_power_law", ["v", "w"], lambda v, w: im.calc_cyc_amp_combined_arrays_w_power_law(v, w, 15, 0.3)))
    for nme in ["get_peak_array_indices", "get_zero_crossings_array_indices", "get_switched_peak_array_indices",
                "determine_peaks_only_delta_series", "determine_pseudo_cyclic_peak_only_series", "get_n_cyc_array",
                "get_zero_and_peak_array_indices", "get_major_change_indices", "clean_out_non_changing",
                "determine_indices_of_peaks_for_cleaned_array", "determine_peak_only_delta_series_4_cleaned_data"]:
        A(("pc." + nme, ["v"], (lambda f: (lambda v: f(v)))(getattr(pc, nme))))
    A(("pc.get_peak_array_indices(max)", ["v"], lambda v: pc.get_peak_array_indices(v, ptype="max")))
    A(("pc.get_switched_peak_array_indices(tol)", ["v"], lambda v: pc.get_switched_peak_array_indices(v, tol=0.4)))
    A(("pc.get_zero_crossings_array_indices(tol)", ["v"], lambda v: pc.get_zero_crossings_array_indices(v, keep_adj_zeros=True, tol=0.4)))
    for nme in ["get_peak_indices", "get_zero_crossings_indices", "get_switched_peak_indices"]:
        A(("pc." + nme, ["asig"], (lambda f: (lambda s: f(s)))(getattr(pc, nme))))
    A(("fq.calc_smooth_fa_spectrum", ["ff", "fa", "sf"], lambda ff, fa, sf: fq.calc_smooth_fa_spectrum(ff, fa, sf)))
    A(("fq.calc_smoothing_matrix_konno_1998", ["ff", "sf"], lambda ff, sf: fq.calc_smoothing_matrix_konno_1998(ff, sf)))
    A(("fq.calc_smooth_fa_spectrum_w_custom_matrix", ["asig", "mat"], lambda s, m: fq.calc_smooth_fa_spectrum_w_custom_matrix(s, m)))
    A(("fq.generate_fa_spectrum", ["asig"], lambda s: fq.generate_fa_spectrum(s)))
    A(("fq.calc_fa_spectrum", ["asig"], lambda s: fq.calc_fa_spectrum(s, p2_plus=1)))
    A(("fq.fas2values", ["fa"], lambda fa: fq.fas2values(fa, DT)))
    A(("fq.fas2signal", ["fa"], lambda fa: fq.fas2signal(fa, DT).values))
    A(("fq.get_sig_freq_range", ["asig"], lambda s: fq.get_sig_freq_range(s)))
    A(("av.calc_step_fn_vals_error", ["v"], lambda v: av.calc_step_fn_vals_error(v, pow=2)))
    A(("av.calc_step_fn_steps_vals", ["v"], lambda v: av.calc_step_fn_steps_vals(v)))
    A(("av.calc_roll_av_vals", ["v"], lambda v: av.calc_roll_av_vals(v, 5, mode="centre")))
    A(("av.get_section_average", ["asig"], lambda s: av.get_section_average(s, start=0, end=0.2)))
    A(("gn.interp2d", ["xq", "xf", "tab"], lambda xq, xf, tab: gn.interp2d(xq, xf, tab)))
    A(("gn.interp_left", ["xq", "xf", "yy"], lambda xq, xf, yy: gn.interp_left(xq, xf, yy)))
    A(("gn.remove_poly", ["v"], lambda v: gn.remove_poly(v, poly_fit=2)))
    A(("ts.put_array_in_2d_array", ["v", "sh"], lambda v, sh: ts.put_array_in_2d_array(v, sh, clip="both")))
    A(("ts.join_values_w_shifts", ["v", "shp"], lambda v, sh: ts.join_values_w_shifts(v, sh, jtype="sub")))
    A(("ts.join_sig_w_time_shift", ["asig", "tsh"], lambda s, tsh: ts.join_sig_w_time_shift(s, tsh)))
    A(("tp.interp_array_to_approx_dt", ["v"], lambda v: tp.interp_array_to_approx_dt(v, DT, 0.004)))
    A(("tp.interp_array_to_approx_dt(decimate)", ["v"], lambda v: tp.interp_array_to_approx_dt(v, DT, 0.025)))
    A(("tp.interp_to_approx_dt", ["asig"], lambda s: tp.interp_to_approx_dt(s, 0.004).values))
    A(("tp.resample_to_approx_dt", ["asig"], lambda s: tp.resample_to_approx_dt(s, 0.005).values))
    A(("stockwell.transform", ["v"], lambda v: stockwell.transform(v)))
    A(("stockwell.transform_w_scipy_fft", ["v"], lambda v: stockwell.transform_w_scipy_fft(v)))
    A(("stockwell.itransform", ["stock"], lambda st: stockwell.itransform(st)))
    A(("stockwell.get_max_tifq_vals_freq", ["stock"], lambda st: stockwell.get_max_tifq_vals_freq(st, DT)))
    A(("stockwell.get_max_stockwell_freq", ["asig"], lambda s: stockwell.get_max_stockwell_freq(s)))
    A(("surface.calc_surface_energy", ["asig", "tt"], lambda s, tt: surface.calc_surface_energy(s, tt, nodal=True, up_red=1.0, down_red=0.8, stt=0.02, trim=True)))
    A(("surface.calc_cum_abs_surface_energy", ["asig", "tt"], lambda s, tt: surface.calc_cum_abs_surface_energy(s, tt, nodal=False, stt=0.02, trim=True, start=True)))
    A(("surface.calc_surface_energy(array reductions)", ["asig", "tt", "red"], lambda s, tt, red: surface.calc_surface_energy(s, tt, up_red=red, down_red=red)))
    A(("surface.get_time_shift_motions", ["asig", "tt"], lambda s, tt: surface.get_time_shift_motions(s, tt)))
    # corner of the travel-time domain: nothing to pad (surface point / less than half a sample), scalar reductions != 1
    A(("surface.calc_surface_energy(tt=0, up_red=0.8)", ["asig"], lambda s: surface.calc_surface_energy(s, np.array([0.0]), up_red=0.8, down_red=0.6)))
    A(("surface.calc_cum_abs_surface_energy(scalar tt < dt/2)", ["asig"], lambda s: surface.calc_cum_abs_surface_energy(s, 0.003, nodal=False, up_red=0.7, down_red=0.9)))
    A(("surface.get_time_shift_motions(tt=0)", ["asig"], lambda s: surface.get_time_shift_motions(s, 0.0, up_red=0.5, down_red=0.5)))
    A(("multiple.combine_at_angle", ["asig", "asig2"], lambda s, s2: multiple.combine_at_angle(s, s2, 30.0).values))
    A(("multiple.compute_rotated", ["asig", "asig2"], lambda s, s2: multiple.compute_rotated(s, s2, parameter="pga", points=7)))
    # ---- rarely used option combinations of the same functions (one entry per combination)
    A(("pc.get_major_change_indices(already_diff, dx=0.5)", ["v"], lambda v: pc.get_major_change_indices(v, already_diff=True, dx=0.5)))
    A(("pc.get_major_change_indices(rtol, atol, dx=0.01)", ["v"], lambda v: pc.get_major_change_indices(v, rtol=1e-3, atol=1e-2, dx=0.01)))
    A(("pc.get_n_cyc_array(start=peak)", ["v"], lambda v: pc.get_n_cyc_array(v, opt="all", start="peak")))
    A(("pc.get_peak_array_indices(min)", ["v"], lambda v: pc.get_peak_array_indices(v, ptype="min")))
    A(("pc.get_zero_and_peak_array_indices(zvals, min_step)", ["v", "w"], lambda v, w: pc.get_zero_and_peak_array_indices(v, zvals=w, min_step=2)))
    A(("pc.get_zero_crossings_array_indices(keep_adj_zeros)", ["v"], lambda v: pc.get_zero_crossings_array_indices(v, keep_adj_zeros=True)))
    A(("pc.determine_indices_of_peaks_for_cleaned", ["v"], lambda v: pc.determine_indices_of_peaks_for_cleaned(v)))
    A(("av.calc_roll_av_vals(forward)", ["v"], lambda v: av.calc_roll_av_vals(v, 4)))
    A(("av.calc_roll_av_vals(backward)", ["v"], lambda v: av.calc_roll_av_vals(v, 7, mode="backward")))
    A(("av.calc_roll_av_vals(center, 1)", ["v"], lambda v: av.calc_roll_av_vals(v, 1, mode="center")))
    A(("av.calc_step_fn_vals_error(pow=1, dir=down)", ["v"], lambda v: av.calc_step_fn_vals_error(v, pow=1, dir="down")))
    A(("av.calc_step_fn_vals_error(dir=up)", ["v"], lambda v: av.calc_step_fn_vals_error(v, 2, "up")))
    A(("av.calc_step_fn_steps_vals(ind)", ["v"], lambda v: av.calc_step_fn_steps_vals(v, ind=9)))
    A(("av.get_section_average(index)", ["asig"], lambda s: av.get_section_average(s, start=3, end=40, index=True)))
    A(("gn.interp2d(queries outside the table)", ["xqo", "xf", "tab"], lambda xq, xf, tab: gn.interp2d(xq, xf, tab)))
    A(("gn.interp2d(queries on the nodes)", ["xqn", "xf", "tab"], lambda xq, xf, tab: gn.interp2d(xq, xf, tab)))
    A(("gn.interp_left(beyond the last node)", ["xqr", "xf", "yy"], lambda xq, xf, yy: gn.interp_left(xq, xf, yy)))
    A(("gn.interp_left(y=None)", ["xq", "xf"], lambda xq, xf: gn.interp_left(xq, xf)))
    A(("gn.interp_left(scalar query)", ["xf", "yy"], lambda xf, yy: gn.interp_left(1.7, xf, yy)))
    A(("gn.remove_poly(0)", ["v"], lambda v: gn.remove_poly(v)))
    for clip_ in ("none", "start", "end"):
        A(("ts.put_array_in_2d_array(clip=%s)" % clip_, ["v", "sh"], (lambda c: (lambda v, sh: ts.put_array_in_2d_array(v, sh, clip=c)))(clip_)))
    A(("ts.join_values_w_shifts(add)", ["v", "shp"], lambda v, sh: ts.join_values_w_shifts(v, sh)))
    A(("ts.join_sig_w_time_shift(sub)", ["asig", "tsh"], lambda s, tsh: ts.join_sig_w_time_shift(s, tsh, jtype="sub")))
    A(("tp.interp_array_to_approx_dt(even=False)", ["v"], lambda v: tp.interp_array_to_approx_dt(v, DT, 0.003, even=False)))
    A(("tp.interp_array_to_approx_dt(same step)", ["v"], lambda v: tp.interp_array_to_approx_dt(v, DT, DT)))
    A(("tp.interp_to_approx_dt(decimate, even=False)", ["asig"], lambda s: tp.interp_to_approx_dt(s, 0.035, even=False).values))
    A(("tp.resample_to_approx_dt(decimate)", ["asig"], lambda s: tp.resample_to_approx_dt(s, 0.02, even=False).values))
    A(("fq.calc_fa_spectrum(n)", ["asig"], lambda s: fq.calc_fa_spectrum(s, n=301)))
    A(("fq.generate_fa_spectrum(n_pad=False)", ["asig"], lambda s: fq.generate_fa_spectrum(s, n_pad=False)))
    A(("fq.calc_smooth_fa_spectrum(default targets, band)", ["ff", "fa"], lambda ff, fa: fq.calc_smooth_fa_spectrum(ff, fa, band=20)))
    A(("fq.calc_smoothing_matrix_konno_1998(default targets, band)", ["ff"], lambda ff: fq.calc_smoothing_matrix_konno_1998(ff, band=60)))
    A(("fq.generate_smooth_fa_spectrum", ["sf", "ff", "fa"], lambda sf, ff, fa: fq.generate_smooth_fa_spectrum(sf, ff, fa, band=30)))
    A(("fq.fas2signal(acc)", ["fa"], lambda fa: fq.fas2signal(fa, DT, stype="acc-signal").values))
    A(("fq.get_sig_freq_range(ratio)", ["asig"], lambda s: fq.get_sig_freq_range(s, ratio=5)))
    A(("fq.get_sig_array_indexes_range", ["absfa"], lambda a: fq.get_sig_array_indexes_range(a, ratio=4)))
    A(("im.calc_asi(xi, periods)", ["asig"], lambda s: im.calc_asi(s, xi=0.1, periods=np.array([0.1, 0.2, 0.5]))))
    A(("im.calc_vsi(xi)", ["asig"], lambda s: im.calc_vsi(s, xi=0.02)))
    A(("im.calc_bandwidth_freqs(ratio)", ["asig"], lambda s: im.calc_bandwidth_freqs(s, ratio=0.5)))
    A(("im.calc_brac_dur(se=False)", ["asig"], lambda s: im.calc_brac_dur(s, 1.1)))
    A(("im.calc_n_cyc_array_w_power_law(cut_off=0, array b)", ["v"], lambda v: im.calc_n_cyc_array_w_power_law(v, 0.8, np.array([0.3, 0.5]), cut_off=0.0)))
    A(("im.calc_cyc_amp_array_w_power_law(array b)", ["v"], lambda v: im.calc_cyc_amp_array_w_power_law(v, 7.5, np.array([0.2, 1.0]))))
    A(("im.calc_sig_dur(start, end, se)", ["asig"], lambda s: im.calc_sig_dur(s, start=0.1, end=0.8, se=True)))
    A(("im.calc_sig_dur_vals(start, end)", ["v"], lambda v: im.calc_sig_dur_vals(v, DT, start=0.2, end=0.75)))
    A(("im.calc_significant_duration", ["v"], lambda v: im.calc_significant_duration(v, DT)))
    A(("sdof.calc_input_energy_spectrum(series, xi)", ["asig"], lambda s: sdof.calc_input_energy_spectrum(s, periods=P[1:], xi=0.2, series=True)))
    A(("sdof.calc_resp_uke_spectrum(xi)", ["asig"], lambda s: sdof.calc_resp_uke_spectrum(s, periods=P[2:], xi=0.0)))
    A(("im.cumulative_response_spectra(xi)", ["asig"], lambda s: im.cumulative_response_spectra(s, "arias_intensity", periods=P[2:], xi=0.2)))
    A(("stockwell.get_stockwell_freqs / times (after transform)", ["asig"], lambda s: (setattr(s, "swtf", stockwell.transform(np.asarray(s.values, dtype=float))), stockwell.get_stockwell_freqs(s), stockwell.get_stockwell_times(s))[1:]))
    A(("sdof.absmax(axis)", ["tab"], lambda t: sdof.absmax(t, axis=1)))
    A(("sdof.response_series(xi=0, no zero period)", ["v"], lambda v: sdof.response_series(v, DT, P[1:], 0.0)))
    A(("sdof.single_elastic_response", ["v"], lambda v: sdof.single_elastic_response(v, DT, 0.5, 0.05)))
    A(("sdof.slow_response_spectra", ["v"], lambda v: sdof.slow_response_spectra(v[:60], DT, P[1:], np.array([0.05, 0.2]))))
    A(("displacements.velocity_and_displacement_from_acceleration", ["v"], lambda v: displacements.velocity_and_displacement_from_acceleration(v, DT, trap=True)))
    for nod_, trim_, start_ in ((False, False, True), (True, True, True), (False, True, False), (True, False, False)):
        A(("surface.calc_surface_energy(nodal=%s, trim=%s, start=%s, stt)" % (nod_, trim_, start_), ["asig", "tt"],
           (lambda a, b, c: (lambda s, tt: surface.calc_surface_energy(s, tt, nodal=a, up_red=0.9, down_red=0.7, stt=0.035, trim=b, start=c)))(nod_, trim_, start_)))
    A(("surface.get_time_shift_motions(trim, start, stt)", ["asig", "tt"], lambda s, tt: surface.get_time_shift_motions(s, tt, nodal=False, stt=0.02, trim=True, start=True)))
    A(("surface.trim_to_length", ["rows3", "tt"], lambda r, tt: surface.trim_to_length(r, 200, tt, DT, trim=True, start=True, s2s_travel_time=0.03)))
    A(("stockwell.transform_slow(ith=1)", ["v"], lambda v: stockwell.transform_slow(v[:40], ith=1)))
    A(("multiple.compute_rotated(func, offset)", ["asig", "asig2"], lambda s, s2: multiple.compute_rotated(s, s2, angle_off_ns=25.0, func=im.calc_cav, points=5)))
    A(("multiple.compute_rotated(array-valued parameter)", ["asig", "asig2"], lambda s, s2: multiple.compute_rotated(s, s2, parameter="velocity", points=3)))
    # functions that RETURN a signal object: the result is then changed IN PLACE (the inputs may not move with it)
    def _mutated(o):
        with warnings.catch_warnings():
            warnings.simplefilter("ignore")
            if hasattr(o, "rebase_displacement"):
                o.rebase_displacement()
                o.set_zero_residual_velocity()
            v = o.values
            if isinstance(v, np.ndarray) and v.dtype.kind == "f":
                v += 1.0
        return np.array(o.values)
    for ang_ in (0.0, 90.0, 360.0, 37.0):
        A(("multiple.combine_at_angle(%g) -> result changed in place" % ang_, ["asig", "asig2"],
           (lambda t_: (lambda s, s2: _mutated(multiple.combine_at_angle(s, s2, t_))))(ang_)))
    A(("tp.interp_to_approx_dt(same step) -> result changed in place", ["asig"], lambda s: _mutated(tp.interp_to_approx_dt(s, DT, even=False))))
    A(("tp.resample_to_approx_dt(same step) -> result changed in place", ["asig"], lambda s: _mutated(tp.resample_to_approx_dt(s, DT, even=False))))
    A(("fq.fas2signal -> result changed in place", ["fa"], lambda fa: _mutated(fq.fas2signal(fa, DT, stype="acc-signal"))))
    A(("Signal(...)", ["v"], lambda v: eqsig.Signal(v, DT).values))
    A(("AccSignal(...).derived", ["v"], lambda v: (lambda o: (o.velocity, o.displacement, o.fa_spectrum, o.s_a))(eqsig.AccSignal(v, DT, response_times=P[1:]))))
    return L


SHAPES = ["generic", "zero_start_down", "zero_start_up", "plateaus", "leading_zeros", "negative_offset", "explicit_state"]


def make_env(dtype, container, seed, shape="generic"):
    import eqsig
    from eqsig import stockwell
    rng = np.random.default_rng(seed)
    n = 256
    x = np.sin(np.arange(n) / 3.0) * 2 + rng.standard_normal(n) + 0.3
    y = np.cos(np.arange(n) / 4.0) * 2 + rng.standard_normal(n)
    if shape == "zero_start_down":       # starts exactly at 0, first movement downwards, no equal neighbours
        x[0], x[1] = 0.0, -1.7
        y[0], y[1] = 0.0, -0.9
    elif shape == "zero_start_up":
        x[0], x[1] = 0.0, 1.3
        y[0], y[1] = 0.0, 0.4
    elif shape == "plateaus":
        x = np.repeat(x[: n // 4], 4)
        y = np.repeat(y[: n // 2], 2)
    elif shape == "leading_zeros":
        x[:5] = 0.0
        y[:3] = 0.0
        x[-4:] = 0.0
    elif shape == "negative_offset":
        x = x - 4.0
        y = -np.abs(y) - 0.5
    if dtype == "int64":
        x = np.round(x * 3).astype(np.int64)
        y = np.round(y * 3).astype(np.int64)

    def wrap(a):
        if container == "readonly":
            a = np.array(a)
            a.setflags(write=False)
            return a
        return a.tolist() if container == "list" else a
    asig = eqsig.AccSignal(x, DT, response_times=np.array([0.1, 0.4, 1.0]))
    asig2 = eqsig.AccSignal(y, DT)
    if shape == "explicit_state":
        # the caller generated the derived quantities explicitly with settings of their own: an analysis function may not
        # replace or discard them
        with warnings.catch_warnings():
            warnings.simplefilter("ignore")
            asig.gen_response_spectrum(xi=0.2, min_dt_ratio=1)
            asig.gen_fa_spectrum(p2_plus=1)
            asig.gen_smooth_fa_spectrum(band=100)
            asig.generate_displacement_and_velocity_series(trap=False)
            asig2.gen_response_spectrum(xi=0.0)
    env = {"v": wrap(x.copy()), "w": wrap(y.copy()), "asig": asig, "asig2": asig2,
           "per": wrap(np.array([0.0, 0.05, 0.3, 1.0])),
           "ff": np.array(asig.fa_freqs), "fa": np.array(asig.fa_spectrum), "sf": np.logspace(-0.3, 1.3, 9),
           "xq": np.array([0.5, 1.0, 2.2, 2.5]), "xf": np.array([0.0, 1.0, 2.0, 3.0]),
           "xqo": np.array([-1.0, 0.5, 2.5, 4.5]), "xqn": np.array([0.0, 1.0, 3.0]), "xqr": np.array([0.0, 2.5, 3.0, 7.0]),
           "absfa": np.abs(np.array(asig.fa_spectrum)), "rows3": np.outer(np.array([1.0, 0.5, -2.0]), np.asarray(x, dtype=float)),
           "tab": np.array([[0, 0, 0], [0, 1, 4], [2, 6, 2], [10, 10, 10.0]]), "yy": wrap(np.array([5.0, 6.0, 7.5, 9.0])),
           "sh": np.array([-2, 0, 3]), "shp": np.array([0, 2, 3]), "tsh": np.array([0.0, 0.02, 0.05]), "tt": np.array([0.0, 0.015, 0.04]),
           "red": np.array([1.0, 0.9, 0.5]), "stock": stockwell.transform(x.astype(float))}
    from eqsig.fns import frequency as fq
    env["mat"] = fq.calc_smoothing_matrix_konno_1998(np.array(asig.fa_freqs), env["sf"])
    return env


def perturbed(a):
    """same type, shape, length and end values; interior changed"""
    import eqsig
    if isinstance(a, np.ndarray) and a.ndim == 1 and len(a) >= 3 and a.dtype.kind in "fiu":
        b = a.copy()
        k = 2 if len(a) >= 7 else 1           # keep the first and last two entries (a leading zero bin may be stripped)
        b[k:-k] = b[k:-k][::-1]
        if np.array_equal(b, a):
            b[k] = b[k] + (1 if a.dtype.kind in "iu" else 0.123)
        return b
    if isinstance(a, np.ndarray):
        return a.copy()
    if isinstance(a, list) and len(a) >= 3:
        return [a[0]] + a[1:-1][::-1] + [a[-1]]
    if hasattr(a, "values") and hasattr(a, "dt"):
        v = perturbed(np.array(a.values))
        kw = {"response_times": np.array(a.response_times)} if hasattr(a, "response_times") else {}
        return type(a)(v, a.dt, **kw)
    return a


def shortened(a):
    import eqsig
    if isinstance(a, np.ndarray) and a.ndim == 1 and len(a) >= 4:
        return a[:-1].copy()
    if isinstance(a, list) and len(a) >= 4:
        return a[:-1]
    if hasattr(a, "values") and hasattr(a, "dt"):
        kw = {"response_times": np.array(a.response_times)} if hasattr(a, "response_times") else {}
        return type(a)(np.array(a.values)[:-2], a.dt, **kw)
    return a


def pure_events(rep, tier, seed):
    recs = []
    calls = pure_calls()
    variants = [("float64", "ndarray"), ("int64", "ndarray"), ("float64", "list"), ("int64", "list"), ("float64", "readonly")]
    nraised = 0
    combos = [(d, c, "generic") for d, c in variants] + [(d, "ndarray", sh) for sh in SHAPES[1:] for d in ("float64", "int64")]
    for dtype, container, shape in combos:
        for name, argn, fn in calls:
            if shape != "generic" and not (set(argn) & {"v", "w", "asig", "asig2"}):
                continue
            env = make_env(dtype, container, seed + 5, shape)
            args = [env[a] for a in argn]
            pre = [digest(a) for a in args]
            raised = None
            res1 = res2 = res1h = ""
            with warnings.catch_warnings():
                warnings.simplefilter("ignore")
                try:
                    # history: first a call with OTHER arguments of the same shapes, lengths and end values ...
                    try:
                        fn(*[perturbed(a) for a in args])
                    except Exception:
                        pass
                    r1 = fn(*args)
                    res1 = digest(r1)
                    mid = [digest(a) for a in args]
                    # between the two calls the function is called with OTHER arguments of the same shapes, lengths and
                    # end values (a result remembered under a partial key must not leak into the second call)
                    try:
                        fn(*[perturbed(a) for a in args])
                    except Exception:
                        pass
                    # ... and one with different lengths / end values, so that anything remembered is displaced
                    try:
                        fn(*[shortened(a) for a in args])
                    except Exception:
                        pass
                    r2 = fn(*args)
                    res2 = digest(r2)
                    # what was handed out by the FIRST call belongs to the caller: the calls made since have not changed it
                    res1h = digest(r1)
                except Exception as ex:
                    raised = type(ex).__name__
                    nraised += 1
            post = [digest(a) for a in args]
            recs.append({"kind": "pure", "fn": name, "dtype": dtype, "container": container, "shape": shape, "pre": pre, "post": post,
                         "res1": res1, "res2": res2, "res1h": res1h, "raised": raised is not None, "exc": raised or ""})
    rep.extra["pure_calls"] = {"functions": len(calls), "variants": len(combos), "events": len(recs), "raised": nraised}
    return recs


def grid_sessions(rep, tier):
    """values/npts/time grid for many (length, dt) pairs: one session per dt and class, one construct_1 (or reset_1)
    event per length (len(values) = npts and time = dt*[0..npts-1] must hold for every length, not a few)"""
    import eqsig
    out = []
    nmax = 400 if tier == "quick" else 3000
    for dt in (0.01, 0.005, 0.02, 0.1, 0.05, 0.004, 0.001, 0.5, 2.0, 0.013):
        for kind in ("AccSignal", "Signal"):
            c = Ctx(kind)
            cls = c.cls
            events = []
            for n in range(1, nmax + 1):
                a = np.linspace(-1.0, 1.0, n)
                c.callers[0] = a
                c.expected[0] = digest(a)
                if n % 2:
                    c.obj = cls(a, dt)
                    op = "construct_1"
                else:
                    c.obj.reset_values(a)
                    op = "reset_1"
                e = c.pi()
                # pi() compares with obj.dt * arange: make it independent of obj.dt
                v = c.obj.values
                try:
                    t = np.asarray(c.obj.time)
                    e["time_ok"] = bool(len(t) == n and np.allclose(t, dt * np.arange(n), rtol=1e-13, atol=0))
                except Exception:
                    e["time_ok"] = False
                e["len_ok"] = bool(len(v) == n and c.obj.npts == n)
                e["op"] = op
                events.append(e)
            out.append({"kind": "session", "cls": kind, "src": "grid dt=%s n=1..%d" % (dt, nmax), "events": events})
            rep.evaluations += len(events)
    return out


# ------------------------------------------------------------------------------------------------
def run(tier, seed):
    rep = Report("C05", tier, seed)
    wd = workdir("C05")
    recs = []
    for kind in ("AccSignal", "Signal"):
        r = tlc.run("Ownership", cfg=CFG % (kind, "FALSE", "TRUE"), workers=1, job="C05/mc_%s" % kind)
        if r.invariant_violated:
            raise tlc.MachineryError("repaired Ownership model violates %s" % r.invariant_violated)
        rep.add_tlc("Ownership(%s, repaired)" % kind, r, "complete state space: NoAlias, CallerIntact, ObjectIntact, ValuesNumericArray")
        edges = parse_edges(r.stdout)
        ra = tlc.run("Ownership", cfg=CFG % (kind, "TRUE", "FALSE"), workers=1, job="C05/mc_asfound_%s" % kind, allow_invariant_violation=True)
        if not ra.invariant_violated:
            raise tlc.MachineryError("as-found Ownership model does not exhibit the known defect")
        rep.extra["as_found_model_%s" % kind] = "%s violated (TLC counterexample)" % ra.invariant_violated
        # spec -> code: every edge of the graph (each from a fresh context, preceded by the ops that reach the source state)
        for lvl, src, op, dst in edges:
            for pre in ([], ["reset_1"], ["reset_2"], ["construct_1", "caller_write_1"], ["construct_2", "reset_1", "running_average"]):
                ev = run_session(rep, kind, pre + [op], "walk")
                recs.append({"kind": "session", "cls": kind, "src": "walk", "events": ev})
                rep.evaluations += 1
        # TLC -simulate behaviours
        num, depth = (10, 30) if tier == "quick" else (200, 60)
        rs = tlc.run("Ownership", cfg=CFG % (kind, "FALSE", "TRUE"), workers=1, job="C05/sim_%s" % kind,
                     simulate="num=%d" % num, extra=["-depth", str(depth), "-seed", str(seed + 5)])
        behs, cur = [], []
        for lvl, src, op, dst in parse_edges(rs.stdout):
            if lvl == 1 and cur:
                behs.append(cur)
                cur = []
            cur.append(op)
        if cur:
            behs.append(cur)
        for b in behs[:num]:
            ev = run_session(rep, kind, b, "simulate", seed=seed + 7)
            recs.append({"kind": "session", "cls": kind, "src": "simulate", "events": ev})
            rep.evaluations += len(ev)
        rep.extra["simulate_%s" % kind] = {"behaviours": len(behs[:num]), "depth": depth}
    recs += grid_sessions(rep, tier)
    recs += pure_events(rep, tier, seed)
    for i, rc in enumerate(recs):
        rc["tid"] = i + 1
        rc.setdefault("cls", "")
    tr = os.path.join(wd, "trace.ndjson")
    write_ndjson(tr, recs)
    verdicts = {}
    for kind in ("AccSignal", "Signal"):
        sub = [rc for rc in recs if rc["kind"] == "session" and rc["cls"] == kind] if kind == "Signal" else \
              [rc for rc in recs if rc["kind"] == "pure" or rc["cls"] == kind]
        trk = os.path.join(wd, "trace_%s.ndjson" % kind)
        write_ndjson(trk, sub)
        r2 = tlc.run("Trace_Ownership", cfg=TRACE_CFG % kind, env={"TRACE_FILE": trk}, job="C05/trace_%s" % kind)
        if r2.invariant_violated:
            raise tlc.MachineryError("Trace_Ownership: model invariant %s violated along a recorded session" % r2.invariant_violated)
        rep.add_tlc("Trace_Ownership(%s)" % kind, r2, "sessions: each event a step of Ownership; pure calls: frame condition")
        verdicts.update(r2.verdicts)
    for rc in recs:
        t = rc["tid"]
        if t not in verdicts:
            raise tlc.MachineryError("no verdict for record %d" % t)
        rep.traces += 1
        for c in verdicts[t][0]:
            if rc["kind"] == "pure":
                rep.fail(c, rc["fn"], {k: rc[k] for k in ("fn", "dtype", "container", "shape", "pre", "post", "res1", "res2", "exc")})
            else:
                rep.fail(c, "session:" + rc["src"], {"cls": rc["cls"], "ops": [e["op"] for e in rc["events"]][:40],
                                                      "last": rc["events"][-1] if rc["events"] else None})
    rep.sample({"session": [e["op"] for e in recs[7]["events"]], "pi_last": recs[7]["events"][-1]})
    pure = [rc for rc in recs if rc["kind"] == "pure"]
    rep.sample({k: pure[0][k] for k in ("fn", "dtype", "container", "pre", "post", "res1", "res2")})
    rep.exhaustive = False
    rep.assumptions = ["caller containers: one float64 ndarray and one list of floats; integer dtype is covered by the pure-call part",
                       "aliasing is observed with numpy.shares_memory / identity, caller content with SHA-256 of the bytes",
                       "a call that raises for a container it does not accept is recorded (arguments must still be unchanged); determinism is then not asserted"]
    return rep.finish(checker_cmd="tlc Ownership (exhaustive, -simulate) / Trace_Ownership (harness/drivers/c05.py)",
                      trusted_base=["TLC 1.8", "numpy.shares_memory", "hashlib.sha256"])

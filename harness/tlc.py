"""TLC runner and output parsers.

One TLC *job* = one (module, cfg) pair run in /verif/spec with environment variables naming the
input files (IOEnv in the spec).  The runner parses

  * the summary line      "N states generated, M distinct states found, ..."
  * the depth line        "The depth of the complete state graph search is D."
  * protocol lines printed by the spec with PrintT:
        <<"VERDICT", tid, "clause1,clause2", nsteps>>     one per validated trace chain
        <<"MISMATCH", code, "clause">>                   lock-step table disagreement
        <<"NOTE", ...>>                                  free-form diagnostics
  * TLC errors / invariant violations.

Exit-code policy is *not* decided here: the caller classifies what came back.
"""
import os
import re
import shutil
import subprocess
import time

VERIF = os.path.dirname(os.path.dirname(os.path.abspath(__file__)))
SPEC = os.path.join(VERIF, "spec")
WORK = os.path.join(VERIF, "work")
TLA_JAR = "/opt/veriftools/tla/tla2tools.jar"
CM_JAR = "/opt/veriftools/tla/CommunityModules-deps.jar"
CLASSES = os.path.join(VERIF, "build", "classes")


class MachineryError(Exception):
    """TLC crashed / parse error / missing verdicts: exit 2, never a VIOLATION."""


class TlcResult(object):
    def __init__(self):
        self.stdout = ""
        self.generated = 0
        self.distinct = 0
        self.depth = 0
        self.verdicts = {}      # tid -> (set(clauses), nsteps)
        self.mismatches = []    # (code, clause)
        self.notes = []
        self.errors = []
        self.invariant_violated = None
        self.wall_s = 0.0
        self.coverage = {}      # action -> (distinct, generated) when -coverage was on
        self.cmd = ""


_RE_SUM = re.compile(r"(\d+) states generated, (\d+) distinct states found")
_RE_DEPTH = re.compile(r"The depth of the complete state graph search is (\d+)")
_RE_VERDICT = re.compile(r'<<"VERDICT", (-?\d+), "([^"]*)", (-?\d+)>>')
_RE_MISMATCH = re.compile(r'<<"MISMATCH", (-?\d+), "([^"]*)">>')
_RE_NOTE = re.compile(r'<<"NOTE", (.*)>>')
_RE_INV = re.compile(r"Invariant (\S+) is violated")
_RE_COV = re.compile(r"^<(\w+) line \d+, col \d+ to line \d+, col \d+ of module (\w+)>: (\d+):(\d+)", re.M)


def java_cmd(xmx="12g", xss="512m", props=()):
    cmd = ["java", "-XX:+UseParallelGC", "-Xss" + xss, "-Xmx" + xmx]
    for p in props:
        cmd.append("-D" + p)
    cmd += ["-cp", ":".join([CLASSES, TLA_JAR, CM_JAR]), "tlc2.TLC"]
    return cmd


def run(module, cfg=None, env=None, workers=16, timeout=1800, job=None, extra=(), coverage=False,
        allow_invariant_violation=False, xmx="12g", simulate=None):
    """Run TLC on spec/<module>.tla with spec/<cfg>.cfg.  Returns a TlcResult."""
    job = job or module
    meta = os.path.join(WORK, job, "meta")
    shutil.rmtree(meta, ignore_errors=True)
    os.makedirs(meta, exist_ok=True)
    cmd = java_cmd(xmx=xmx) + ["-workers", str(workers), "-noGenerateSpecTE", "-metadir", meta]
    if cfg and "\n" in cfg:      # cfg given as text: write it next to the job's output
        cfgp = os.path.join(WORK, job, module + ".cfg")
        with open(cfgp, "w") as f:
            f.write(cfg)
        cmd += ["-config", cfgp]
    elif cfg:
        cmd += ["-config", cfg + ".cfg"]
    if coverage:
        cmd += ["-coverage", "1"]
    if simulate:
        cmd += ["-simulate", simulate]
    cmd += list(extra)
    cmd += [module + ".tla"]
    e = dict(os.environ)
    e.pop("JAVA_TOOL_OPTIONS", None)
    if env:
        e.update({k: str(v) for k, v in env.items()})
    r = TlcResult()
    r.cmd = " ".join(cmd)
    t0 = time.time()
    try:
        p = subprocess.run(cmd, cwd=SPEC, env=e, stdout=subprocess.PIPE, stderr=subprocess.STDOUT,
                           timeout=timeout)
    except subprocess.TimeoutExpired as ex:
        raise MachineryError("TLC timeout after %ss: %s" % (timeout, r.cmd))
    r.wall_s = time.time() - t0
    out = p.stdout.decode("utf-8", "replace")
    r.stdout = out
    with open(os.path.join(WORK, job, "tlc.out"), "w") as f:
        f.write(out)
    shutil.rmtree(meta, ignore_errors=True)
    m = None
    for m in _RE_SUM.finditer(out):
        pass
    if m:
        r.generated, r.distinct = int(m.group(1)), int(m.group(2))
    m = _RE_DEPTH.search(out)
    if m:
        r.depth = int(m.group(1))
    flat = " ".join(out.split())      # TLC pretty-prints long tuples over several lines: match on normalised text
    flat = flat.replace("<< ", "<<").replace(" >>", ">>")
    for m in _RE_VERDICT.finditer(flat):
        tid = int(m.group(1))
        cl = set(c for c in m.group(2).split(",") if c)
        if tid in r.verdicts:   # same chain reached its end twice (should not happen) -> union
            cl |= r.verdicts[tid][0]
        r.verdicts[tid] = (cl, int(m.group(3)))
    for m in _RE_MISMATCH.finditer(flat):
        r.mismatches.append((int(m.group(1)), m.group(2)))
    for m in _RE_NOTE.finditer(out):
        r.notes.append(m.group(1))
    m = _RE_INV.search(out)
    if m:
        r.invariant_violated = m.group(1)
    for m in _RE_COV.finditer(out):
        r.coverage[m.group(1)] = (int(m.group(3)), int(m.group(4)))
    for line in out.splitlines():
        if line.startswith("Loading "):
            continue
        if line.startswith("Error:") or "unexpected exception" in line or line.startswith("Exception in thread"):
            r.errors.append(line.strip())
    bad = [x for x in r.errors if not (allow_invariant_violation and "Invariant" in x)]
    if allow_invariant_violation and r.invariant_violated:
        bad = [x for x in bad if "behavior up to this point" not in x.lower() and "Invariant" not in x]
    if (bad or (p.returncode != 0 and not (allow_invariant_violation and r.invariant_violated))):
        tail = "\n".join(out.splitlines()[-40:])
        raise MachineryError("TLC failed (rc=%s) job=%s\n%s\n--- tail ---\n%s" % (p.returncode, job, "\n".join(bad[:10]), tail))
    if not _RE_SUM.search(out) and not simulate:
        raise MachineryError("TLC produced no summary line, job=%s\n%s" % (job, out[-2000:]))
    return r


def sany(module):
    cmd = ["java", "-cp", ":".join([TLA_JAR, CM_JAR]), "tla2sany.SANY", module + ".tla"]
    p = subprocess.run(cmd, cwd=SPEC, stdout=subprocess.PIPE, stderr=subprocess.STDOUT)
    out = p.stdout.decode("utf-8", "replace")
    ok = p.returncode == 0 and "Semantic errors" not in out and "***Parse Error***" not in out and "Fatal errors" not in out
    return ok, out

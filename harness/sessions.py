"""Value-level sessions on real Signal / AccSignal objects, logged for Trace_SignalObj (spec/SignalObj.tla)."""
import warnings
import numpy as np

from harness.common import enc, enc_seq


def _rec(n, rng):
    t = np.arange(n)
    return 0.3 + 0.01 * t + np.sin(t / rng.uniform(1.5, 6.0)) + 0.3 * rng.standard_normal(n)


def session(kind, rng, length, ops_filter=None):
    import eqsig
    from eqsig import im
    cls = eqsig.AccSignal if kind == "AccSignal" else eqsig.Signal
    n = int(rng.integers(8, 120))
    dt = float(rng.choice([0.01, 0.02, 0.005, 0.5]))
    x = _rec(n, rng) * float(rng.choice([1.0, 1.0, 1e-9, 1e6]))
    # response periods of the AccSignal's own (ascending, shortest 3 .. 30 steps: the refinement rule matters), sometimes with
    # a leading zero period
    def new_rt():
        r = np.sort(rng.uniform(3.0, 30.0) * dt * np.array([1.0, rng.uniform(1.5, 4.0), rng.uniform(5.0, 20.0)]))
        return np.concatenate([[0.0], r]) if rng.integers(4) == 0 else r
    rt = new_rt()
    if kind == "AccSignal":
        o = cls(x.copy(), dt, response_times=rt.copy())
        ev = [{"op": "construct", "vals": enc_seq(x), "dt": enc(dt), "rt": enc_seq(rt)}]
    else:
        o = cls(x.copy(), dt)
        ev = [{"op": "construct", "vals": enc_seq(x), "dt": enc(dt)}]

    def after():
        return enc_seq(np.asarray(o.values, dtype=float))

    def read(what, k=0):
        if what == "npts":
            v = float(o.npts)
        elif what == "time_last":
            v = float(o.time[-1])
        elif what == "values_k":
            v = float(o.values[k])
        elif what == "fas_bins":
            v = float(len(o.fa_spectrum)) if k % 2 else float(len(o.fa_frequencies))
        elif what == "fas":
            z = complex(o.fa_spectrum[k])
            return {"op": "read", "what": what, "k": int(k), "val": [enc(z.real), enc(z.imag)]}
        elif what == "fas_freq":
            v = float(o.fa_freqs[k]) if k % 2 else float(o.fa_frequencies[k])
        elif what == "pga":
            v = float(o.pga)
        elif what == "pgv":
            v = float(o.pgv)
        elif what == "pgd":
            v = float(o.pgd)
        elif what == "velocity_last":
            v = float(o.velocity[-1])
        elif what == "displacement_last":
            v = float(o.displacement[-1])
        elif what == "arias_last":
            v = float(im.calc_arias_intensity(o)[-1])
        elif what == "cav_last":
            v = float(im.calc_cav(o)[-1])
        return {"op": "read", "what": what, "k": int(k), "val": [enc(v), enc(0.0)]}

    reads = ["npts", "time_last", "values_k", "fas_bins", "fas", "fas_freq"]
    if kind == "AccSignal":
        reads += ["pga", "pgv", "pgd", "velocity_last", "displacement_last", "arias_last", "cav_last"] * 2 + ["response_spectrum"] * 3
    muts = ["reset_values", "add_constant", "add_series", "add_signal", "running_average", "remove_average", "remove_poly", "butter_pass"]
    if kind == "AccSignal":
        muts += ["set_rt", "set_rt"]
        muts += ["rebase_displacement", "correct_me", "remove_rolling_average", "set_zero_residual_velocity",
                 "set_zero_residual_displacement", "set_zero_residual_displacement_and_velocity"]
    with warnings.catch_warnings():
        warnings.simplefilter("ignore")
        for _ in range(length):
            npts = len(o.values)
            if rng.random() < 0.6:
                w = reads[rng.integers(len(reads))]
                k = 0
                if w == "response_spectrum":
                    # s_d / s_a read lazily (s_a first or s_d first); one period per event
                    k = int(rng.integers(len(o.response_times)))
                    if rng.integers(2):
                        sa_, sd_ = float(o.s_a[k]), float(o.s_d[k])
                    else:
                        sd_, sa_ = float(o.s_d[k]), float(o.s_a[k])
                    ev.append({"op": "read_rs", "k": k, "sd": enc(sd_), "sa": enc(sa_)})
                    continue
                if w == "values_k":
                    k = int(rng.integers(npts))
                elif w in ("fas", "fas_freq"):
                    k = int(rng.integers(max(1, len(o.fa_spectrum))))
                elif w == "fas_bins":
                    k = int(rng.integers(2))
                ev.append(read(w, k))
                continue
            m = muts[rng.integers(len(muts))]
            if m == "set_rt":
                if rng.integers(3):
                    _ = (o.s_a, o.s_d)            # spectra for the periods in force so far are memoised
                rt = new_rt()
                how = int(rng.integers(3))
                if how == 0:
                    o.response_times = rt.copy()
                elif how == 1:
                    o.gen_response_spectrum(response_times=rt.copy())
                else:
                    o.response_series(response_times=rt.copy())
                ev.append({"op": "set_rt", "rt": enc_seq(rt)})
                if rng.integers(3):
                    k = int(rng.integers(len(rt)))
                    ev.append({"op": "read_rs", "k": k, "sd": enc(float(o.s_d[k])), "sa": enc(float(o.s_a[k]))})
                continue
            if m == "reset_values":
                n2 = npts if rng.random() < 0.5 else int(rng.integers(8, 120))
                y = _rec(n2, rng) * rng.uniform(0.5, 2)
                o.reset_values(y if rng.random() < 0.6 else y.tolist())
                ev.append({"op": "reset_values", "vals": enc_seq(y), "dt": enc(dt)})
            elif m == "add_constant":
                c = float(rng.uniform(-2, 2))
                o.add_constant(c)
                ev.append({"op": m, "c": enc(c), "after": after()})
            elif m == "add_series":
                s = rng.standard_normal(npts)
                o.add_series(s if rng.random() < 0.6 else s.tolist())
                ev.append({"op": m, "s": enc_seq(s), "after": after()})
            elif m == "add_signal":
                s = rng.standard_normal(npts)
                o.add_signal(eqsig.Signal(s, dt))
                ev.append({"op": m, "s": enc_seq(s), "after": after()})
            elif m == "running_average":
                w = int(rng.integers(1, 12))
                o.running_average(w)
                ev.append({"op": m, "w": w, "after": after()})
            elif m == "remove_average":
                o.remove_average()
                ev.append({"op": m, "after": after()})
            elif m == "remove_poly":
                d = int(rng.integers(0, 4))
                cold = cls(np.array(o.values), dt)
                cold.remove_poly(d)
                o.remove_poly(d)
                ev.append({"op": "havoc", "name": "remove_poly", "deg": d, "after": after(), "cold": enc_seq(np.asarray(cold.values, dtype=float))})
            elif m == "butter_pass":
                if npts < 40:
                    continue
                cold = cls(np.array(o.values), dt)
                cold.butter_pass((0.02 / dt, 0.3 / dt), filter_order=2)
                o.butter_pass((0.02 / dt, 0.3 / dt), filter_order=2)
                ev.append({"op": "havoc", "name": "butter_pass", "deg": -1, "after": after(), "cold": enc_seq(np.asarray(cold.values, dtype=float))})
            elif m == "rebase_displacement":
                o.rebase_displacement()
                ev.append({"op": m, "after": after()})
            else:
                # the same operation on a freshly constructed object holding the same record (nothing read, nothing cached): what
                # an operation does may not depend on which derived quantities were read before it
                cold = cls(np.array(o.values), dt)
                if m == "remove_rolling_average":
                    if int(1. / (12 * dt)) < 1:
                        continue
                    mt = ["velocity", "acc"][rng.integers(2)]
                    cold.remove_rolling_average(mtype=mt, freq_window=12)
                    o.remove_rolling_average(mtype=mt, freq_window=12)
                else:
                    if not (float(np.max(np.abs(np.asarray(o.values, dtype=float)))) > 0.0):
                        continue       # the residual corrections scale their steps by the peak: an identically zero record has nothing to correct
                    tz = None
                    if m in ("set_zero_residual_velocity", "set_zero_residual_displacement_and_velocity") and npts >= 20 and rng.integers(2):
                        t_end = (npts - 1) * dt
                        tz = (float(rng.uniform(0.1, 0.4)) * t_end, float(rng.uniform(0.6, 0.95)) * t_end)
                    if tz is None:
                        getattr(cold, m)()
                        getattr(o, m)()
                    else:
                        getattr(cold, m)(timezone=tz)
                        getattr(o, m)(timezone=tz)
                ev.append({"op": "havoc", "name": m, "deg": -1, "after": after(), "cold": enc_seq(np.asarray(cold.values, dtype=float))})
    return ev

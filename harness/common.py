"""Shared plumbing: float encoding, repo import, evidence, known findings, verdict bookkeeping."""
import json
import os
import struct
import sys
import time

VERIF = os.path.dirname(os.path.dirname(os.path.abspath(__file__)))
WORK = os.path.join(VERIF, "work")
REPO = os.environ.get("VERIF_REPO", "/repo")

# the code under test is always imported from the repository's working tree
if REPO not in sys.path:
    sys.path.insert(0, REPO)
os.environ.setdefault("PYTHONHASHSEED", "0")

# The process the checks run in uses coarse numpy print options (a caller may have set any): with them, arrays that differ only
# in their interior or beyond the first digit PRINT identically, so an implementation that keys anything on str() / repr() of
# an array (instead of its values) is exposed by ordinary call histories.  Nothing in the harness depends on numpy's printing.
try:
    import numpy as _np
    _np.set_printoptions(precision=1, threshold=5, edgeitems=1)
except Exception:      # pragma: no cover
    pass


# ---------------------------------------------------------------------------------------------
# float <-> <<hi, lo>>
def enc(x):
    """binary64 -> [hi, lo] (signed 32-bit halves of the bit pattern)"""
    hi, lo = struct.unpack(">ii", struct.pack(">d", float(x)))
    return [hi, lo]


def dec(p):
    return struct.unpack(">d", struct.pack(">ii", int(p[0]), int(p[1])))[0]


def enc_seq(a):
    return [enc(x) for x in a]


def enc_c(z):
    z = complex(z)
    return [enc(z.real), enc(z.imag)]


def enc_cseq(a):
    return [enc_c(z) for z in a]


def dec_seq(a):
    return [dec(p) for p in a]


def selftest_enc():
    import random
    rnd = random.Random(1)
    vals = [0.0, -0.0, 1.0, -1.0, float("inf"), float("-inf"), 5e-324, -5e-324, 2.2250738585072014e-308,
            1.7976931348623157e308, 0.1, 1e-300, 123456.789]
    for _ in range(10000):
        vals.append(struct.unpack(">d", struct.pack(">Q", rnd.getrandbits(64)))[0])
    for v in vals:
        w = dec(enc(v))
        if v != v:
            assert w != w
        else:
            assert struct.pack(">d", v) == struct.pack(">d", w), (v, w)
        h, l = enc(v)
        assert -2**31 <= h < 2**31 and -2**31 <= l < 2**31
    nan = dec(enc(float("nan")))
    assert nan != nan
    return len(vals)


# ---------------------------------------------------------------------------------------------
def workdir(job):
    d = os.path.join(WORK, job)
    os.makedirs(d, exist_ok=True)
    return d


def write_ndjson(path, records):
    with open(path, "w") as f:
        for r in records:
            f.write(json.dumps(r, separators=(",", ":")))
            f.write("\n")


def write_json(path, obj):
    with open(path, "w") as f:
        json.dump(obj, f, separators=(",", ":"))


def seed_from_env():
    try:
        return int(os.environ.get("VERIF_SEED", "0"))
    except ValueError:
        return 0


# ---------------------------------------------------------------------------------------------
# known findings
def load_findings():
    p = os.path.join(VERIF, "known_findings.json")
    if not os.path.exists(p):
        return []
    with open(p) as f:
        return json.load(f).get("open", [])


class Report(object):
    """Collects what one check run explored and decides the exit status.

    A *failure* is (clause, site, case) where case is the decoded replay record.  Failures matching an
    open entry of known_findings.json (same property, clause, site and classifier predicate) are
    printed as KNOWN-FINDING and do not affect the exit status; everything else is a VIOLATION.
    """

    def __init__(self, pid, tier, seed):
        self.pid = pid
        self.tier = tier
        self.seed = seed
        self.t0 = time.time()
        self.states = 0
        self.transitions = 0
        self.traces = 0
        self.evaluations = 0
        self.samples = []
        self.failures = []        # (clause, site, case)
        self.known_hit = {}       # finding id -> count
        self.jobs = []            # per TLC job summary
        self.clause_counts = {}
        self.exhaustive = False
        self.assumptions = []
        self.extra = {}
        self.classifiers = {}     # name -> predicate(case) for known findings

    def add_tlc(self, name, r, note=""):
        self.states += r.distinct
        self.transitions += r.generated
        self.jobs.append({"job": name, "distinct_states": r.distinct, "states_generated": r.generated,
                          "depth": r.depth, "wall_s": round(r.wall_s, 2), "note": note,
                          "coverage": {k: list(v) for k, v in sorted(r.coverage.items())} if r.coverage else None})

    def sample(self, s):
        if len(self.samples) < 6:
            self.samples.append(s)

    def count(self, clause, n=1):
        self.clause_counts[clause] = self.clause_counts.get(clause, 0) + n

    def fail(self, clause, site, case):
        self.failures.append((clause, site, case))

    def finish(self, level="model_checking", explanation=None, checker_cmd=None, trusted_base=None, rule=None,
               distinct_nontrivial=None):
        if os.environ.get("VERIF_REPLAY_CLAUSE"):
            # replay mode: the check was re-run with the tier and seed of a recorded violation; report whether the
            # same (clause, site) fails again on the current tree.  Evidence and replay files are left alone.
            want = (os.environ["VERIF_REPLAY_CLAUSE"], os.environ.get("VERIF_REPLAY_SITE", ""))
            again = [c for c in self.failures if (c[0], str(c[1])) == want]
            if again:
                print("VIOLATION property=%s replay=%s" % (self.pid, os.environ.get("VERIF_REPLAY_PATH", "")))
                print("  clause=%s site=%s cases=%d (reproduced on the current tree)" % (want[0], want[1], len(again)))
                print("  first case: %s" % json.dumps(again[0][2], default=str)[:600])
                return 1
            print("%s replay: clause=%s site=%s no longer fails (%d other failures)" % (self.pid, want[0], want[1], len(self.failures)))
            return 0
        findings = [f for f in load_findings() if f.get("property") == self.pid]
        violations = []
        for clause, site, case in self.failures:
            hit = None
            for f in findings:
                if f.get("clause") == clause and f.get("site") in (None, site):
                    pred = self.classifiers.get(f.get("classifier"))
                    if f.get("classifier") is None or (pred is not None and pred(case)):
                        hit = f
                        break
            if hit is not None:
                self.known_hit.setdefault(hit["id"], [0, hit])[0] += 1
            else:
                violations.append((clause, site, case))
        os.makedirs(os.path.join(VERIF, "replays"), exist_ok=True)
        lines = []
        seen = {}
        for clause, site, case in violations:
            key = (clause, site)
            seen.setdefault(key, []).append(case)
        n = 0
        for (clause, site), cases in sorted(seen.items()):
            if n >= 10:
                break
            n += 1
            path = os.path.join(VERIF, "replays", "%s-%d.json" % (self.pid, n))
            with open(path, "w") as f:
                json.dump({"property": self.pid, "clause": clause, "site": site, "seed": self.seed, "tier": self.tier,
                           "count": len(cases), "case": cases[0], "more": cases[1:4]}, f, indent=1, default=str)
            lines.append("VIOLATION property=%s replay=%s" % (self.pid, path))
            lines.append("  clause=%s site=%s cases=%d" % (clause, site, len(cases)))
        for fid, (cnt, f) in sorted(self.known_hit.items()):
            print("KNOWN-FINDING: property=%s %s [%s x%d]" % (self.pid, f.get("what", ""), fid, cnt))
        cov = {
            "states": int(self.states),
            "transitions": int(self.transitions),
            "traces_validated_against_impl": int(self.traces),
            "samples": self.samples or ["(none)"],
            "evaluations": int(self.evaluations or self.traces or self.states),
            "exhaustive": bool(self.exhaustive),
            "tlc_jobs": self.jobs,
            "clause_evaluations": self.clause_counts,
            "known_findings_hit": {k: v[0] for k, v in self.known_hit.items()},
        }
        if rule:
            cov["rule"] = rule
        if distinct_nontrivial is not None:
            cov["distinct_nontrivial"] = int(distinct_nontrivial)
        if checker_cmd:
            cov["checker_cmd"] = checker_cmd
        if trusted_base:
            cov["trusted_base"] = trusted_base
        if explanation:
            cov["explanation"] = explanation
        cov.update(self.extra)
        ev = {
            "property_id": self.pid,
            "tier": self.tier,
            "seed": int(self.seed),
            "level": level,
            "coverage": cov,
            "assumptions": self.assumptions,
            "wall_s": round(time.time() - self.t0, 2),
            "violations": len(violations),
        }
        # evidence describes checks of /repo's working tree; runs against another copy (mutation self-test) keep theirs apart
        evdir = os.path.join(VERIF, "evidence") if os.path.realpath(REPO) == "/repo" else os.path.join(WORK, "evidence_other_tree")
        os.makedirs(evdir, exist_ok=True)
        with open(os.path.join(evdir, "%s.json" % self.pid), "w") as f:
            json.dump(ev, f, indent=1, default=str)
        for l in lines:
            print(l)
        print("%s %s: states=%d transitions=%d traces=%d violations=%d known=%d wall=%.1fs" % (
            self.pid, self.tier, self.states, self.transitions, self.traces, len(violations),
            sum(v[0] for v in self.known_hit.values()), time.time() - self.t0))
        return 1 if violations else 0

"""Generates /verif/MANIFEST.json from the table below (python harness/manifest.py)."""
import json
import os

VERIF = os.path.dirname(os.path.dirname(os.path.abspath(__file__)))

LEVEL_NOTE_N = ("model = executable TLA+ reference definition evaluated by TLC over the FP carrier; exhaustive only on "
                "the stated small lattice, sampled (seeded) elsewhere; trusted: TLC 1.8, FP.class, the float encoder")

CHECKS = {
    "C08": dict(
        engine="Integrate",
        technique="TLA+ one-sample-per-step machine; TLC exhaustive on a dyadic lattice with the implementation table in lock-step; TLC trace validation of recorded calls",
        category="model_checking",
        text=("MC_Integrate: every record over 5 dyadic levels up to length 6 (quick) / 8 (thorough) x 2 time steps; model "
              "invariants (twin = declarative double trapezoid, linearity, exactness for linear acceleration, peak laws) and, in "
              "every reachable state, equality with what calc_velo_and_disp_from_accel_arr / AccSignal / calc_peak returned for "
              "exactly that record. Trace_Integrate: recorded executions on random records up to 5000 samples, the increment "
              "identities checked by TLC at every sample, plus linearity/peak-law relation events."),
        design_ref="DESIGN.md section 4, C08",
        note=LEVEL_NOTE_N),
    "C11": dict(
        engine="Peaks",
        technique="TLA+ one-pass automaton + declarative twin; TLC exhaustive over all series on 5 levels with the implementation table in lock-step; TLC trace validation of recorded calls",
        category="model_checking",
        text=("MC_Peaks: every series over 5 levels up to length 7 (quick) / 8 (thorough, 488 280 series = the property's exhaustive "
              "quantifier): automaton = declarative turning-point definition, the statement's clauses hold of it and determine the "
              "result uniquely, and in every reachable state get_peak_array_indices(all/max/min) and get_n_cyc_array(origin/peak) of "
              "exactly that series equal the model. Trace_Peaks: random real-valued and plateau-rich series up to 5000 samples "
              "validated sample by sample."),
        design_ref="DESIGN.md section 4, C11",
        note="exhaustive on the 5-level alphabet (integers; list/int/float containers alternate); sampled for real-valued series; trusted: TLC 1.8, FP.class, TableIO.class"),
    "C12": dict(
        engine="Crossings",
        technique="TLA+ zero-crossing machine + switched-peak relation (declarative and one-pass acceptor, proved equal by TLC on all index subsets of short series); exhaustive lock-step tables; TLC trace validation",
        category="model_checking",
        text=("MC_Crossings: every series over {-2..2} to length 7/8 and {-3..3} to length 5/6 (quick/thorough): zero-crossing machine = "
              "declarative set; switched-peak acceptor = declarative relation on every candidate index set (lengths <= 5/6); in every "
              "state the implementation's zero crossings (keep_adj_zeros T/F) equal the model, its switched peaks satisfy the relation, "
              "and the tol = 0.5 / 1.5 results are subsequences. Trace_Crossings: random series up to 5000 samples validated sample by sample."),
        design_ref="DESIGN.md section 4, C12",
        note="exhaustive on the two integer alphabets; sampled for real-valued series (|values| in [1e-100,1e100]); switched peaks: any maximiser accepted; trusted: TLC 1.8, FP.class, TableIO.class"),
    "C04": dict(
        engine="SignalCache",
        technique="TLA+ object model of the memo state (flag + freshness ghost), TLC exhaustive over the complete state space; every edge of TLC's state graph replayed on real objects (snapshot lock-step walk); -simulate behaviours replayed; recorded sessions validated by a TLC trace spec",
        category="model_checking",
        text=("SignalCache (57 operations for AccSignal, 31 for Signal): NoStale / ReadsPure / ReadIdempotent hold on the complete finite state "
              "space (all histories of any length) for the repaired model, and TLC exhibits the 3-step counterexample on the as-found model. "
              "Binding: all 3420 + 93 edges (observational cache state x operation) are executed on real AccSignal/Signal snapshots and every "
              "read is compared with a freshly constructed object; TLC -simulate behaviours (depth 40/60) and driver-chosen sessions are "
              "replayed, logged and validated by Trace_SignalCache."),
        design_ref="DESIGN.md section 4, C04",
        note="freshness oracle = fresh object of the same class (same library code, by design); float64 records; trusted: TLC 1.8, numpy, copy.deepcopy"),
    "C05": dict(
        engine="Ownership",
        technique="TLA+ heap model (who aliases whom, container type), TLC exhaustive + -simulate behaviours replayed on real objects with real caller arrays; recorded sessions and pure-call frame conditions validated by a TLC trace spec",
        category="model_checking",
        text=("Ownership: NoAlias / CallerIntact / ObjectIntact / ValuesNumericArray on the complete state space of the repaired model, "
              "TLC counterexample on the as-found model. Binding: every operation of the model is executed on real Signal/AccSignal objects "
              "from five different prefixes, TLC -simulate behaviours (depth 30/60) are replayed; after every call the projection "
              "(numpy.shares_memory with each caller container, SHA-256 of the caller's bytes, container/dtype/len/time grid of the "
              "object) is logged and validated by Trace_Ownership. Pure calls: 85 array-/signal-level functions x {float64,int64} x "
              "{ndarray,list}: argument digests before/after and result digests of two successive calls; TLC evaluates the frame condition."),
        design_ref="DESIGN.md section 4, C05",
        note="sessions use one float ndarray and one float list as caller containers; pure-call part is a sampled frame condition (one argument set per function and variant); trusted: TLC 1.8, numpy.shares_memory, sha256"),
    "C18": dict(
        engine="Cluster",
        technique="TLA+ definitional model of lag matching / same-start / rotation; TLC exhaustive over cluster configurations with the implementation in lock-step; TLC trace validation of recorded calls (one event per scan angle / cluster operation)",
        category="model_checking",
        text=("MC_Cluster: k in 2..4 signals, every master index, every lag vector in (-4,4)^(k-1) of exact delayed copies (k = 4 sampled "
              "1 in 9 in the quick tier) plus offset clusters; behaviour Init -> TimeMatch -> SameStart with invariants MasterUnchanged, "
              "LengthsUnchanged, LagRemoved, SameStartAligned on the model and equality with what eqsig.Cluster produced (values, "
              "container types) in every state. Trace_Cluster: random real-valued clusters (noisy copies, random windows, steps 2..8), "
              "combine_at_angle at special and random angles, compute_rotated scans (pga / callable pgv / arias_intensity / series "
              "callable; offsets; points) re-computed by TLC from the definition."),
        design_ref="DESIGN.md section 4, C18",
        note="equal-length cluster members and a unique best lag (asserted); rotation to 1e-12 relative; sampled for real-valued data; trusted: TLC 1.8, FP.class, TableIO.class"),
    "C10": dict(
        engine="Duration",
        technique="TLA+ declarative definition (strictly-inside sets over a cumulative measure); TLC exhaustive on an exact lattice with the implementation table in lock-step; TLC trace validation of recorded calls and relation events",
        category="model_checking",
        text=("MC_Duration: every record over {-2..2} to length 6 (quick) / 7 (thorough), dt = 1/2, six dyadic fraction pairs, four "
              "thresholds: laws of the definition (range, scale invariance, shift by k, widening monotone, bracketed monotone / joint "
              "scaling) and equality with calc_sig_dur_vals, calc_sig_dur (Arias and custom CAV measure, se True/False) and calc_brac_dur "
              "in every state, including IndexError exactly when no sample is strictly inside. Exact ties abound on the lattice, which "
              "separates < from <=. Trace_Duration: random records up to 5000 samples re-evaluated by TLC + relation events."),
        design_ref="DESIGN.md section 4, C10",
        note=LEVEL_NOTE_N + "; ties within 1e-12 of a boundary accepted on either side off the lattice; shift law for trapezoid-based measures on records starting at zero"),
    "C09": dict(
        engine="Intensity",
        technique="TLA+ one-sample-per-step machine for the six cumulative measures + windowed definition of standardised CAV; TLC exhaustive on a lattice straddling the 0.025 g gate with the implementation in lock-step; TLC trace validation and relation events",
        category="model_checking",
        text=("MC_Intensity: every record over {-1,-1/4,0,1/8,1/4,1} m/s2 to length 6 (quick) / 7 (thorough), dt = 1/2: machine = declarative "
              "definitions (Twin), Monotone, SignInvariant, Scale, ZeroPadInvariant, CavDp bounds and gate; in every state the final values "
              "of calc_arias_intensity, calc_cav, calc_isv, calc_integral_of_abs_acceleration/velocity, calc_unit_kinetic_energy and the "
              "calc_cav_dp series (length, monotone, window sums within one panel per window, range, gate) are compared with the model. "
              "Trace_Intensity: random records (float, int, list) up to 5000 samples validated at every sample; standardised CAV on 13 "
              "time steps with spikes on window boundaries and values exactly at the gate; sign / scale / zero-padding relation events."),
        design_ref="DESIGN.md section 4, C09",
        note=LEVEL_NOTE_N + "; standardised CAV only for dt with 1/dt integral in binary64 and records >= 2 s"),
    "C13": dict(
        engine="PeakSeries",
        technique="TLA+ conservation-law clauses over quantities accumulated from the input (total variation, final direction, C11 peak set) and power-law definitions over the reported switched peaks; TLC exhaustive on an integer lattice with the implementation in lock-step; TLC trace validation with relation events",
        category="model_checking",
        text=("MC_PeakSeries: every non-constant series over {-2..2} to length 6 (quick) / 7 (thorough) and its +4 / -3 shifts, int / float "
              "/ list containers: delta support within the C11 set, sum|delta| = TV, |sum delta| = |end - start|, pseudo-cyclic sum, shift "
              "invariance (exact integer identities), power-law finals and series for b in {1, 1/2}; the inverse law holds of the model. "
              "Trace_PeakSeries: random series (plateau starts, offsets, zero touch-downs) to 5000 samples; power law with b in (0.05,1], "
              "cut_off in [0,0.1], scalar and array b: definition, inverse, homogeneity, joint scaling, 2^b and geometric-mean laws."),
        design_ref="DESIGN.md section 4, C13",
        note=LEVEL_NOTE_N + "; joint scaling with alpha = +-2^k"),
    "C16": dict(
        engine="TextFormat",
        technique="TLA+ model of the file (label line, header, value lines) with Save / Load / Resave actions; TLC exhaustive over a grid of signals x loader entry points with real files written and read back in lock-step; TLC trace validation of random round trips",
        category="model_checking",
        text=("TextFormat: npts 1..3 x 8 time steps from 1e-4 to 100 s x 6 micro-unit values (all tuples; npts = 3 sampled 1 in 5 in the quick "
              "tier) x 2 labels x 10 loader entry points (load_values_and_dt, load_signal both types, load_sig and load_asig with m in "
              "{1, 2, -3} and label loading): RoundTrip and ResaveIdempotent on the model; every file is really written with save_signal, "
              "loaded through each entry point and re-saved, and the observation (npts, dt to 4 decimals, values to 6 decimals in integer "
              "micro-units, label, exact class, byte-identical re-save) equals the model. Trace_TextFormat: random floats up to 1e9, dt in "
              "[1e-4, 100], labels with spaces: tolerance clauses evaluated by TLC."),
        design_ref="DESIGN.md section 4, C16",
        note="the exhaustive grid lies on the format's own precision grid; arbitrary floats are sampled; trusted: TLC 1.8, FP.class, TableIO.class, the local file system"),
    "C14": dict(
        engine="Resample",
        technique="TLA+ tick model of the step rule (refine by ceil, decimate by floor, count, even rule, duration bound) checked exhaustively by TLC with the implementation in lock-step on exact and on integer-adjacent ticks; TLC trace validation of random (dt, target) pairs and of Fourier resampling of trigonometric polynomials",
        category="model_checking",
        text=("MC_Resample: d, t in 1..6 (quick) / 1..8 ticks, even in {T,F}, record growing from 4 to 16 / 22 samples, on four tick sizes "
              "(2^-8 exact; 0.001, 0.003, 0.007 whose quotients land next to integers): StepRule, EvenRule, DurationRule on the model; for "
              "every configuration the result of interp_array_to_approx_dt and interp_to_approx_dt (returned step, values) satisfies "
              "StepNotAboveTarget, IntegerRatio, TickFactor (exact tick), OriginalsRetained, Subsequence, RangePreserved, "
              "DurationWithinTwoSteps, EvenLength, ObjArrayAgree. Trace_Resample: random pairs incl. dt == target and non-commensurate; "
              "resample_to_approx_dt on random trigonometric polynomials below the new Nyquist frequency recomputed by TLC (1e-9)."),
        design_ref="DESIGN.md section 4, C14",
        note=LEVEL_NOTE_N + "; Fourier exactness only where the returned grid spans the same period"),
    "C20": dict(
        engine="Helpers",
        technique="TLA+ definitions (clamped linear table interpolation, left interpolation, edge-replicated rolling mean, step-fit error and levels, NZS 1170.5 relations); TLC exhaustive over all short integer series with the implementation in lock-step; TLC trace validation on node-set grids, random inputs and design-spectrum relation events",
        category="model_checking",
        text=("MC_Helpers: every series over {-2..2} to length 5 (quick) / 6 (thorough): calc_roll_av_vals for every window 1..n in three "
              "modes, calc_step_fn_vals_error for pow 1 and 2 (float and integer input), calc_step_fn_steps_vals at every split, against the "
              "definitions; ConstPreserved, WindowOneIdentity, ErrNonNeg, PerfectStepZero on the model. Trace_Helpers: interp2d / interp_left "
              "on every monotone node subset (size 3..5) of a lattice with queries on, between and outside the nodes (arrays, scalar, "
              "y=None) and on random tables; rolling average / step fit on random series incl. all-negative data; c_h_factor / sd_nzs / "
              "t_eff for classes C, D, E: S_d = C_h T^2 Z N R on both sides of every boundary, continuity to 1 %, array = scalar, "
              "t_eff inverts the corner displacement and raises above it."),
        design_ref="DESIGN.md section 4, C20",
        note=LEVEL_NOTE_N + "; one open known finding (integer-input truncation pinned by an existing test)"),
    "C19": dict(
        engine="Surface",
        technique="TLA+ definition of the shifted-wave surface energy and of the integer shifting helpers; TLC proves the listed consequences of the definition on an exact lattice; the implementation is bound by TLC trace validation (one event per travel time) over the replayed lattice, a decimal travel-time sweep, random calls and an exhaustive shift-vector grid",
        category="model_checking",
        text=("MC_Surface: every record over {-1,0,2} to length 5 (quick) / 7 (thorough), delays 0, 1/2, 1, 2, 3 samples: CumAbsMonotone, "
              "ZeroTravelNodalZero, ScaleSquared, RowEqualsSingle, Lengths hold of the definition. Trace_Surface: calc_surface_energy and "
              "calc_cum_abs_surface_energy for every record over {-1,0,2} to length 4 / 5 x 4 option sets (scalar / array travel times and "
              "reductions, stt) x nodal x trim x start, a sweep of decimal travel times whose delay lands next to an integer, random "
              "records: values against the definition (start=False), integer-shift relation and npts length (start=True), cumulative "
              "series, scaling and batch-row relation events; put_array_in_2d_array on every shift vector in {-2..2}^(1..3) x 4 clip "
              "modes and join_values_w_shifts / join_sig_w_time_shift against the definition."),
        design_ref="DESIGN.md section 4, C19",
        note=LEVEL_NOTE_N + "; start=True constrained as a relation: a whole-sample delay within one sample of (stt - tt)/dt (the statement itself fixes only the length)"),
    "C06": dict(
        engine="Fourier",
        technique="TLA+ integer model of the transform length / bin count and the definitional DFT over the FP carrier; TLC exhaustive (all lengths, all short records) with the implementation in lock-step; TLC trace validation with one event per bin",
        category="model_checking",
        text=("MC_Fourier: transform length for every npts in 2..300 (quick) / 2..1100 x p2_plus 0..3 (power of two, minimal, >= npts) with "
              "the bin counts of Signal.gen_fa_spectrum / calc_fa_spectrum (padded, unpadded, n = npts+1) in lock-step; every record over "
              "{-1,0,1,2} to length 5 / 6: Linear, TrailingZeros, Parseval (with Nyquist term) and InverseExact hold of the definitional DFT, "
              "and eight ways of asking for a spectrum (Signal / AccSignal default, p2_plus 0 / 1, n = npts, npts+1, 2 npts, "
              "generate_fa_spectrum padded / unpadded) give dt x DFT on the grid k/(N dt). Trace_Fourier: random records (2^k, 2^k +- 1, odd, "
              "even) re-transformed by TLC bin by bin, object = array level, max_fa_period on noisy sinusoids with random phase, "
              "fas2values / fas2signal on even lengths."),
        design_ref="DESIGN.md section 4, C06",
        note=LEVEL_NOTE_N + "; explicit n >= npts; inverse helper on even transform lengths"),
    "C07": dict(
        engine="Smooth",
        technique="TLA+ definition of the Konno-Ohmachi window and the normalised weighted mean over the FP carrier; TLC exhaustive over amplitude patterns with the implementation in lock-step; TLC trace validation with one event per target frequency / weight column",
        category="model_checking",
        text=("MC_Smooth: amplitudes over {0,1,3} on 3..6 (quick) / 3..8 Fourier bins, six targets (on the grid, between, outside both "
              "sides), bands 5 / 40 / 100: weights non-negative, finite, normalised, 1 at f = fc; bounded by min/max; constant reproduced; "
              "homogeneous; matrix = direct; zero bin ignored -- and calc_smooth_fa_spectrum (with / without zero bin, complex / real), "
              "calc_smoothing_matrix_konno_1998 equal the definition in every state. Trace_Smooth: spectra of random records, targets "
              "exactly on the Fourier grid (and their float neighbours), inside, far outside, wide spans at b = 100, object level after "
              "each smoothing-frequency setter, deprecated wrapper, targets=None; weight columns; bandwidth limits ordered and bracketing."),
        design_ref="DESIGN.md section 4, C07",
        note=LEVEL_NOTE_N),
    "C01": dict(
        engine="Oscillator",
        technique="TLA+ definition of the exact flow of the oscillator (power series of e^Z, phi1, phi2 with scaling and squaring over the FP carrier, independent of the Nigam-Jennings closed forms); TLC exhaustive on a lattice x 24 regimes with the three entry points in lock-step; TLC trace validation advancing the flow one sample per step",
        category="model_checking",
        text=("MC_Oscillator: every record over {-1,0,1/2,2} to length 4 (quick) / 5 (thorough) x T/dt in {0.2,1,5.5,6.5,20,2e4} x xi in "
              "{0,0.05,0.7,0.999}: the flow satisfies the semigroup law (FlowExact, refinement 2/3/8), ZeroIC, Linear; in every state the last "
              "sample of (u, v, acc) from response_series, nigam_and_jennings_response and AccSignal.response_series (arrays, lists, tuples) "
              "is within the statement's tolerance of the model, the third series obeys -(2 xi w v + w^2 u), the entry points agree. "
              "Trace_Oscillator: recorded calls (n to 400 / 5000, regimes stratified over T/dt in [0.2, 2e4] incl. 5.99/6/6.01, xi in [0, 0.999], "
              "delayed pulses, leading zero period) validated at every sample."),
        design_ref="DESIGN.md section 4, C01",
        note=LEVEL_NOTE_N + "; the exact flow is a truncated power series (remainder < 2^-60) self-checked by the semigroup law, not proved; tolerance as in the statement with the drift term relative to max(peak, natural scale)"),
    "C02": dict(
        engine="Oscillator",
        technique="the C02 laws as invariants of the TLA+ oscillator model (TLC exhaustive) and as relation events between recorded executions validated by a TLC trace spec",
        category="model_checking",
        text=("MC_Oscillator: Linear (product machine a, b, 3a - b/2), FlowExact (refinement by 2, 3, 8), ZeroIC hold of the model for every "
              "lattice record and regime. Trace_Oscillator (relations): linearity per series and period, spectra homogeneous / sign invariant "
              "(pseudo and true), causality at a random split, shift by k zeros, permutation and batching of the period list (also "
              "integer-typed containers with a leading 0), refinement by r in 2..8 within the C01 tolerance of both steps, spectra not "
              "decreasing under refinement."),
        design_ref="DESIGN.md section 4, C02",
        note=LEVEL_NOTE_N + "; 'never decrease' for S_a only where T >= 6 dt at both steps (below, the PGA rule of C03 applies)"),
    "C03": dict(
        engine="Spectra",
        technique="TLA+ integer (tick) model of the PGA branch and refinement rule checked exhaustively by TLC and replayed on exact ticks; spectra, object rule and energy sums defined over the exact oscillator flow and validated by a TLC trace spec with one event per period",
        category="model_checking",
        text=("MC_Spectra: dt = 1..4 ticks, T = 1..40 ticks, min_dt_ratio in {1,2,4,8}: StepRule, Minimal, KRange on the model; replayed with "
              "tick = 2^-7 s (T = 6 dt hit exactly): pseudo_response_spectra reports exactly the PGA iff T < 6 dt; AccSignal.s_a obeys the "
              "rule at its integration step. Trace_Spectra: pseudo_ and true_response_spectra with array / list / tuple periods on both sides "
              "of 6 dt (5.5, 5.99, 6, 6.01, 6.5), with / without a leading 0, xi in [0, 0.999]: S_d = peak of the exact flow (C01 tolerance), "
              "PSV = w S_d, PSA = w^2 S_d, true S_v / S_a, undamped true = pseudo, finite, non-negative, one per period; AccSignal "
              "s_d/s_v/s_a for min_dt_ratio in {1,2,4,8} accepted iff equal to the model's spectra of the record refined by some integer "
              "k in [k_min, 2 k_min + 2] and not below the raw-sample value; input / kinetic energy spectra = defining sums over the "
              "reported and the exact response; end-of-record input energy non-negative (one open known finding)."),
        design_ref="DESIGN.md section 4, C03",
        note=LEVEL_NOTE_N + "; object API with ascending period lists"),
    "C15": dict(
        engine="Stockwell",
        technique="TLA+ definitional S-transform cell (O(N) sum over the definitional DFT) over the FP carrier; TLC exhaustive over all short records with both implementations and the inverse in lock-step cell by cell; TLC trace validation (one event per frequency row, sampled cells of large transforms, dominant-frequency traces)",
        category="model_checking",
        text=("MC_Stockwell: every record over {-1,0,2} of length 4..6 (quick) / 4..8 (thorough; odd lengths truncated): Marginal and Linear "
              "hold of the definition; transform and transform_w_scipy_fft have shape (N/2, N), equal the definition in every cell and each "
              "other, itransform recovers the record minus mean and Nyquist component. Trace_Stockwell: random records of every length "
              "4..32 / 4..48 and 63..128 in full (row by row, incl. the row-sum marginal), sampled cells + all marginals for n up to 257 / "
              "1024, inverse, linearity on sampled cells, get_max_stockwell_freq / get_max_tifq_vals_freq on on-grid sinusoids (two phases) "
              "for many (n, dt) pairs over the middle half."),
        design_ref="DESIGN.md section 4, C15",
        note=LEVEL_NOTE_N),
    "C17": dict(
        engine="Filter",
        technique="TLA+ closed-form squared Butterworth magnitude (bilinear map with pre-warping) and definitional detrend / running-average clauses over the FP carrier; TLC exhaustive over all short integer series with the implementation in lock-step; TLC trace validation of filtered sinusoids, linearity, detrending, adding and averaging",
        category="model_checking",
        text=("MC_Filter: gain formula in [0,1], 1/2 at every cut-off, monotone in the transition bands for orders 1..4; every series over "
              "{-2..2} of length 3..5 (quick) / 3..6 (float, int, list): running_average for widths 1..7 = mean of the ORIGINAL samples within "
              "floor(w/2) positions; remove_poly degrees 0..2 (object, applied twice, after adding a polynomial, array level): subtracts a "
              "polynomial of degree <= k (vanishing (k+1)-th differences), residual orthogonal to 1..t^k, idempotent, polynomial-invariant. "
              "Trace_Filter: butter_pass (band / low / high, orders 1-4, remove_gibbs None/start/end/mid, list / tuple / ndarray cut-offs, "
              "Signal and AccSignal) on sinusoids across pass, transition and stop bands with random phase: length and dt preserved, middle "
              "half = |H(f)|^2 x input with |H|^2 recomputed by TLC; linearity; remove_poly degrees 0..4; add_constant / add_series / "
              "add_signal element-wise incl. the cases that must raise; running_average widths 1..25 on float and integer records."),
        design_ref="DESIGN.md section 4, C17",
        note=LEVEL_NOTE_N + "; gain clause asserted on well-conditioned designs only (f_low*dt >= 0.016, record >= 40 longest periods)"),
}


# later growth of the checks, recorded as amendments of the descriptions above (old fragment -> new fragment)
AMEND = [
    ("C05", "Pure calls: 85 array-/signal-level functions x {float64,int64} x {ndarray,list}: argument digests before/after and result digests of two successive calls; TLC evaluates the frame condition.",
     "Pure calls: 156 entries (every array-/signal-level public function, and every optional parameter of each set at least once: rarely used option combinations, out-of-range queries, aliases) x 14 input variants ({float64,int64} x {ndarray,list} + 5 record shapes x 2 dtypes), each made inside a call history (other arguments of the same shapes before and between the two compared calls, other lengths in between): argument digests before/after and result digests of the two calls; TLC evaluates the frame condition."),
    ("C11", "of exactly that series equal the model. Trace_Peaks: random real-valued and plateau-rich series up to 5000 samples validated sample by sample.",
     "of exactly that series equal the model; on every plateau-free series the cleaned-array entry point and its deprecated alias return the same set. Trace_Peaks: random real-valued and plateau-rich series up to 5000 samples (near ties, tiny amplitudes, int16 / int32 / float32 counts, lists, signal-level wrappers, defaults) validated sample by sample."),
    ("C12", "and the tol = 0.5 / 1.5 results are subsequences. Trace_Crossings: random series up to 5000 samples validated sample by sample.",
     "and the tol = 1 / 1.5 / 2 results are subsequences. Trace_Crossings: random series up to 5000 samples and 400 / 3000 short series (near ties on crests, records in nano- and mega-units with the tolerance scaled alike, exact zeros, plateaus; keyword, default and signal-level calls) validated sample by sample."),
    ("C13", "Trace_PeakSeries: random series (plateau starts, offsets, zero touch-downs) to 5000 samples;",
     "Trace_PeakSeries: random series (plateau starts, offsets, zero touch-downs, amplitudes 1e-12 .. 1e8, integer counts) to 1500 samples;"),
    ("C15", "on on-grid sinusoids (two phases) for many (n, dt) pairs over the middle half.",
     "on on-grid sinusoids (two phases, amplitudes 1e-12 .. 3e6) for many (n, dt) pairs over the middle half."),
    ("C16", "every file is really written with save_signal, loaded through each entry point and re-saved,",
     "every file is really written with save_signal, loaded through each entry point (documented positional order and keywords alternate) and re-saved,"),
    ("C16", "Trace_TextFormat: random floats up to 1e9, dt in [1e-4, 100], labels with spaces: tolerance clauses evaluated by TLC.",
     "Trace_TextFormat: random floats up to 1e9, dt in [1e-4, 100], labels with spaces, save_signal and the array-level save_values_and_dt (arrays and lists): tolerance clauses evaluated by TLC."),
    ("C17", "on sinusoids across pass, transition and stop bands with random phase:",
     "on sinusoids across pass, transition and stop bands with random phase, incl. long-period corners (f_c*dt down to 1e-4 on records of up to 2^17 samples, orders 1-2 and 3 for low / high pass) and a low-pass followed by a high-pass of the same order and corner:"),
    ("C17", "add_constant / add_series / add_signal element-wise incl. the cases that must raise;",
     "add_constant / add_series / add_signal element-wise in five units (ordinary, nano, pico, counts, zero addends) incl. the cases that must raise;"),
    ("C18", "compute_rotated scans (pga / callable pgv / arias_intensity / series callable; offsets; points) re-computed by TLC from the definition.",
     "compute_rotated scans (pga / callable pgv / arias_intensity / series callable / the array-valued named parameter velocity; offsets; points) re-computed by TLC from the definition with tolerances relative to the measure of |ns| + |we|; same_start with explicit, default (first second) and start-only windows."),
    ("C19", "cumulative series, scaling and batch-row relation events;",
     "cumulative series, scaling relation events, and batch row = single-travel-time result under every nodal x trim x start x stt combination for both energy functions;"),
    ("C20", "c_h_factor / sd_nzs / t_eff for classes C, D, E: S_d",
     "c_h_factor / sd_nzs / t_eff for classes C, D, E with three (Z, R, N) sets each: S_d"),
]
AMEND += [
    ("C04", "validated by Trace_SignalCache", "validated by Trace_SignalCache; next to the graph walk: sibling steps (two objects built from one array: every operation on one leaves the other fresh and unmoved) and explicit-generator steps (non-default settings: equal to a fresh object given the same call, and back to the defaults after the next change)"),
]
for _pid, _old, _new in AMEND:
    assert _old in CHECKS[_pid]["text"], (_pid, _old[:50])
    CHECKS[_pid]["text"] = CHECKS[_pid]["text"].replace(_old, _new)

# what the last rounds added to every driver (appended to the claims; DESIGN.md section 8.6 has the history)
APPEND = {
    "C01": "Records also as int64 / int32 / int16 / int8 / uint8 counts and float32, through all three entry points. Repeated calls after the caller overwrote the series returned earlier (object with its own periods, periods passed, module function). One large job (4200 x 1001 periods with a leading zero period: four rows validated); records timed in nanoseconds; open finding C01-extreme-time-unit (dt = 1e-110 / 1e110) exercised on every run.",
    "C03": "Narrow-integer count records containing the type's most negative count on both sides of 6 dt (PgaBelow6dt). Used objects: spectra read lazily, then the generator called with min_dt_ratio only (the step rule of that call applies). One large object job (2300 samples x 1000 periods: rows validated against the step rule of the whole list); another period list with the same ends asked of the same object.",
    "C04": "Cluster sessions (Trace_ClusterObj): reads of the components' derived quantities after the cluster replaced their values (time_match, same_start, combine_motions, component changes). Value sessions: every baseline correction, filter and detrending step also carries the record left by the same call on a freshly constructed object (clause Havoc_<op>_history: what an operation does may not depend on earlier reads), incl. timezone forms. Settings pairs: every ordered pair of 11 / 15 forms of changing smoothing frequencies / response periods (same-count arrays incl. the default count, by-range forms, in-place edits, generator keywords) with everything read before, between and after. Value sessions also read s_d / s_a lazily per period (clause Read_response_spectrum: the spectra of the model's record under the refinement rule, Spectra.ObjectSpectrumOK) around response-period changes. Long-record pass of the settings pairs; tables that print identically.",
    "C05": "Ownership model also has the caller writing into a returned time axis and the windowed (timezone) residual correction; the observable digest covers about 160 entries incl. results changed in place. The caller's ndarray handed over read-only every other time, a read-only variant of every pure call; the first result stays intact after later calls (ResultIntact).",
    "C06": "Dominant period also for records in extreme units (2^-560 .. 2^520: squares leave the double range, the spec's modulus is hypot). Byte-twin records (same raw bytes, other dtype / length) one after the other; spectra re-read after in-place changes of the record (.values edited and handed back, residual corrections, re-basing).",
    "C07": "Spectra on the caller's own axes (octave bands, log-spaced with ratio > 2, irregular, no zero bin) and whole-number targets held in integer types, array level and setter. Object histories: the generator called again with other targets of the same count / another bandwidth / after the record changed. Spectrum regenerated with transform lengths 2m and 2m + 1 between two smoothings.",
    "C08": "Records as int8 / int16 / int32 / uint8 counts incl. the type's most negative count (PeakIsMaxAbs); magnitudes 2^-560 .. 2^520. Records held in single / half precision riding on an offset. In-place change histories (.values edited and handed back, residual corrections, re-basing after the rectangle rule).",
    "C09": "Records as narrow-integer counts incl. the type's most negative count; the deprecated object-level generator with history; exact monotonicity. Standardised CAV with the statement's samples per second and windows (round(1/dt), (n-1)//pps) incl. rates whose reciprocal falls just below a whole number (1/93 .. 1/490); used objects for every second standardised-CAV event. Byte-twin count records; other public functions applied to the same object just before (noise histories).",
    "C10": "Narrow-integer counts with the most negative count bracketing the motion; weak-motion records (1e-9 .. 1e-4); a 'no duration' answer without raising is validated like the IndexError (RaisesOnlyIfEmpty); non-monotone user measures. float32 / float16 records whose bracketing samples equal the threshold rounded to the record's type. Used objects that were corrected over a time window before they got their record; noise histories.",
    "C11": "Cleaned-array entry point on full-range int8 / uint8 / int16 / uint16 plateau-free counts; signal-level wrapper on objects that held another record before. Records in extremely small units (1e-170 .. 1e-300: products of neighbouring steps underflow). Noise histories (other public functions on the same container just before, results overwritten); zero-start downward series with the peaks-only series first; swings across the whole double range next to ulp-sized movements.",
    "C12": "Signal-level wrappers on objects analysed while holding another record and then changed through the public API; int8 / int16 / int32 counts; flags and tolerances as python / numpy / int scalars. Units down to 1e-300 (products of neighbouring values underflow). More than 160 decades of dynamic range inside one series; noise histories.",
    "C13": "Cleaned-data delta entry point; full-range int8 / int16 counts incl. the most negative count in the power-law events; joint scaling exact to the relative floor. Units down to 1e-290; call history on the same record with other cut-offs, reference amplitudes and exponents. Index arrays and series handed out by other functions overwritten by the caller just before; one 66 000-sample record through the laws between results.",
    "C14": "Exactly band-limited records of whole-number counts held as int64 / int32 / int16 (Fourier resample) and integer-typed records in the interpolation events; decimation ratios 49 .. 187; whole-period clause. The response spectra's own refinement step after the spectra were read; a 20 014-sample record (prime factor 10 007); even=True on large decimation ratios; noise histories.",
    "C15": "Dominant-frequency trace also in extreme units (2^-560, 2^515). Both implementations on the same array in either order; lengths whose half is m*2^e or one more through both implementations. Byte-twin records; Gaussian windows handed out and overwritten by the caller just before.",
    "C16": "Empty and blanks-only labels, padded and non-ASCII labels, multipliers 0.01 .. 9.81 and negative. Loader history (load, overwrite what was returned, load again); whole-number records incl. multiples of 10, 100, 1000. Histories as a state machine (FileStore.tla: what every path currently holds; Save / Load / Scribble): 100 / 600 -simulate behaviours of 12 / 18 operations over 2 paths x 3 contents replayed on real files through the ten entry points, every load validated by Trace_FileStore against the file the model holds. Files of 8 193 .. 20 001 samples; labels that read like numbers.",
    "C17": "Adders on full-range int8 / uint8 / int16 / uint16 / int32 records with whole-number constants, count series and count signals (AddElementwise); integer record = float record for the filter; 20001-sample degree-4 detrend. A call on another record just before with corners a few 1e-2 .. 1e-4 away (each call designs the filter for its own corners). Detrending an object already detrended to the same or a higher degree and then changed in place.",
    "C18": "The cluster object as a state machine (ClusterObj.tla): MC_ClusterObj generates every interleaving of set_master / time_match / same_start / component add_constant / component replacement (two operations deep from 3 / 14 exact clusters, k = 2..4) with the model properties AlignedAfterSameStart, AlignKeepsMaster, LagIsMinimiser, SameStartIdempotent, and every transition is executed on a real Cluster built in that state (successor must be one of the model's); 40 / 400 -simulate behaviours of 9 / 14 operations replayed on one object each; 14 / 90 sessions on real float clusters validated by Trace_ClusterObj, which carries the model state from event to event. master_index reassigned after construction; records on levels up to 1e8 (level / change up to 1e9); narrow-integer clusters; windows of all four kinds inside the record. Re-scan after the components were changed through the public API. Angles and offsets as int8 / uint8 / int16 / uint16 / int32 / float32 scalars; a drift-dominated cluster of more than 8192 samples in every run; open finding C18-time-match-tiny-units exercised on every run.",
    "C19": "get_time_shift_motions of every energy event against the acceleration series of the definition (ShiftedWaveDefinition); start=True rows must be the start=False rows delayed by a whole number of samples within one of (stt - tt)/dt; records as int8 / int16 / int32 / uint8 / float32 with whole-number reduction factors as python / numpy integers. Noise histories incl. the rectangle rule on the object just before; a 4000-row batch (sampled rows over their whole width).",
    "C20": "Tables of whole numbers as uint8 / int8 / uint16 / int16 / uint32 / int64; integer nodes with negative fractional queries; first / last sample as split. Evenly and almost evenly spaced nodes with queries one ulp and 1e-10 spacings on either side of nodes. Default split right after the error of another series with the same ends; thorough tier: a 5800-sample step-fit at sampled splits.",
}
for _pid, _extra in APPEND.items():
    CHECKS[_pid]["text"] = CHECKS[_pid]["text"].rstrip() + " " + _extra

NOT_YET = {}

# specification modules beyond the one named as a check's engine (object models that serve several properties)
EXTRA_ENGINES = {
    "SignalObj": ["C04"],
    "Ownership": ["C05"],
    "ClusterObj": ["C04", "C18"],
    "FileStore": ["C16"],
    "Spectra": ["C03"],
}


def main():
    props = [json.loads(l) for l in open(os.path.join(VERIF, "properties.jsonl"))]
    checks = []
    na = []
    engines = {}
    for p in props:
        pid = p["id"]
        c = CHECKS.get(pid)
        if c is None:
            na.append({"property_id": pid, "reason": NOT_YET.get(pid, "check not built yet (work in progress; design in DESIGN.md section 4)")})
            continue
        checks.append({
            "property_id": pid,
            "quick_cmd": "./check %s --tier quick" % pid,
            "thorough_cmd": "./check %s --tier thorough" % pid,
            "evidence_file": "/verif/evidence/%s.json" % pid,
            "replay_cmd_template": "./check %s --replay {path}" % pid,
            "engine": c["engine"],
            "level_claimed": {"category": c["category"], "text": c["text"], "design_ref": c["design_ref"]},
            "level_note": c["note"],
            "technique": c["technique"],
        })
        engines.setdefault(c["engine"], []).append(pid)
    for k, v in EXTRA_ENGINES.items():
        for pid in v:
            if pid not in engines.setdefault(k, []):
                engines[k].append(pid)
    man = {
        "version": 1,
        "setup_cmd": "./setup.sh",
        "hooks": {
            "guard": "EQSIG_VERIF_TRACE",
            "enable": "no source hooks: an external tracer (harness/tracer.py) wraps the public API at import time when EQSIG_VERIF_TRACE=<file> is set; /repo is imported from its working tree by every check",
            "baseline_off_cmd": "cd /repo && /venv/bin/python -m pytest -ra -q -p no:cacheprovider --timeout=900 --continue-on-collection-errors",
            "source_commits": [],
            "add_only": True,
        },
        "engines": [{"name": k, "path": "/verif/spec/%s.tla" % k, "serves_properties": v,
                     "kind_free_text": "TLA+ module checked with TLC (exhaustive + trace validation), bound to the code by harness/drivers"}
                    for k, v in sorted(engines.items())],
        "checks": checks,
        "not_applicable": na,
        "notes": "All checks: exit 0 held / exit 1 VIOLATION / exit 2 machinery failure. Known findings: /verif/known_findings.json.",
    }
    with open(os.path.join(VERIF, "MANIFEST.json"), "w") as f:
        json.dump(man, f, indent=1)
    print("MANIFEST.json: %d checks, %d not_applicable" % (len(checks), len(na)))


if __name__ == "__main__":
    main()

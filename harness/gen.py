"""Seeded generators of records (the "all records" quantifier, sampled)."""
import numpy as np

SHAPES = ["noise", "walk", "sine", "impulse_first", "impulse_mid", "impulse_last", "step", "ramp", "const",
          "zero", "plateau_int", "burst", "doublet"]


def record(rng, n, shape=None, amp=None):
    """A float64 record of length n with the given shape (or a random one)."""
    if shape is None:
        shape = SHAPES[rng.integers(len(SHAPES))]
    if amp is None:
        r = rng.random()
        # ordinary magnitudes mostly; every so often many decades away (ambient noise ~1e-9 ... raw counts ~1e8)
        amp = 10.0 ** rng.uniform(-11, -7) if r < 0.1 else (10.0 ** rng.uniform(-6, 8) if r < 0.3 else 10.0 ** rng.uniform(-2, 1))
    t = np.arange(n)
    if shape == "noise":
        x = rng.standard_normal(n)
    elif shape == "walk":
        x = np.cumsum(rng.standard_normal(n)) / np.sqrt(n)
    elif shape == "sine":
        x = np.sin(2 * np.pi * t / rng.uniform(2.5, max(3.0, n / 2.0)) + rng.uniform(0, 6.28))
    elif shape == "impulse_first":
        x = np.zeros(n); x[0] = 1.0
    elif shape == "impulse_mid":
        x = np.zeros(n); x[n // 2] = -1.0
    elif shape == "impulse_last":
        x = np.zeros(n); x[-1] = 1.0
    elif shape == "step":
        x = np.where(t >= n // 3, 1.0, 0.0)
    elif shape == "ramp":
        x = rng.uniform(-1, 1) + rng.uniform(-1, 1) * t / max(n - 1, 1)
    elif shape == "const":
        x = np.full(n, rng.uniform(-1, 1))
    elif shape == "zero":
        x = np.zeros(n)
    elif shape == "plateau_int":
        x = np.repeat(rng.integers(-3, 4, size=n), rng.integers(1, 4))[:n].astype(float)
        if len(x) < n:
            x = np.concatenate([x, np.zeros(n - len(x))])
    elif shape == "doublet":     # balanced pulses: integer-valued, the samples sum to exactly zero
        x = np.zeros(n)
        k = max(1, n // 4)
        p = rng.integers(1, 5, size=k).astype(float)
        x[:k] = p
        x[-k:] = x[-k:] - p[: len(x[-k:])]
        x[0] += 0.0
        if n >= 2 and np.sum(x) != 0:
            x[-1] -= np.sum(x)
    elif shape == "burst":
        env = np.exp(-0.5 * ((t - n / 2.0) / (n / 6.0 + 1)) ** 2)
        x = env * rng.standard_normal(n)
    else:
        raise ValueError(shape)
    x = np.asarray(x, dtype=float) * amp
    if rng.integers(4) == 0:
        # the same samples handed over as a VIEW: a column of a table, every second element of a longer buffer, a negative stride
        x = as_view(rng, x)             # (the shape name stays as it is: drivers select on it)
    return x, shape


def as_view(rng, x):
    """x (1-D float64) as a writeable non-contiguous view with the same values"""
    x = np.asarray(x, dtype=float)
    k = int(rng.integers(3))
    if k == 0:
        t = np.empty((len(x), 3))
        t[:, 0] = x[::-1]
        t[:, 2] = -2.0 * x + 1.0
        t[:, 1] = x
        return t[:, 1]
    if k == 1:
        b = np.full(2 * len(x), 7.5)
        b[::2] = x
        return b[::2]
    return np.ascontiguousarray(x[::-1])[::-1]


def length(rng, lo=2, hi=5000):
    return int(round(np.exp(rng.uniform(np.log(lo), np.log(hi)))))


DTS = [0.005, 0.01, 0.02, 0.025, 0.05, 0.1, 0.5, 1.0, 2.0, 0.004, 0.0078125, 0.013]


def dt(rng):
    """a time step; now and then as an int (1, 2 s) or a numpy float64 scalar instead of a Python float"""
    r = rng.random()
    if r < 0.06:
        return int(rng.integers(1, 3))
    v = DTS[rng.integers(len(DTS))] if r < 0.8 else float(10.0 ** rng.uniform(-3, 0.5))
    return np.float64(v) if rng.random() < 0.15 else v


def seqs_by_code(nlevels, maxlen):
    """All sequences of level indices 1..nlevels, length 1..maxlen, in bijective base-nlevels code order.

    code(<<>>) = 0, code(s . k) = code(s)*nlevels + k  -- the same numbering the TLA+ machines carry."""
    total = (nlevels ** (maxlen + 1) - 1) // (nlevels - 1) - 1
    for code in range(1, total + 1):
        digits = []
        c = code
        while c > 0:
            k = (c - 1) % nlevels + 1
            digits.append(k)
            c = (c - k) // nlevels
        yield code, digits[::-1]


def decode(code, nlevels):
    """digits (1..nlevels) of a bijective base-nlevels behaviour code"""
    digits = []
    c = code
    while c > 0:
        k = (c - 1) % nlevels + 1
        digits.append(k)
        c = (c - k) // nlevels
    return digits[::-1]


class RepoRaised(Exception):
    """the code under test raised inside a pool worker (the traceback does not survive the process boundary, so the
    worker reports the innermost frame inside the repository itself)"""

    def __init__(self, site, error, tb_text, case):
        Exception.__init__(self, error)
        self.site, self.error, self.tb_text, self.case = site, error, tb_text, case


def _rows_chunk(args):
    rowfn, nlevels, lo, hi = args
    out = []
    for code in range(lo, hi):
        try:
            out.append(" ".join(map(str, rowfn(code, decode(code, nlevels)))))
        except Exception as ex:
            import os
            import traceback
            from harness import common
            tb = traceback.extract_tb(ex.__traceback__)
            repo_eqsig = os.path.join(os.path.realpath(common.REPO), "eqsig") + os.sep
            inner = [f for f in tb if os.path.realpath(f.filename).startswith(repo_eqsig)]
            if not inner:
                raise
            site = "%s:%d %s" % (os.path.basename(inner[-1].filename), inner[-1].lineno, inner[-1].name)
            return ("RAISED", site, "%s: %s" % (type(ex).__name__, ex), "".join(traceback.format_exception(type(ex), ex, ex.__traceback__)[-12:]),
                    {"code": code, "digits": decode(code, nlevels)})
    return "\n".join(out) + "\n"


def build_table(path, nlevels, maxlen, rowfn, procs=16):
    """Write the lock-step table: row number = behaviour code, content = rowfn(code, digits) (ints).

    Rows are computed by a process pool (the real code is called once per behaviour) and written in
    code order."""
    import multiprocessing as mp
    total = (nlevels ** (maxlen + 1) - 1) // (nlevels - 1) - 1
    step = max(1, min(5000, total // (procs * 4) + 1))
    jobs = [(rowfn, nlevels, lo, min(lo + step, total + 1)) for lo in range(1, total + 1, step)]
    ctx = mp.get_context("fork")
    with open(path, "w") as f:
        if total < 2000 or procs <= 1:
            for j in jobs:
                chunk = _rows_chunk(j)
                if isinstance(chunk, tuple):
                    raise RepoRaised(*chunk[1:])
                f.write(chunk)
        else:
            with ctx.Pool(procs) as pool:
                for chunk in pool.imap(_rows_chunk, jobs):
                    if isinstance(chunk, tuple):
                        raise RepoRaised(*chunk[1:])
                    f.write(chunk)
    return total


def flag(rng, b):
    """a boolean option in the scalar forms a caller may hand over: python bool, numpy bool, int"""
    k = int(rng.integers(3))
    return [bool(b), np.bool_(b), int(bool(b))][k]


def intlike(rng, k):
    """an integer option as python int / numpy int64 / numpy int32"""
    return [int(k), np.int64(k), np.int32(k)][int(rng.integers(3))]


def not_constant(a):
    """make sure the series is not constant (the properties about peaks quantify over non-constant series): if it is, the
    last sample is moved to a value that is DIFFERENT in the container's own type (x + 1 is absorbed at 1e12 in float32)"""
    if isinstance(a, list):
        if all(v == a[0] for v in a):
            a[-1] = a[0] + max(1.0, abs(a[0]))
        return a
    if len(a) and np.all(a == a[0]):
        if a.dtype.kind == "f":
            step = max(abs(float(a[0])), 1.0)
            a[-1] = a.dtype.type(float(a[0]) + step) if np.isfinite(float(a[0]) + step) else a.dtype.type(float(a[0]) / 2)
        else:
            a[-1] = a[0] - 1 if a[0] > 0 else a[0] + 1
    return a


def byte_twins(rng, n):
    """Two different records whose raw bytes coincide (signed / unsigned of the same width, or another length at another width):
    (a, b).  A result remembered under the bytes of its input -- without dtype and shape -- is handed to the wrong record."""
    k = int(rng.integers(4))
    if k == 0:
        a = rng.integers(-120, 121, size=n).astype(np.int8)
        a[int(rng.integers(n))] = -100
        return a, a.view(np.uint8).copy()
    if k == 1:
        a = rng.integers(-30000, 30001, size=n).astype(np.int16)
        a[int(rng.integers(n))] = -20000
        return a, a.view(np.uint16).copy()
    if k == 2:
        a = rng.integers(-100000, 100001, size=n).astype(np.int32)
        a[int(rng.integers(n))] = -70000
        return a, a.view(np.uint32).copy()
    m = 2 * max(1, n // 2)
    a = rng.integers(1, 9, size=m).astype(np.int32)
    a[1::2] = 0                                                # int32 [1,0,2,0,..] read as int64 is [1,2,..] (little endian)
    return a, a.view(np.int64).copy()


def _scribble(res):
    """the caller overwrites in place whatever fresh arrays a function handed out"""
    items = res if isinstance(res, (tuple, list)) else [res]
    for r in items:
        if isinstance(r, np.ndarray) and r.flags.writeable and r.size:
            try:
                if r.dtype.kind in "fc":
                    r *= -3.0
                    r += 1.0
                elif r.dtype.kind in "iu":
                    r //= 2
            except Exception:
                pass


def array_noise(rng, x, k=None):
    """Other public array-level functions of the library called on the SAME record just before a measured call, their results
    overwritten by the caller: every function is a function of its own arguments, whatever was computed before (a memo shared
    between functions, or handed out by reference, shows up in the measured call).  Never changes x."""
    import warnings
    from eqsig.fns import peaks_and_crossings as pc
    from eqsig import im, stockwell
    x = x if isinstance(x, (list, tuple)) else np.asarray(x)
    calls = [lambda: pc.determine_peaks_only_delta_series(x), lambda: pc.determine_pseudo_cyclic_peak_only_series(x),
             lambda: pc.get_zero_crossings_array_indices(x), lambda: pc.get_switched_peak_array_indices(x),
             lambda: pc.get_peak_array_indices(x), lambda: pc.get_peak_array_indices(x, ptype="max"), lambda: pc.clean_out_non_changing(np.asarray(x, dtype=float)),
             lambda: im.calc_n_cyc_array_w_power_law(x, max(1e-300, float(np.max(np.abs(np.asarray(x, dtype=float))))) * 0.7, 0.5),
             lambda: im.calc_cyc_amp_array_w_power_law(x, 4.0, 0.3), lambda: pc.get_n_cyc_array(x),
             lambda: stockwell.generate_gaussian(max(1, len(x) // 2)), lambda: im.calc_sig_dur_vals(np.asarray(x, dtype=float), 0.01)]
    n = int(rng.integers(1, 4)) if k is None else k
    with warnings.catch_warnings():
        warnings.simplefilter("ignore")
        for _ in range(n):
            try:
                with np.errstate(all="ignore"):
                    _scribble(calls[int(rng.integers(len(calls)))]())
            except Exception:
                pass


def asig_noise(rng, s, rule_switch=False, k=None):
    """Other public functions of the library applied to the SAME AccSignal just before a measured call (reads of derived
    quantities, intensity measures, durations, detectors, spectra, resampling, the Stockwell trace), fresh results overwritten by
    the caller.  None of them changes the record; with rule_switch the velocity series may be regenerated with the rectangle
    rule (only for measured calls that are functions of the record, not reads of the velocity)."""
    import warnings
    from eqsig import im, sdof, stockwell
    from eqsig.fns import peaks_and_crossings as pc
    from eqsig.fns import time_step as tp
    pk = float(np.max(np.abs(np.asarray(s.values, dtype=float)))) if len(s.values) else 0.0
    calls = [lambda: im.calc_sig_dur(s, im=im.calc_cav), lambda: im.calc_sig_dur(s), lambda: im.calc_sig_dur(s, im=im.calc_arias_intensity),
             lambda: im.calc_brac_dur(s, 0.3 * pk), lambda: im.calc_arias_intensity(s), lambda: im.calc_cav(s), lambda: im.calc_isv(s),
             lambda: im.calc_integral_of_abs_velocity(s), lambda: s.pga, lambda: s.pgv, lambda: s.velocity[-1], lambda: s.displacement[-1],
             lambda: s.fa_spectrum[0], lambda: s.smooth_fa_spectrum[0], lambda: s.s_a[0], lambda: s.s_d[-1], lambda: s.time[-1],
             lambda: pc.get_peak_indices(s), lambda: pc.get_zero_crossings_indices(s), lambda: pc.get_switched_peak_indices(s),
             lambda: stockwell.get_max_stockwell_freq(s) if 4 <= s.npts <= 256 else None,
             lambda: tp.interp_to_approx_dt(s, s.dt / 2.0).values, lambda: sdof.pseudo_response_spectra(s.values, s.dt, np.array([0.3, 1.0]), 0.05),
             lambda: s.generate_cumulative_stats(), lambda: im.calc_max_velocity_period(s) if hasattr(im, "calc_max_velocity_period") else None]
    if rule_switch:
        calls += [lambda: s.generate_displacement_and_velocity_series(trap=False)] * 3
    n = int(rng.integers(1, 4)) if k is None else k
    with warnings.catch_warnings():
        warnings.simplefilter("ignore")
        for _ in range(n):
            try:
                with np.errstate(all="ignore"):
                    r = calls[int(rng.integers(len(calls)))]()
                if isinstance(r, (tuple, list)) or (isinstance(r, np.ndarray) and r.base is None):
                    pass          # (arrays handed out by the object's properties are its own: not overwritten here)
            except Exception:
                pass

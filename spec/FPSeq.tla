------------------------------- MODULE FPSeq -------------------------------
(***************************************************************************)
(* Sequences of floats: sums, maxima, cumulative integrals.  Pure TLA+ on  *)
(* top of FP; folds come from SequencesExt (no recursion-depth limits).    *)
(***************************************************************************)
EXTENDS FP, SequencesExt, Functions, FiniteSets

FSeqOfInts(s) == [k \in 1..Len(s) |-> FInt(s[k])]

\* (an empty function [k \in {} |-> ..] is not accepted as a sequence by FoldLeft: guard it)
FSum(s)       == IF DOMAIN s = {} THEN Zero ELSE FoldLeft(FAdd, Zero, s)
FSumAbs(s)    == IF DOMAIN s = {} THEN Zero ELSE FoldLeft(LAMBDA acc, x : FAdd(acc, FAbs(x)), Zero, s)
FMaxAbs(s)    == IF DOMAIN s = {} THEN Zero ELSE FoldLeft(LAMBDA acc, x : FMax(acc, FAbs(x)), Zero, s)
FMaxSeq(s)    == FoldLeft(FMax, s[1], s)
FMinSeq(s)    == FoldLeft(FMin, s[1], s)
FDot(s, t)    == FoldLeft(LAMBDA acc, k : FAdd(acc, FMul(s[k], t[k])), Zero, [k \in 1..Len(s) |-> k])
FScale(c, s)  == [k \in 1..Len(s) |-> FMul(c, s[k])]
FMap(Op(_), s) == [k \in 1..Len(s) |-> Op(s[k])]
FAllFinite(s) == \A k \in 1..Len(s) : FIsFinite(s[k])
FMean(s)      == FDiv(FSum(s), FInt(Len(s)))

\* cumulative trapezoid with initial 0:  out[1] = 0, out[k] = out[k-1] + dt*(s[k]+s[k-1])/2
FCumTrap(s, dt) ==
  LET step(acc, k) == Append(acc, FAdd(acc[k - 1], FMul(dt, FDiv(FAdd(s[k], s[k - 1]), Two))))
  IN FoldLeft(step, <<Zero>>, [k \in 1..(Len(s) - 1) |-> k + 1])

\* cumulative sum
FCumSum(s) ==
  LET step(acc, k) == Append(acc, IF k = 1 THEN s[1] ELSE FAdd(acc[k - 1], s[k]))
  IN FoldLeft(step, <<>>, [k \in 1..Len(s) |-> k])

\* all elements of two equally long sequences are close (absolute tolerance)
SeqClose(s, t, tol) == Len(s) = Len(t) /\ \A k \in 1..Len(s) : Close(s[k], t[k], tol)

\* index (1-based) of the first maximum of |s|
FArgMaxAbs(s) ==
  LET m == FMaxAbs(s) IN CHOOSE k \in 1..Len(s) : FEq(FAbs(s[k]), m) /\ \A j \in 1..(k - 1) : ~FEq(FAbs(s[j]), m)
=============================================================================

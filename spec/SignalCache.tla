----------------------------- MODULE SignalCache -----------------------------
(***************************************************************************)
(* C04 -- derived quantities of a Signal / AccSignal never go stale.       *)
(*                                                                         *)
(* Abstract state: for every memoised derived quantity q                   *)
(*   flag[q]   the memo-valid bit the implementation keeps                 *)
(*   store[q]  ghost: does the memo slot hold the value for the CURRENT    *)
(*             values/settings ("cur"), an outdated one ("stale"), or      *)
(*             nothing that can be observed ("none", iff flag is false)    *)
(* What a read returns is Obs(q) = IF flag[q] THEN store[q] ELSE "cur".    *)
(*                                                                         *)
(* One action per public operation (the linearization point of a          *)
(* sequential library is the call's return).  Every change operation is    *)
(* described by TWO sets: what it makes outdated (semantics: Affected) and *)
(* what the code invalidates (implementation: Cleared).  NoStale is the    *)
(* theorem Cleared >= Affected, checked by TLC over the complete (finite)  *)
(* state space, hence for histories of any length.                         *)
(*                                                                         *)
(* AsFound = TRUE reproduces the defect found at the pinned commit         *)
(* (assigning response_times does not invalidate the response spectra);    *)
(* TLC then returns the counterexample  Read(s_a); SetRespTimes; stale.    *)
(*                                                                         *)
(* With Emit = TRUE every transition TLC generates is printed as           *)
(*   <<"E", level, enc(state), op, enc(state')>>                           *)
(* -- the labelled state graph (exhaustive mode) or random behaviours      *)
(* (-simulate) that the harness replays on real objects.                   *)
(***************************************************************************)
EXTENDS Integers, Sequences, TLC

CONSTANTS Kind,      \* "Signal" or "AccSignal"
          AsFound,   \* BOOLEAN: model the code as found (defect) or as repaired
          Emit       \* BOOLEAN: print transitions

QOrder == IF Kind = "AccSignal" THEN <<"fa", "smooth", "dv", "rs", "pga", "pgv", "pgd">> ELSE <<"fa", "smooth">>
Q == {QOrder[k] : k \in 1..Len(QOrder)}

VARIABLES flag, store
vars == <<flag, store>>
St == [flag |-> flag, store |-> store]

\* ---- pure state functions ---------------------------------------------------
ObsS(st, q) == IF st.flag[q] THEN st.store[q] ELSE "cur"
Fill(st, q, v) == [flag |-> [st.flag EXCEPT ![q] = TRUE], store |-> [st.store EXCEPT ![q] = v]]

\* compute q unconditionally from its inputs (which are read through their own memos)
RECURSIVE Ensure(_, _)
Compute(st, q) ==
  CASE q = "smooth" -> LET s1 == Ensure(st, "fa") IN Fill(s1, "smooth", ObsS(s1, "fa"))
    [] q = "pgv"    -> LET s1 == Ensure(st, "dv") IN Fill(s1, "pgv", ObsS(s1, "dv"))
    [] q = "pgd"    -> LET s1 == Ensure(st, "dv") IN Fill(s1, "pgd", ObsS(s1, "dv"))
    [] OTHER        -> Fill(st, q, "cur")           \* fa, dv, rs, pga: computed from values/settings directly
\* lazy read: compute only if the memo bit is off
Ensure(st, q) == IF st.flag[q] THEN st ELSE Compute(st, q)

\* a change: quantities in A become outdated, the code clears the memo bits in C
Change(st, A, C) ==
  LET f2 == [q \in Q |-> IF q \in C THEN FALSE ELSE st.flag[q]]
  IN [flag |-> f2,
      store |-> [q \in Q |-> IF ~f2[q] THEN "none" ELSE IF q \in A THEN "stale" ELSE st.store[q]]]

\* ---- the operations ----------------------------------------------------------
\* reads: public name -> quantity ("-" = not memoised: npts, time, values, settings)
ReadsSig == [values |-> "-", npts |-> "-", time |-> "-", dt |-> "-", smooth_fa_freqs |-> "-",
             fa_spectrum |-> "fa", fa_spectrum_abs |-> "fa", fa_freqs |-> "fa", fa_frequencies |-> "fa",
             smooth_fa_spectrum |-> "smooth"]
ReadsAccOnly == [velocity |-> "dv", displacement |-> "dv", pga |-> "pga", pgv |-> "pgv", pgd |-> "pgd",
                 s_a |-> "rs", s_v |-> "rs", s_d |-> "rs", response_times |-> "-"]
Reads == IF Kind = "AccSignal" THEN ReadsSig @@ ReadsAccOnly ELSE ReadsSig

\* explicit generators called with default arguments: recompute and set the memo bit
RefreshSig == [generate_fa_spectrum |-> "fa", gen_fa_spectrum |-> "fa",
               generate_smooth_fa_spectrum |-> "smooth", gen_smooth_fa_spectrum |-> "smooth"]
RefreshAccOnly == [generate_response_spectrum |-> "rs", gen_response_spectrum |-> "rs",
                   generate_displacement_and_velocity_series |-> "dv"]
Refresh == IF Kind = "AccSignal" THEN RefreshSig @@ RefreshAccOnly ELSE RefreshSig

\* data mutators: every derived quantity becomes outdated; the code ends in clear_cache
MutSig == {"add_constant_tiny", "scale_slightly", "reset_values", "reset_values_longer", "reset_values_shorter", "reset_values_list", "add_constant", "add_series", "add_signal", "butter_pass", "butter_pass_gibbs",
           "remove_average", "remove_poly", "running_average"}
MutAccOnly == {"correct_me", "remove_rolling_average_velocity", "remove_rolling_average_acc",
               "rebase_displacement", "set_zero_residual_velocity", "set_zero_residual_velocity_tz",
               "set_zero_residual_displacement", "set_zero_residual_displacement_and_velocity",
               "set_zero_residual_displacement_and_velocity_tz"}
Mutators == IF Kind = "AccSignal" THEN MutSig \cup MutAccOnly ELSE MutSig

\* settings changes
\* (the *_inplace forms edit the array the getter hands out and assign it back:  o.smooth_fa_freqs *= 1.5)
SmoothSetters == {"set_smooth_fa_freqs", "set_smooth_fa_frequencies", "set_smooth_fa_frequecies_by_range",
                  "set_smooth_freq_range", "set_smooth_freq_points", "set_smooth_fa_freqs_inplace"}
RespSetters == IF Kind = "AccSignal" THEN {"set_response_times", "response_series_rt", "set_response_times_inplace"} ELSE {}
\* generator called WITH a new setting: changes the setting and recomputes
RespGenSetters == IF Kind = "AccSignal" THEN {"gen_response_spectrum_rt"} ELSE {}
SmoothGenSetters == {"gen_smooth_fa_spectrum_freqs"}
\* operations that must leave everything alone
Neutral == IF Kind = "AccSignal" THEN {"response_series", "get_section_average", "add_series_bad_length", "clear_cache_noop"}
           ELSE {"get_section_average", "add_series_bad_length"}

Ops == DOMAIN Reads \cup DOMAIN Refresh \cup Mutators \cup SmoothSetters \cup RespSetters
       \cup RespGenSetters \cup SmoothGenSetters \cup Neutral

After(st, o) ==
  CASE o \in DOMAIN Reads   -> IF Reads[o] = "-" THEN st ELSE Ensure(st, Reads[o])
    [] o \in DOMAIN Refresh -> Compute(st, Refresh[o])
    [] o \in Mutators       -> Change(st, Q, Q)
    [] o \in SmoothSetters  -> Change(st, {"smooth"}, {"smooth"})
    [] o \in RespSetters    -> Change(st, {"rs"}, IF AsFound THEN {} ELSE {"rs"})
    [] o \in RespGenSetters -> Compute(Change(st, {"rs"}, IF AsFound THEN {} ELSE {"rs"}), "rs")
    [] o \in SmoothGenSetters -> Compute(Change(st, {"smooth"}, {"smooth"}), "smooth")
    [] o = "clear_cache_noop" -> Change(st, {}, Q)      \* explicit clear_cache(): memo bits off, nothing outdated
    [] OTHER                -> st

\* ---- behaviour ------------------------------------------------------------------
Code(st, q) == IF ~st.flag[q] THEN 0 ELSE IF st.store[q] = "cur" THEN 1 ELSE 2
Enc(st) == [k \in 1..Len(QOrder) |-> Code(st, QOrder[k])]

Init == flag = [q \in Q |-> FALSE] /\ store = [q \in Q |-> "none"]

Do(o) == LET s2 == After(St, o)
         IN /\ flag' = s2.flag /\ store' = s2.store
            /\ (Emit => PrintT(<<"E", TLCGet("level"), Enc(St), o, Enc(s2)>>))

Next == \E o \in Ops : Do(o)
Spec == Init /\ [][Next]_vars

\* ---- properties -------------------------------------------------------------------
TypeOK == /\ flag \in [Q -> BOOLEAN]
          /\ store \in [Q -> {"none", "cur", "stale"}]
          /\ \A q \in Q : (store[q] = "none") = ~flag[q]

Obs(q) == ObsS(St, q)
NoStale == \A q \in Q : Obs(q) = "cur"

\* reads (and the neutral operations) are invisible: no observable changes
ReadsPure == [][(\E o \in DOMAIN Reads \cup Neutral : St' = After(St, o)) =>
                   (\A q \in Q : ObsS(St', q) = Obs(q))]_vars
\* reads are idempotent on the abstract state
ReadIdempotent == \A o \in DOMAIN Reads : After(After(St, o), o) = After(St, o)
=============================================================================

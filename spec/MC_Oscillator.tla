---------------------------- MODULE MC_Oscillator ----------------------------
(***************************************************************************)
(* Exhaustive instance of Oscillator: every record over {-1, 0, 1/2, 2} up *)
(* to MaxLen samples, dt = 1/100, for the regime grid                      *)
(*    T/dt in {0.2, 1, 5.5, 6.5, 20, 2e4} x xi in {0, 0.05, 0.7, 0.999}.   *)
(* Properties of the model (they guard the specification itself and are    *)
(* the C02 laws as theorems of the model):                                 *)
(*   FlowExact  the semigroup law: r sub-steps of h/r through the linearly *)
(*              interpolated forcing equal one step of h  (r = 2, 3, 8)    *)
(*   ZeroIC     a zero record gives a zero response                        *)
(*   Linear     response(3 a - b/2) = 3 response(a) - response(b)/2        *)
(* Implementation in lock-step: TABLE row: code, then per regime the last  *)
(* sample of (u, v, acc) from response_series, nigam_and_jennings_response *)
(* and AccSignal.response_series (9 floats per regime).                    *)
(***************************************************************************)
EXTENDS Oscillator, IOUtils, TLC, VerdictLib, TableIO

CONSTANTS MaxLen
Lv == << FInt(-1), Zero, Half, Two >>
NL == 4
Dt == FStr("0.01")
Ratios == << FStr("0.2"), One, FStr("5.5"), FStr("6.5"), FInt(20), FStr("2e4") >>
Xis == << Zero, FStr("0.05"), FStr("0.7"), FStr("0.999") >>
NR == Len(Ratios) * Len(Xis)
Tof(r) == FMul(Ratios[((r - 1) \div Len(Xis)) + 1], Dt)
XiOf(r) == Xis[((r - 1) % Len(Xis)) + 1]
Flows == [r \in 1..NR |-> Flow(Tof(r), XiOf(r), Dt)]
Tab == IntTable(IOEnv.TABLE_FILE)
Partner(k) == Lv[((k * 3) % NL) + 1]

VARIABLES xs, code, ys, yb, yc, pk
vars == <<xs, code, ys, yb, yc, pk>>
\* ys[r], yb[r], yc[r]: model states for the record, the partner record, the combination 3a - b/2
\* pk[r] = running peaks <<|u|, |v|, |acc|>> of the model series
Init == /\ xs = <<>> /\ code = 0
        /\ ys = [r \in 1..NR |-> Y0] /\ yb = [r \in 1..NR |-> Y0] /\ yc = [r \in 1..NR |-> Y0]
        /\ pk = [r \in 1..NR |-> <<Zero, Zero, Zero>>]
Comb(a, b) == FAdd(FMul(FInt(3), a), FMul(FRat(-1, 2), b))
Sample(k) ==
  LET x == Lv[k]  n1 == Len(xs) + 1  b == Partner(n1)
      first == n1 = 1
      px == IF first THEN x ELSE xs[n1 - 1]  pb == IF first THEN b ELSE Partner(n1 - 1)
      ys2 == [r \in 1..NR |-> IF first THEN Y0 ELSE Advance(Flows[r], ys[r], px, x)]
  IN /\ Len(xs) < MaxLen
     /\ xs' = Append(xs, x) /\ code' = code * NL + k
     /\ ys' = ys2
     /\ yb' = [r \in 1..NR |-> IF first THEN Y0 ELSE Advance(Flows[r], yb[r], pb, b)]
     /\ yc' = [r \in 1..NR |-> IF first THEN Y0 ELSE Advance(Flows[r], yc[r], Comb(px, pb), Comb(x, b))]
     /\ pk' = [r \in 1..NR |-> << FMax(pk[r][1], FAbs(Disp(Flows[r], ys2[r]))), FMax(pk[r][2], FAbs(Velo(Flows[r], ys2[r]))),
                                   FMax(pk[r][3], FAbs(Accel(Flows[r], ys2[r]))) >>]
Next == \E k \in 1..NL : Sample(k)
Spec == Init /\ [][Next]_vars

-----------------------------------------------------------------------------
n == Len(xs)
Tiny == FStr("1e-11")
VClose(a, b, scale) == Close(a[1], b[1], FMul(Tiny, scale)) /\ Close(a[2], b[2], FMul(Tiny, scale))
NatScale(r) == FAdd(FDiv(Two, Flows[r].w), FStr("1e-300"))       \* |a|max / w  bounds the scaled state
\* semigroup law on the last step: r sub-steps through the interpolated forcing
SubSteps(r, q, y, a0, a1) ==
  LET fq == Flow(Tof(r), XiOf(r), FDiv(Dt, FInt(q)))
      f(m) == FAdd(a0, FMul(FSub(a1, a0), FRat(m, q)))
      RECURSIVE go(_, _)
      go(yy, m) == IF m = q THEN yy ELSE go(Advance(fq, yy, f(m), f(m + 1)), m + 1)
  IN go(y, 0)
FlowExact == n = 2 => \A r \in 1..NR : \A q \in {2, 3, 8} :
  VClose(SubSteps(r, q, Y0, xs[1], xs[2]), ys[r], NatScale(r))
ZeroIC == (n >= 1 /\ \A i \in 1..n : FEq(xs[i], Zero)) => \A r \in 1..NR : FEq(ys[r][1], Zero) /\ FEq(ys[r][2], Zero)
Linear == n >= 1 => \A r \in 1..NR :
  VClose(yc[r], << Comb(ys[r][1], yb[r][1]), Comb(ys[r][2], yb[r][2]) >>, FMul(FInt(4), NatScale(r)))

Row == Tab[code]
F(r, k) == FloatAt(Row, 1, (r - 1) * 9 + k)
Conforms == n >= 2 =>
  /\ Chk(Row[1] = code /\ Len(Row) = 1 + 18 * NR, code, "TableIndex")
  /\ \A r \in 1..NR :
       LET fl == Flows[r]
           w == fl.w  am == FMaxAbs(xs)
           tu == AbsTol(Tof(r), Dt, n, pk[r][1], FDiv(am, FSq(w)))
           tv == AbsTol(Tof(r), Dt, n, pk[r][2], FDiv(am, w))
           su == FMax(pk[r][1], FMul(Floor, FDiv(am, FSq(w))))
           sv == FMax(pk[r][2], FMul(Floor, FDiv(am, w)))
           sa == FMax(pk[r][3], FMul(Floor, am))
       IN /\ Chk(Close(F(r, 1), Disp(fl, ys[r]), tu), code, "DispExact")
          /\ Chk(Close(F(r, 2), Velo(fl, ys[r]), tv), code, "VeloExact")
          /\ Chk(Close(F(r, 3), FNeg(FAdd(FMul(FMul(FMul(Two, XiOf(r)), w), F(r, 2)), FMul(FSq(w), F(r, 1)))),
                       AccTol(w, XiOf(r), F(r, 1), F(r, 2))), code, "AccIdentity")
          /\ Chk(\A e \in {1, 2} : /\ Close(F(r, 3 * e + 1), F(r, 1), FMul(FStr("1e-12"), su))
                                   /\ Close(F(r, 3 * e + 2), F(r, 2), FMul(FStr("1e-12"), sv))
                                   /\ Close(F(r, 3 * e + 3), F(r, 3), FMul(FStr("1e-12"), sa)), code, "EntryPointsAgree")
=============================================================================

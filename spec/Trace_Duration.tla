---------------------------- MODULE Trace_Duration ----------------------------
(***************************************************************************)
(* Trace validation for C10 (random real records).  One record per line:   *)
(*  kind "sig":  variant in {"vals","arias","cav"}, dt, a[], lo, hi,       *)
(*               raised, t0, t1, dur (se=True and se=False results)        *)
(*  kind "brac": dt, a[], thr, none, t0, t1, dur                           *)
(*  kind "rel":  law, x[] / y[] (reported numbers), k, dt -- the laws      *)
(*               "same" (scale invariance, joint scaling: x = y),          *)
(*               "shift" (y = x + k*dt), "geq" (x[1] >= y[1])              *)
(* A cumulative value within 1e-12 (relative to the total) of a boundary   *)
(* is undecided and accepted on either side.                               *)
(***************************************************************************)
EXTENDS Duration, Json, IOUtils, TLC, VerdictLib

Recs == ndJsonDeserialize(IOEnv.TRACE_FILE)
VARIABLES tid, l, bad
vars == <<tid, l, bad>>
R == Recs[tid]
Init == tid \in 1..Len(Recs) /\ l = 0 /\ bad = {}

T(i, dt) == FMul(FInt(i - 1), dt)
Rel == FStr("1e-12")

SigCheck ==
  LET cum == IF R.variant \in {"vals", "cumsq"} THEN CumSq(R.a) ELSE IF R.variant = "arias" THEN CumArias(R.a, R.dt)
             ELSE IF R.variant = "signed" THEN FCumSum(R.a)      \* a user-supplied measure that is NOT monotone (running sum of the samples)
             ELSE CumCav(R.a, R.dt)
      S == InsideSet(cum, R.lo, R.hi, Rel)  Mb == MaybeSet(cum, R.lo, R.hi, Rel)
      n == Len(R.a)
      okIdx == IF R.raised THEN S = {}
               ELSE \E i0 \in Mb : /\ FEq(R.t0, T(i0, R.dt)) /\ (S # {} => i0 <= Min(S))
                                   /\ \E i1 \in Mb : FEq(R.t1, T(i1, R.dt)) /\ i0 <= i1 /\ (S # {} => i1 >= Max(S))
      okRange == R.raised \/ (FLe(Zero, R.t0) /\ FLe(R.t0, R.t1) /\ FLe(R.t1, T(n, R.dt)))
      okDur == R.raised \/ Close(R.dur, FSub(R.t1, R.t0), FMul(FStr("1e-12"), FAdd(One, FAbs(R.t1))))
  IN Fails(okIdx, "SigDurIndices") \cup Fails(okRange /\ okDur, "SigDurRange")
     \cup Fails(R.raised => S = {}, "RaisesOnlyIfEmpty")

BracCheck ==
  LET S == Above(R.a, R.thr)
      ok == IF S = {} THEN R.none /\ FEq(R.dur, Zero)
            ELSE ~R.none /\ FEq(R.t0, T(Min(S), R.dt)) /\ FEq(R.t1, T(Max(S), R.dt))
                 /\ Close(R.dur, FSub(R.t1, R.t0), FMul(FStr("1e-12"), FAdd(One, FAbs(R.t1))))
  IN Fails(ok, IF S = {} THEN "BracNone" ELSE "BracIndices")

RelCheck ==
  LET tol == FMul(FStr("1e-9"), R.dt)
      ok == IF R.law = "same" THEN Len(R.x) = Len(R.y) /\ \A j \in 1..Len(R.x) : FEq(R.x[j], R.y[j])
            ELSE IF R.law = "shift" THEN \A j \in 1..Len(R.x) : Close(R.y[j], FAdd(R.x[j], FMul(FInt(R.k), R.dt)), tol)
            ELSE FGe(FAdd(R.x[1], tol), R.y[1])
  IN Fails(ok, R.clause)

Step == /\ l = 0 /\ l' = 1 /\ tid' = tid
        /\ bad' = IF R.kind = "sig" THEN SigCheck ELSE IF R.kind = "brac" THEN BracCheck ELSE RelCheck
Finish == l = 1 /\ l' = -1 /\ UNCHANGED <<tid, bad>>
Next == Step \/ Finish
Spec == Init /\ [][Next]_vars
Verdict == l = -1 => EmitVerdict(R.tid, bad, 1)
=============================================================================

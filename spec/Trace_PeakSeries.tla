--------------------------- MODULE Trace_PeakSeries ---------------------------
(***************************************************************************)
(* Trace validation for C13 on real / integer / list inputs.  Records:     *)
(*  kind "peaks": x[], d[] (delta series), p[] (pseudo-cyclic), dsh[],     *)
(*        psh[] (the same for x + shift)                                   *)
(*  kind "pl": x[], sw[], aref, b, cut, ncyc[] (series), namp (cycles used *)
(*        for the amplitude), amp[] (series), ainv (amplitude computed for *)
(*        N = ncyc[last]), and for the laws: amp_scaled (record * alpha),  *)
(*        alpha, ncyc_joint (record*alpha2, aref*|alpha2|), comb (combined *)
(*        of two identical components), gm (geometric mean of the same),   *)
(*        colb[] / colncyc[] / colamp[] (array-valued b, finals per column)*)
(***************************************************************************)
EXTENDS PeakSeries, Json, IOUtils, TLC, VerdictLib

Recs == ndJsonDeserialize(IOEnv.TRACE_FILE)
VARIABLES tid, l, bad
vars == <<tid, l, bad>>
R == Recs[tid]
Init == tid \in 1..Len(Recs) /\ l = 0 /\ bad = {}
FSgn(a, b) == FSign(FSub(b, a))
Rel == FStr("1e-9")
Near(x, y) == CloseRel(x, y, Rel, FAbs(y), FStr("1e-300"))

PeaksCheck ==
  LET n == Len(R.x)
      tol == FMul(FMul(FInt(8 * n), Eps), FAdd(TV(R.x), FMaxAbs(R.x)))      \* rounding budget of n-term sums
      tolsh == FMul(FMul(FInt(64), Eps), FAdd(FMaxAbs(R.x), FAbs(R.shift)))
  IN Fails(DeltaSupport(R.x, R.d, FSgn), "DeltaSupport")
     \cup Fails(DeltaAbsSumIsTV(R.x, R.d, tol), "DeltaAbsSumIsTV")
     \cup Fails(DeltaSignedSum(R.x, R.d, tol), "DeltaSignedSum")
     \cup Fails(PseudoCyclicSum(R.x, R.p, tol, FSgn), "PseudoCyclicSum")
     \cup Fails(Len(R.dsh) = n /\ Len(R.psh) = n
                /\ \A j \in 1..n : Close(R.dsh[j], R.d[j], tolsh) /\ Close(R.psh[j], R.p[j], tolsh), "ShiftInvariant")

PlCheck ==
  LET n == Len(R.x)
      nf == NCycFinal(R.x, R.sw, R.aref, R.b, R.cut)
      af == AmpFinal(R.x, R.sw, R.namp, R.b)
      \* "non-decreasing": the cycle count is a running sum of non-negative shares, held between peaks: exact; the amplitude is
      \* a power of such a sum: monotone up to the last bits of the power function
      slackN == Zero  slackA == FMul(FMul(FInt(8), Eps), FAbs(af))
      twob == FPow(Two, R.b)
  IN Fails(Len(R.ncyc) = n /\ Len(R.amp) = n, "PLLength")
     \cup Fails(NonDecreasing(R.ncyc, slackN) /\ NonDecreasing(R.amp, slackA), "PLMonotone")
     \cup Fails(Near(R.ncyc[Len(R.ncyc)], nf) /\ Near(R.amp[Len(R.amp)], af), "PLDefinition")
     \cup Fails(Near(R.ainv, InverseTarget(R.x, R.sw, R.aref, R.b, R.cut)), "PLInverse")
     \cup Fails(Near(R.amp_scaled, FMul(FAbs(R.alpha), R.amp[Len(R.amp)])), "PLAmpHomogeneous")
     \cup Fails(Near(R.ncyc_joint, R.ncyc[Len(R.ncyc)]), "PLCyclesJointScale")
     \cup Fails(Near(R.comb, FMul(twob, R.amp[Len(R.amp)])), "PLCombined2b")
     \cup Fails(Near(R.gm, R.amp[Len(R.amp)]), "PLGeoMean")
     \cup Fails(\A c \in 1..Len(R.colb) :
                   /\ Near(R.colncyc[c], NCycFinal(R.x, R.sw, R.aref, R.colb[c], R.cut))
                   /\ Near(R.colamp[c], AmpFinal(R.x, R.sw, R.namp, R.colb[c])), "PLArrayB")

\* a long record: only the laws BETWEEN results (the definition is validated on the shorter records)
PlRelCheck ==
  Fails(R.len_ok, "PLLength")
  \cup Fails(NonDecreasing(R.ncyc_dec, Zero) /\ NonDecreasing(R.amp_dec, FMul(FMul(FInt(8), Eps), FAbs(R.amp_last))), "PLMonotone")
  \cup Fails(Near(R.ainv, R.aref), "PLInverse")
  \cup Fails(Near(R.amp_scaled, FMul(FAbs(R.alpha), R.amp_last)), "PLAmpHomogeneous")
  \cup Fails(Near(R.ncyc_joint, R.ncyc_last), "PLCyclesJointScale")

Step == l = 0 /\ l' = 1 /\ tid' = tid /\ bad' = (IF R.kind = "peaks" THEN PeaksCheck ELSE IF R.kind = "plrel" THEN PlRelCheck ELSE PlCheck)
Finish == l = 1 /\ l' = -1 /\ UNCHANGED <<tid, bad>>
Next == Step \/ Finish
Spec == Init /\ [][Next]_vars
Verdict == l = -1 => EmitVerdict(R.tid, bad, 1)
=============================================================================

---------------------------- MODULE Trace_Stockwell ----------------------------
(***************************************************************************)
(* Trace validation for C15.  Records:                                     *)
(*  kind "full":  x[], rows, cols, s[][] (complex pairs, row major per     *)
(*        row), s2[][] (the scipy implementation) -- ONE EVENT PER ROW:    *)
(*        every cell against the definition, both implementations agree,   *)
(*        the row sum is conj(X[k])                                        *)
(*  kind "cells": x[], rows, cols, cells = << <<r, c, re, im>> >> a random *)
(*        sample of cells of a large transform, rowsum[] (complex)         *)
(*  kind "inv":   x[], y[]  itransform(transform(x))                       *)
(*  kind "lin":   f, g, x[], y[], z[] complex cells: z = f x + g y         *)
(*  kind "dom":   n, dt, k0, trace[] (dominant frequency at every time)    *)
(***************************************************************************)
EXTENDS Stockwell, Json, IOUtils, TLC, VerdictLib

Recs == ndJsonDeserialize(IOEnv.TRACE_FILE)
VARIABLES tid, l, bad, X, V
vars == <<tid, l, bad, X, V>>
R == Recs[tid]
HasX(r) == r.kind \in {"full", "cells"}
NN(r) == EvenLen(Len(r.x))
N == NN(R)
NEv == IF R.kind = "full" THEN R.rows ELSE 1
Init == /\ tid \in 1..Len(Recs) /\ l = 0
        /\ X = IF HasX(Recs[tid]) THEN Dft(SubSeq(Recs[tid].x, 1, NN(Recs[tid])), NN(Recs[tid])) ELSE <<>>
        /\ V = IF HasX(Recs[tid]) THEN PosTwiddles(NN(Recs[tid])) ELSE <<>>
        /\ bad = IF HasX(Recs[tid]) THEN Fails(Recs[tid].rows = NN(Recs[tid]) \div 2 /\ Recs[tid].cols = NN(Recs[tid]), "Shape") ELSE {}

TolOf(x) == FMul(FStr("1e-9"), FAdd(FDiv(FSumAbs(x), FInt(EvenLen(Len(x)))), FStr("1e-300")))
RowStep(r) ==
  LET k == RowK(r, N)  tol == TolOf(R.x)
      sum == FoldLeft(LAMBDA acc, c : CAdd(acc, R.s[r][c]), CZero, [c \in 1..N |-> c])
  IN Fails(\A c \in 1..N : CClose(R.s[r][c], Cell(X, V, N, k, c - 1), tol), "Definition")
     \cup Fails(\A c \in 1..N : CClose(R.s2[r][c], R.s[r][c], tol), "ImplsAgree")
     \cup Fails(CClose(sum, CConj(X[k + 1]), FMul(tol, FInt(N))), "Marginal")
CellsCheck ==
  LET tol == TolOf(R.x) IN
  Fails(\A i \in 1..Len(R.cells) : LET e == R.cells[i] IN
          CClose(<<e[3], e[4]>>, Cell(X, V, N, RowK(e[1], N), e[2] - 1), tol), "Definition")
  \cup Fails(Len(R.rowsum) = N \div 2 /\ \A r \in 1..(N \div 2) : CClose(R.rowsum[r], CConj(X[RowK(r, N) + 1]), FMul(tol, FInt(N))), "Marginal")
InvCheck ==
  LET M == EvenLen(Len(R.x))  xr == SubSeq(R.x, 1, M)  tgt == InverseTarget(xr, M)
  IN Fails(Len(R.y) = M /\ \A j \in 1..M : Close(R.y[j], tgt[j], FMul(FStr("1e-9"), FAdd(FMaxAbs(xr), FStr("1e-300")))), "InverseExact")
LinCheck ==
  LET sc == FAdd(FAdd(FMul(FAbs(R.f), FMaxSeq([i \in 1..Len(R.x) |-> CAbs(R.x[i])])), FMul(FAbs(R.g), FMaxSeq([i \in 1..Len(R.y) |-> CAbs(R.y[i])]))), FStr("1e-300"))
  IN Fails(Len(R.z) = Len(R.x) /\ \A i \in 1..Len(R.z) :
             CClose(R.z[i], CAdd(CScale(R.f, R.x[i]), CScale(R.g, R.y[i])), FMul(FStr("1e-9"), sc)), "Linear")
DomCheck ==
  LET M == EvenLen(R.n)  f0 == FDiv(FInt(R.k0), FMul(FInt(M), R.dt))
      lo == M \div 4  hi == (3 * M) \div 4
  IN Fails(Len(R.trace) = M /\ \A t \in (lo + 1)..hi : CloseRel(R.trace[t], f0, FStr("1e-9"), f0, Zero), "DominantFreq")

Step == /\ l >= 0 /\ l < NEv /\ "Shape" \notin bad /\ l' = l + 1 /\ UNCHANGED <<tid, X, V>>
        /\ bad' = bad \cup (CASE R.kind = "full" -> RowStep(l + 1) [] R.kind = "cells" -> CellsCheck [] R.kind = "inv" -> InvCheck
                              [] R.kind = "lin" -> LinCheck [] R.kind = "dom" -> DomCheck)
Finish == (l = NEv \/ "Shape" \in bad) /\ l >= 0 /\ l' = -1 /\ UNCHANGED <<tid, bad, X, V>>
Next == Step \/ Finish
Spec == Init /\ [][Next]_vars
Verdict == l = -1 => EmitVerdict(R.tid, bad, NEv)
=============================================================================

----------------------------- MODULE Trace_Filter -----------------------------
(***************************************************************************)
(* Trace validation for C17.  Records:                                     *)
(*  kind "gain": dt, n, ftype, order, f1, f2, f (sinusoid frequency),      *)
(*       raised, dtout, x[], y[] (the MIDDLE HALF of input and output),    *)
(*       nout (length of the output) -- zero phase with gain |H(f)|^2      *)
(*  kind "rel":  law in {"same", "lin"}: as in Trace_Oscillator            *)
(*  kind "detrend": deg, x[], y[], y2[], yp[], pscale (size of the          *)
(*       polynomial that was added before computing yp)                    *)
(*  kind "add":  x[], inc[] (what was added, element-wise), y[], raised,   *)
(*       must_raise                                                        *)
(*  kind "runav": w, x[], y[]                                              *)
(***************************************************************************)
EXTENDS Filter, Json, IOUtils, TLC, VerdictLib

Recs == ndJsonDeserialize(IOEnv.TRACE_FILE)
VARIABLES tid, l, bad
vars == <<tid, l, bad>>
R == Recs[tid]
Init == tid \in 1..Len(Recs) /\ l = 0 /\ bad = {}

GainCheck ==
  IF R.raised THEN {"CutoffContainers"}
  ELSE LET g == Gain2(R.ftype, R.order, R.f1, R.f2, R.f, R.dt)
           amp == FAdd(FMaxAbs(R.x), FStr("1e-300"))
       IN Fails(R.nout = R.n /\ FEq(R.dtout, R.dt), "LengthDtPreserved")
          \cup Fails(Len(R.y) = Len(R.x) /\ \A j \in 1..Len(R.x) : Close(R.y[j], FMul(g, R.x[j]), FMul(FStr("1e-4"), amp)), "ZeroPhaseGain")
RelCheck ==
  LET t == FMul(R.tol, R.scale)
      ok == IF R.law = "same" THEN Len(R.x) = Len(R.y) /\ \A j \in 1..Len(R.x) : Close(R.y[j], R.x[j], t)
            ELSE Len(R.x) = Len(R.z) /\ Len(R.y) = Len(R.z)
                 /\ \A j \in 1..Len(R.z) : Close(R.z[j], FAdd(FMul(R.f, R.x[j]), FMul(R.g, R.y[j])), t)
  IN Fails(ok, R.clause)
DetrendCheck ==
  LET n == Len(R.x)  d == R.deg  sc == FAdd(FMaxAbs(R.x), FStr("1e-300"))  tol == FMul(FStr("1e-7"), sc)
      diff == [j \in 1..n |-> FSub(R.x[j], R.y[j])]
      near(a, b) == Len(a) = n /\ \A j \in 1..n : Close(a[j], b[j], tol)
      \* (d+1)-th differences of a degree-d polynomial vanish; rounding is amplified by 2^(d+1)
  IN IF Len(R.y) # n THEN {"LengthDtPreserved"}
     ELSE Fails(n <= d + 1 \/ (LET dd == Diff(diff, d + 1) IN \A j \in 1..(n - d - 1) : Close(dd[j], Zero, FMul(tol, FInt(32)))), "DetrendIsPoly")
          \cup Fails(\A p \in 0..d : Close(Moment(R.y, p), Zero, FMul(tol, FInt(n))), "DetrendOrthogonal")
          \cup Fails(near(R.y2, R.y), "DetrendIdempotent")
          \cup Fails(Len(R.yp) = n /\ \A j \in 1..n : Close(R.yp[j], R.y[j], FMul(FStr("1e-7"), FAdd(sc, R.pscale))), "DetrendPolyInvariant")
AddCheck ==
  IF R.must_raise THEN Fails(R.raised, "AddRejects")
  ELSE IF R.raised THEN {"AddElementwise"}
  ELSE Fails(Len(R.y) = Len(R.x) /\ \A j \in 1..Len(R.x) :
               Close(R.y[j], FAdd(R.x[j], R.inc[j]), FMul(FMul(FInt(4), Eps), FAdd(FAbs(R.x[j]), FAbs(R.inc[j])))), "AddElementwise")
RunAvCheck ==
  LET ref == RunAv(R.x, R.w)  tol == FMul(FMul(FInt(64), Eps), FAdd(FMaxAbs(R.x), FStr("1e-300")))
  IN Fails(Len(R.y) = Len(R.x) /\ \A j \in 1..Len(R.x) : Close(R.y[j], ref[j], tol), "RunningAverage")

Step == /\ l = 0 /\ l' = 1 /\ tid' = tid
        /\ bad' = (CASE R.kind = "gain" -> GainCheck [] R.kind = "rel" -> RelCheck [] R.kind = "detrend" -> DetrendCheck
                     [] R.kind = "add" -> AddCheck [] R.kind = "runav" -> RunAvCheck)
Finish == l = 1 /\ l' = -1 /\ UNCHANGED <<tid, bad>>
Next == Step \/ Finish
Spec == Init /\ [][Next]_vars
Verdict == l = -1 => EmitVerdict(R.tid, bad, 1)
=============================================================================

-------------------------------- MODULE Filter --------------------------------
(***************************************************************************)
(* C17 -- zero-phase Butterworth filtering, polynomial detrending,         *)
(* element-wise addition, running average.                                 *)
(*                                                                         *)
(* Squared magnitude of the digital Butterworth filter of (prototype)      *)
(* order N designed by the bilinear transform with pre-warping, with       *)
(* W(f) = tan(pi f dt):                                                    *)
(*   low :  1 / (1 + (W/Wc)^(2N))                                          *)
(*   high:  1 / (1 + (Wc/W)^(2N))                                          *)
(*   band:  1 / (1 + ((W^2 - W1 W2) / (W (W2 - W1)))^(2N))                 *)
(* Forward-backward filtering has zero phase and gain |H|^2.               *)
(***************************************************************************)
EXTENDS FP, FPSeq, Integers, Sequences

Warp(f, dt) == FTan(FMul(FMul(Pi, f), dt))
Gain2(ftype, order, f1, f2, f, dt) ==      \* |H(f)|^2 ; f1 = low edge (band, high), f2 = high edge (band, low)
  LET W == Warp(f, dt)
      r == IF ftype = "low" THEN FDiv(W, Warp(f2, dt))
           ELSE IF ftype = "high" THEN FDiv(Warp(f1, dt), W)
           ELSE LET W1 == Warp(f1, dt)  W2 == Warp(f2, dt)
                IN FDiv(FSub(FSq(W), FMul(W1, W2)), FMul(W, FSub(W2, W1)))
  IN FDiv(One, FAdd(One, FPowI(FSq(r), order)))

\* ---- detrending ----------------------------------------------------------------
\* k-th forward difference
RECURSIVE Diff(_, _)
Diff(s, k) == IF k = 0 THEN s ELSE Diff([j \in 1..(Len(s) - 1) |-> FSub(s[j + 1], s[j])], k - 1)
\* abscissa used by the library: j/(n-1), j = 0..n-1
Absc(n) == [j \in 1..n |-> FRat(j - 1, IF n > 1 THEN n - 1 ELSE 1)]
Moment(y, p) == LET t == Absc(Len(y)) IN FSum([j \in 1..Len(y) |-> FMul(y[j], FPowI(t[j], p))])

\* ---- running average ------------------------------------------------------------------
\* mean of the ORIGINAL samples within floor(w/2) positions of sample i
RunAv(x, w) ==
  LET n == Len(x)  h == w \div 2
  IN [i \in 1..n |-> LET lo == IF i - h < 1 THEN 1 ELSE i - h  hi == IF i + h > n THEN n ELSE i + h
                     IN FDiv(FSum(SubSeq(x, lo, hi)), FInt(hi - lo + 1))]
=============================================================================

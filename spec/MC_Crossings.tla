---------------------------- MODULE MC_Crossings ----------------------------
(***************************************************************************)
(* Exhaustive instance of Crossings over the integer alphabet              *)
(* Lo..Lo+NL-1 (symmetric around zero) up to MaxLen samples, with the      *)
(* implementation in lock-step.                                            *)
(*                                                                         *)
(* TABLE_FILE row: code, then twelve length-prefixed index lists           *)
(*   for tol in <<0, 1, 3/2, 2>>:  zc(keep_adj_zeros=False), zc(True),     *)
(*                                switched peaks                           *)
(***************************************************************************)
EXTENDS Crossings, SequencesExt, IOUtils, TLC, VerdictLib, TableIO

CONSTANTS MaxLen, NL, NegLo, TwinLen
Lo == -NegLo

Tab == IntTable(IOEnv.TABLE_FILE)

VARIABLES xs, code, zF, zT
vars == <<xs, code, zF, zT>>

ISg(x) == IF x > 0 THEN 1 ELSE IF x < 0 THEN -1 ELSE 0
IAb(x) == IF x < 0 THEN -x ELSE x
ICmp(a, b) == IF b > a THEN 1 ELSE IF b < a THEN -1 ELSE 0

Init == xs = <<>> /\ code = 0 /\ zF = <<>> /\ zT = <<>>

Sample(k) ==
  LET x == Lo + k - 1  i == Len(xs)  sp == IF i = 0 THEN 0 ELSE ISg(xs[i])
  IN /\ Len(xs) < MaxLen
     /\ xs' = Append(xs, x)
     /\ code' = code * NL + k
     /\ zF' = IF ZcEmit(i, sp, ISg(x), FALSE) THEN Append(zF, i) ELSE zF
     /\ zT' = IF ZcEmit(i, sp, ISg(x), TRUE) THEN Append(zT, i) ELSE zT

Next == \E k \in 1..NL : Sample(k)
Spec == Init /\ [][Next]_vars

-----------------------------------------------------------------------------
n == Len(xs)
SwRun(out) ==
  SwEnd(FoldLeft(LAMBDA s, i : SwStep(s, xs[i + 1], i, out, ISg, IAb, ICmp), SwInit, [i \in 1..n |-> i - 1]),
        out, ICmp)
Decl(out) == SwDecl(xs, out, ISg, IAb, ICmp)

\* model properties
ZcTwin == n >= 1 => zF = SortedSeq(ZcSet(xs, FALSE, ISg)) /\ zT = SortedSeq(ZcSet(xs, TRUE, ISg))
ZcLaws == n >= 1 => Ascending(zF) /\ Ascending(zT) /\ zF[1] = 0 /\ IsSubseqOf(zF, zT)
\* acceptor = declarative relation, on EVERY candidate index set of short series
AcceptorIsDeclarative == (n >= 1 /\ n <= TwinLen) =>
  \A S \in SUBSET (0..(n - 1)) : LET out == SortedSeq(S) IN (SwRun(out) = {}) = Decl(out)
\* consequence stated by the property: the global absolute maximum is always included
GlobalMaxIncluded == (n >= 1 /\ n <= TwinLen) =>
  \A S \in SUBSET (0..(n - 1)) : LET out == SortedSeq(S) IN
     (Decl(out) /\ \E i \in 1..n : xs[i] # 0) =>
        \E k \in 1..Len(out) : \A i \in 1..n : IAb(xs[out[k] + 1]) >= IAb(xs[i])
\* the relation is satisfiable: every series has at least one valid answer
Satisfiable == (n >= 1 /\ n <= TwinLen) => \E S \in SUBSET (0..(n - 1)) : Decl(SortedSeq(S))

-----------------------------------------------------------------------------
Row == Tab[code]
RECURSIVE Off(_)
Off(k) == IF k = 1 THEN 1 ELSE Off(k - 1) + 1 + Row[Off(k - 1) + 1]
List(k) == [t \in 1..Row[Off(k) + 1] |-> Row[Off(k) + 1 + t]]

Conforms == n >= 1 =>
  LET zc0F == List(1)  zc0T == List(2)  sw0 == List(3)
      bad0 == SwRun(sw0)
  IN /\ Chk(Row[1] = code, code, "TableIndex")
     /\ Chk(zc0F = zF /\ zc0T = zT, code, "ZeroCrossings")
     /\ \A c \in {"SwitchedAscending", "OnePerExcursion", "AtExcursionMax", "ExtrasAreZeroTurningPoints", "NoSharedSign"} :
          Chk(c \notin bad0, code, c)
     /\ Chk((bad0 = {}) = Decl(sw0), code, "AcceptorDeclDisagree")
     /\ Chk(\A t \in {1, 2, 3} : IsSubseqOf(List(3 * t + 1), zc0F) /\ IsSubseqOf(List(3 * t + 2), zc0T), code, "TolSubsequenceZc")
     /\ Chk(\A t \in {1, 2, 3} : IsSubseqOf(List(3 * t + 3), sw0), code, "TolSubsequence")
=============================================================================

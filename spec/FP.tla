-------------------------------- MODULE FP --------------------------------
(***************************************************************************)
(* IEEE-754 binary64 carrier for TLC.                                      *)
(*                                                                         *)
(* A float is the tuple <<hi, lo>> of the two signed 32-bit halves of its  *)
(* bit pattern.  The operators below are PRIMITIVES: their bodies are      *)
(* never evaluated, TLC replaces them by the static methods of the Java    *)
(* class FP (java/FP.java, compiled by setup.sh, found on the classpath    *)
(* because the class is named like the module).  Without the class every   *)
(* primitive fails loudly (CHOOSE from the empty set).                     *)
(*                                                                         *)
(* Everything else in /verif/spec -- definitions, recurrences, tolerances, *)
(* properties -- is ordinary TLA+ built on these primitives.               *)
(***************************************************************************)
EXTENDS Integers, Sequences

LOCAL Undefined == CHOOSE x \in {} : TRUE

\* arithmetic (round-to-nearest-even; StrictMath for the transcendental ones)
FAdd(a, b)   == Undefined
FSub(a, b)   == Undefined
FMul(a, b)   == Undefined
FDiv(a, b)   == Undefined
FNeg(a)      == Undefined
FAbs(a)      == Undefined
FSqrt(a)     == Undefined
FExp(a)      == Undefined
FLog(a)      == Undefined
FLog10(a)    == Undefined
FSin(a)      == Undefined
FCos(a)      == Undefined
FTan(a)      == Undefined
FAtan2(a, b) == Undefined
FPow(a, b)   == Undefined
FHypot(a, b) == Undefined
FMin(a, b)   == Undefined
FMax(a, b)   == Undefined

\* comparisons (IEEE: -0 = +0, NaN compares false)
FLt(a, b)    == Undefined
FLe(a, b)    == Undefined
FEq(a, b)    == Undefined
FIsFinite(a) == Undefined
FIsNaN(a)    == Undefined
FSign(a)     == Undefined      \* -1, 0, 1  (Int)

\* conversions
FInt(i)      == Undefined      \* Int -> float
FRat(p, q)   == Undefined      \* float(p)/float(q)
FStr(s)      == Undefined      \* decimal literal "0.05" -> nearest float
FShow(a)     == Undefined      \* float -> STRING (diagnostics only)
FFloor(a)    == Undefined      \* float -> Int
FCeil(a)     == Undefined
FTrunc(a)    == Undefined      \* towards zero, Python's int(x)
FRound(a)    == Undefined      \* half to even
FNextUp(a)   == Undefined
FNextDown(a) == Undefined

---------------------------------------------------------------------------
\* derived, pure TLA+

FGt(a, b) == FLt(b, a)
FGe(a, b) == FLe(b, a)
FNe(a, b) == ~FEq(a, b)

Zero    == FInt(0)
One     == FInt(1)
Two     == FInt(2)
Half    == FRat(1, 2)
Quarter == FRat(1, 4)
Ten     == FInt(10)
Eps     == FStr("2.220446049250313e-16")      \* 2^-52
Pi      == FStr("3.141592653589793")
TwoPi   == FMul(Two, Pi)

FSq(a)  == FMul(a, a)
\* |x - y| <= tol
Close(x, y, tol) == FLe(FAbs(FSub(x, y)), tol)
\* |x - y| <= rel * scale + abs
CloseRel(x, y, rel, scale, abs) == FLe(FAbs(FSub(x, y)), FAdd(FMul(rel, scale), abs))
\* integer power by repeated multiplication (exact for small dyadic bases)
RECURSIVE FPowI(_, _)
FPowI(a, n) == IF n = 0 THEN One ELSE FMul(a, FPowI(a, n - 1))
=============================================================================

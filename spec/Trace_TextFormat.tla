--------------------------- MODULE Trace_TextFormat ---------------------------
(***************************************************************************)
(* Trace validation for C16 on arbitrary floats: one record per            *)
(* save/load round trip: dt, x[], loader, m, raised, npts2, dt2, y[],      *)
(* label_ok, class_ok.                                                     *)
(*   Npts     same number of points                                        *)
(*   Dt4      |dt2 - dt| <= 0.5e-4 (+ rounding)                            *)
(*   Values6  |y - m*x| <= |m| * (0.5e-6 + 4 eps |x|)                      *)
(***************************************************************************)
EXTENDS FP, FPSeq, Json, IOUtils, TLC, VerdictLib

Recs == ndJsonDeserialize(IOEnv.TRACE_FILE)
VARIABLES tid, l, bad
vars == <<tid, l, bad>>
R == Recs[tid]
Init == tid \in 1..Len(Recs) /\ l = 0 /\ bad = {}

Check ==
  IF R.raised THEN {"Raises"}
  ELSE LET n == Len(R.x)
           okv(j) == FLe(FAbs(FSub(R.y[j], FMul(R.m, R.x[j]))),
                         FMul(FAbs(R.m), FAdd(FStr("0.5000001e-6"), FMul(FMul(FInt(4), Eps), FAbs(R.x[j])))))
       IN Fails(R.npts2 = n /\ Len(R.y) = n, "Npts")
          \cup Fails(FLe(FAbs(FSub(R.dt2, R.dt)), FStr("0.5000001e-4")), "Dt4")
          \cup (IF Len(R.y) = n THEN Fails(\A j \in 1..n : okv(j), IF FEq(R.m, One) THEN "Values6" ELSE "Scale") ELSE {})
          \cup Fails(R.label_ok, "Label") \cup Fails(R.class_ok, "ReturnType")

Step == l = 0 /\ l' = 1 /\ tid' = tid /\ bad' = Check
Finish == l = 1 /\ l' = -1 /\ UNCHANGED <<tid, bad>>
Next == Step \/ Finish
Spec == Init /\ [][Next]_vars
Verdict == l = -1 => EmitVerdict(R.tid, bad, 1)
=============================================================================

------------------------------- MODULE Resample -------------------------------
(***************************************************************************)
(* C14 -- resampling to an approximate time step.                          *)
(*                                                                         *)
(* Step rule on integer "ticks" (dt = d ticks, target = t ticks):          *)
(*   d = t : keep;  d > t : refine by k = ceil(d/t) (new step d/k);        *)
(*   d < t : decimate by k = floor(t/d) (new step d*k).                    *)
(* Clauses on an observed result (floats): the returned step does not      *)
(* exceed the target, its ratio to dt is an integer or the reciprocal of   *)
(* one, originals are retained / the output is a subsequence, the range is *)
(* preserved, the covered duration changes by less than two (coarser)      *)
(* steps, the length is even when requested.                               *)
(***************************************************************************)
EXTENDS FP, FPSeq, Integers, Sequences

\* ---- the step rule on ticks -------------------------------------------------
CeilDiv(a, b) == (a + b - 1) \div b
Mode(d, t) == IF d = t THEN "keep" ELSE IF d > t THEN "refine" ELSE "decimate"
KOf(d, t) == IF d = t THEN 1 ELSE IF d > t THEN CeilDiv(d, t) ELSE t \div d
\* number of output samples for n input samples (before / after forcing evenness):
\* refine: k*n; decimate: ceil(n/k) (every k-th sample starting with the first)
Count(d, t, n, even) ==
  LET k == KOf(d, t)
      c == IF Mode(d, t) = "decimate" THEN CeilDiv(n, k) ELSE k * n
  IN IF even THEN 2 * (c \div 2) ELSE c
\* covered duration in units of tick/k (refine) or tick (decimate), compared without fractions
DurationOK(d, t, n, even) ==
  LET k == KOf(d, t)  c == Count(d, t, n, even)
  IN IF Mode(d, t) = "decimate"
     THEN LET dur2 == (c - 1) * d * k  dur1 == (n - 1) * d  df == IF dur2 > dur1 THEN dur2 - dur1 ELSE dur1 - dur2
          IN df < 2 * d * k
     ELSE LET dur2 == (c - 1) * d  dur1 == (n - 1) * d * k  df == IF dur2 > dur1 THEN dur2 - dur1 ELSE dur1 - dur2
          IN df < 2 * d * k              \* both in units of tick/k; two original steps = 2*d*k

\* ---- clauses on an observation ---------------------------------------------------
\* x: input, dt, target, even, ndt: returned step, y: returned values
Slack == FStr("1e-12")
Ratio(dt, ndt) == IF FGe(dt, ndt) THEN FDiv(dt, ndt) ELSE FDiv(ndt, dt)
KObs(dt, ndt) == FRound(Ratio(dt, ndt))
StepNotAboveTarget(target, ndt) == FLe(ndt, FMul(target, FAdd(One, Slack)))
IntegerRatio(dt, ndt) == LET k == KObs(dt, ndt) IN k >= 1 /\ Close(Ratio(dt, ndt), FInt(k), FMul(FStr("1e-9"), FInt(k)))
Refining(dt, ndt) == FLt(ndt, FMul(dt, FStr("0.75")))
Decimating(dt, ndt) == FGt(ndt, FMul(dt, FStr("1.5")))
OriginalsRetained(x, y, dt, ndt) ==
  LET k == KObs(dt, ndt) IN
  Refining(dt, ndt) => /\ Len(y) >= (Len(x) - 1) * k + 1 - k     \* at most the last original may be lost to the even rule
                       /\ \A j \in 0..(Len(x) - 1) : j * k + 1 <= Len(y) => FEq(y[j * k + 1], x[j + 1])
\* a subsequence has a STRICTLY increasing index map: output j is input sample j*k; at most the last output may be the
\* (clamped) last input sample, and only if that index is beyond the previous one (the float count len/k can exceed the
\* exact one by an ulp, e.g. 0.1*30 = 3.0000000000000004, which yields one clamped sample)
Subsequence(x, y, dt, ndt) ==
  LET k == KObs(dt, ndt)  tol == FMul(Slack, FAdd(FMaxAbs(x), FStr("1e-300")))
      idx(j) == IF j * k + 1 <= Len(x) THEN j * k + 1 ELSE Len(x)
  IN (~Refining(dt, ndt)) =>
       /\ \A j \in 0..(Len(y) - 1) : Close(y[j + 1], x[idx(j)], tol)
       /\ \A j \in 1..(Len(y) - 1) : idx(j) > idx(j - 1)
RangePreserved(x, y) == \A j \in 1..Len(y) : FLe(FMinSeq(x), y[j]) /\ FLe(y[j], FMaxSeq(x))
DurationWithinTwoSteps(x, y, dt, ndt) ==
  LET d1 == FMul(FInt(Len(x) - 1), dt)  d2 == FMul(FInt(Len(y) - 1), ndt)
  IN FLt(FAbs(FSub(d2, d1)), FMul(FMul(Two, FMax(dt, ndt)), FAdd(One, Slack)))
EvenLength(y, even) == even => Len(y) % 2 = 0
=============================================================================

------------------------------ MODULE Intensity ------------------------------
(***************************************************************************)
(* C09 -- cumulative intensity measures.                                   *)
(*                                                                         *)
(* One machine consumes the acceleration record one sample per step and    *)
(* carries the value of every cumulative series at the current sample:     *)
(*   ct2   cumulative trapezoid of a^2      (Arias = pi/(2g) * ct2)        *)
(*   cav   cumulative trapezoid of |a|                                     *)
(*   v     velocity (cumulative trapezoid of a)                            *)
(*   isv   cumulative trapezoid of v^2                                     *)
(*   ia    rectangle sum of |a|*dt  (first term |a_1|*dt)                  *)
(*   iv    rectangle sum of |v|*dt                                         *)
(*   uke   summed |change of v*|v|/2| (first change from 0)                *)
(* Standardised CAV (CavDp) is windowed: defined on the complete record.   *)
(***************************************************************************)
EXTENDS FP, FPSeq, Integers, Sequences, FiniteSets

G == FStr("9.81")
AriasC == FDiv(Pi, FMul(Two, G))
Trap(dt, y1, y0) == FMul(dt, FDiv(FAdd(y1, y0), Two))
KE(v) == FMul(Half, FMul(v, FAbs(v)))

ImStart(x, dt) == [n |-> 1, a |-> x, ct2 |-> Zero, cav |-> Zero, v |-> Zero, isv |-> Zero,
                   ia |-> FMul(FAbs(x), dt), iv |-> Zero, uke |-> Zero]
ImStep(s, x, dt) ==
  LET v2 == FAdd(s.v, Trap(dt, x, s.a))
  IN [n |-> s.n + 1, a |-> x,
      ct2 |-> FAdd(s.ct2, Trap(dt, FSq(x), FSq(s.a))),
      cav |-> FAdd(s.cav, Trap(dt, FAbs(x), FAbs(s.a))),
      v |-> v2,
      isv |-> FAdd(s.isv, Trap(dt, FSq(v2), FSq(s.v))),
      ia |-> FAdd(s.ia, FMul(FAbs(x), dt)),
      iv |-> FAdd(s.iv, FMul(FAbs(v2), dt)),
      uke |-> FAdd(s.uke, FAbs(FSub(KE(v2), KE(s.v))))]
ImFeed(s, x, dt) == IF s.n = 0 THEN ImStart(x, dt) ELSE ImStep(s, x, dt)
ImEmpty == [n |-> 0]
ImRun(xs, dt) == FoldLeft(LAMBDA s, x : ImFeed(s, x, dt), ImEmpty, xs)
Arias(s) == FMul(AriasC, s.ct2)
Measures == <<"arias", "cav", "isv", "ia", "iv", "uke">>
Val(s, m) == IF m = "arias" THEN Arias(s) ELSE s[m]
\* exponent of |alpha| by which a measure scales
ScaleExp == [arias |-> 2, cav |-> 1, isv |-> 2, ia |-> 1, iv |-> 1, uke |-> 2]
AccBased == {"arias", "cav", "ia"}

\* ---- standardised CAV -----------------------------------------------------------
\* pps samples per second; windows w = 0..W-1 cover samples w*pps+1 .. (w+1)*pps+1 (1-based, both ends),
\* W = whole seconds covered by the record.  A window qualifies iff max|a|/g >= 0.025.
\* Accepted value: between the windowed trapezoid integrals of |a|/g without and with each window's last panel.
Gate == FStr("0.025")
InG(xs) == [j \in 1..Len(xs) |-> FDiv(xs[j], G)]
WinTrap(y, dt, lo, hi) ==      \* trapezoid of |y| over samples lo..hi
  FoldLeft(LAMBDA acc, j : FAdd(acc, Trap(dt, FAbs(y[j + 1]), FAbs(y[j]))), Zero, [j \in 1..(hi - lo) |-> lo + j - 1])
Qualifies(y, lo, hi) == FGe(FMaxAbs(SubSeq(y, lo, hi)), Gate)
CavDpBounds(xs, dt, pps, W) ==
  LET y == InG(xs)
      wins == {w \in 0..(W - 1) : Qualifies(y, w * pps + 1, (w + 1) * pps + 1)}
      sum(short) == FoldLeft(LAMBDA acc, w : IF w \in wins
                               THEN FAdd(acc, WinTrap(y, dt, w * pps + 1, (w + 1) * pps + 1 - short)) ELSE acc,
                             Zero, [w \in 1..W |-> w - 1])
  IN [lo |-> sum(1), hi |-> sum(0), any |-> wins # {}]
=============================================================================

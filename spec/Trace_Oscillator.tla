--------------------------- MODULE Trace_Oscillator ---------------------------
(***************************************************************************)
(* Trace validation for C01 and C02.  Records (one per call and period):   *)
(*  kind "series": T, xi, dt, a[], u[], v[], acc[]  -- the exact flow is    *)
(*       advanced one sample per step and compared with the reported       *)
(*       displacement and velocity at the statement's tolerance; the third *)
(*       series is compared with -(2 xi w v + w^2 u) of the REPORTED u, v. *)
(*  kind "zero":   a[], u[], v[], acc[]  -- the row of a leading period 0   *)
(*  kind "rel":    law, tol, scale, x[], y[], (f, g, z[])                   *)
(*       "same":  y = x            (entry points, causality, shift, batch, *)
(*                                  permutation, refinement at originals)  *)
(*       "lin":   z = f x + g y    (linearity)                             *)
(*       "geq":   y >= x (1 - tol) (spectra do not decrease on refinement) *)
(*       all to |..| <= tol * scale                                        *)
(*  kind "refine": T, xi, dt, r, a[] (original record), u0[], v0[]          *)
(*       (response to a at step dt), ur[], vr[] (response to the record    *)
(*       refined r times at step dt/r, sampled at the original instants):  *)
(*       equal within the C01 tolerance of both computations               *)
(***************************************************************************)
EXTENDS Oscillator, Json, IOUtils, TLC, VerdictLib

Recs == ndJsonDeserialize(IOEnv.TRACE_FILE)
VARIABLES tid, l, y, fl, sc, bad
vars == <<tid, l, y, fl, sc, bad>>
R == Recs[tid]
N == IF R.kind = "series" THEN Len(R.a) ELSE 1

ShapeOK(r) == Len(r.u) = Len(r.a) /\ Len(r.v) = Len(r.a) /\ Len(r.acc) = Len(r.a)
Init == /\ tid \in 1..Len(Recs) /\ l = 0 /\ y = Y0
        /\ fl = IF Recs[tid].kind = "series" THEN Flow(Recs[tid].T, Recs[tid].xi, Recs[tid].dt) ELSE <<>>
        /\ sc = IF Recs[tid].kind = "series" /\ ShapeOK(Recs[tid])
                THEN LET r == Recs[tid]  w == FDiv(TwoPi, r.T)  am == FMaxAbs(r.a)  n == Len(r.a)
                     IN << AbsTol(r.T, r.dt, n, FMaxAbs(r.u), FDiv(am, FSq(w))),
                           AbsTol(r.T, r.dt, n, FMaxAbs(r.v), FDiv(am, w)) >>
                ELSE <<>>
        /\ bad = IF Recs[tid].kind \in {"series", "zero"} THEN Fails(ShapeOK(Recs[tid]), "Shape") ELSE {}

SeriesStep(i) ==
  LET y2 == IF i = 1 THEN Y0 ELSE Advance(fl, y, R.a[i - 1], R.a[i])
      okU == Close(R.u[i], Disp(fl, y2), sc[1])
      okV == Close(R.v[i], Velo(fl, y2), sc[2])
      \* third series against the reported u, v
      ref == FNeg(FAdd(FMul(FMul(FMul(Two, R.xi), fl.w), R.v[i]), FMul(FSq(fl.w), R.u[i])))
      okA == Close(R.acc[i], ref, AccTol(fl.w, R.xi, R.u[i], R.v[i]))
  IN /\ y' = y2
     /\ bad' = bad \cup Fails(okU, "DispExact") \cup Fails(okV, "VeloExact") \cup Fails(okA, "AccIdentity")

ZeroCheck ==
  Fails(\A i \in 1..Len(R.a) : FEq(R.u[i], Zero) /\ FEq(R.v[i], Zero) /\ FEq(R.acc[i], FNeg(R.a[i])), "ZeroPeriodRow")

RelCheck ==
  LET t == FMul(R.tol, R.scale)
      ok == IF R.law = "same" THEN Len(R.x) = Len(R.y) /\ \A j \in 1..Len(R.x) : Close(R.y[j], R.x[j], t)
            ELSE IF R.law = "lin"
            THEN Len(R.x) = Len(R.z) /\ Len(R.y) = Len(R.z)
                 /\ \A j \in 1..Len(R.z) : Close(R.z[j], FAdd(FMul(R.f, R.x[j]), FMul(R.g, R.y[j])), t)
            ELSE Len(R.x) = Len(R.y) /\ \A j \in 1..Len(R.x) : FGe(R.y[j], FSub(R.x[j], FMul(R.tol, FAbs(R.x[j]))))
  IN Fails(ok, R.clause)

RefineCheck ==
  LET n == Len(R.a)  w == FDiv(TwoPi, R.T)  am == FMaxAbs(R.a)
      nr == (n - 1) * R.r + 1  dtr == FDiv(R.dt, FInt(R.r))
      tu == FAdd(AbsTol(R.T, R.dt, n, FMaxAbs(R.u0), FDiv(am, FSq(w))), AbsTol(R.T, dtr, nr, FMaxAbs(R.u0), FDiv(am, FSq(w))))
      tv == FAdd(AbsTol(R.T, R.dt, n, FMaxAbs(R.v0), FDiv(am, w)), AbsTol(R.T, dtr, nr, FMaxAbs(R.v0), FDiv(am, w)))
  IN Fails(/\ Len(R.ur) = n /\ Len(R.vr) = n /\ Len(R.u0) = n /\ Len(R.v0) = n
           /\ \A j \in 1..n : Close(R.ur[j], R.u0[j], tu) /\ Close(R.vr[j], R.v0[j], tv), "RefineInvariant")

Step == /\ l >= 0 /\ l < N /\ "Shape" \notin bad /\ l' = l + 1 /\ UNCHANGED <<tid, fl, sc>>
        /\ IF R.kind = "series" THEN SeriesStep(l + 1)
           ELSE y' = y /\ bad' = bad \cup (IF R.kind = "zero" THEN ZeroCheck ELSE IF R.kind = "refine" THEN RefineCheck ELSE RelCheck)
Finish == (l = N \/ "Shape" \in bad) /\ l >= 0 /\ l' = -1 /\ UNCHANGED <<tid, y, fl, sc, bad>>
Next == Step \/ Finish
Spec == Init /\ [][Next]_vars
Verdict == l = -1 => EmitVerdict(R.tid, bad, N)
=============================================================================

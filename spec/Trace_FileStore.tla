--------------------------- MODULE Trace_FileStore ---------------------------
(***************************************************************************)
(* Trace validation of save / load SESSIONS on real files (code -> spec).  *)
(* One session per line: tid, events; the specification carries `files`    *)
(* (path -> the record, time step and label last saved there), so a load   *)
(* is judged against what the path holds now.  Events:                     *)
(*   save     : p, x[], dt           (label handled by the driver)         *)
(*   load     : p, m, raised, npts2, dt2, y[], label_ok, class_ok          *)
(*   scribble : (the caller overwrote the array it was handed; no effect   *)
(*              on any file)                                               *)
(* Clauses as in Trace_TextFormat: Raises, Npts, Dt4, Values6 / Scale,     *)
(* Label, ReturnType; NothingSaved if a load is logged for an empty path.  *)
(***************************************************************************)
EXTENDS FP, FPSeq, Json, IOUtils, TLC, VerdictLib

Recs == ndJsonDeserialize(IOEnv.TRACE_FILE)
VARIABLES tid, l, files, bad
vars == <<tid, l, files, bad>>
R == Recs[tid]
N == Len(R.events)
NoFile == [x |-> <<>>, dt |-> Zero, set |-> FALSE]
Init == tid \in 1..Len(Recs) /\ l = 0 /\ files = [p \in 1..R.npaths |-> NoFile] /\ bad = {}

LoadClauses(e, f) ==
  IF ~f.set THEN {"NothingSaved"}
  ELSE IF e.raised THEN {"Raises"}
  ELSE LET n == Len(f.x)
           okv(j) == FLe(FAbs(FSub(e.y[j], FMul(e.m, f.x[j]))),
                         FMul(FAbs(e.m), FAdd(FStr("0.5000001e-6"), FMul(FMul(FInt(4), Eps), FAbs(f.x[j])))))
       IN Fails(e.npts2 = n /\ Len(e.y) = n, "Npts")
          \cup Fails(FLe(FAbs(FSub(e.dt2, f.dt)), FStr("0.5000001e-4")), "Dt4")
          \cup (IF Len(e.y) = n THEN Fails(\A j \in 1..n : okv(j), IF FEq(e.m, One) THEN "Values6" ELSE "Scale") ELSE {})
          \cup Fails(e.label_ok, "Label") \cup Fails(e.class_ok, "ReturnType")

Step ==
  /\ l >= 0 /\ l < N /\ l' = l + 1 /\ tid' = tid
  /\ LET e == R.events[l + 1] IN
     CASE e.op = "save" -> files' = [files EXCEPT ![e.p] = [x |-> e.x, dt |-> e.dt, set |-> TRUE]] /\ bad' = bad
       [] e.op = "load" -> files' = files /\ bad' = bad \cup LoadClauses(e, files[e.p])
       [] e.op = "scribble" -> files' = files /\ bad' = bad
       [] OTHER -> files' = files /\ bad' = bad \cup {"UnknownOp"}
Finish == l = N /\ l' = -1 /\ UNCHANGED <<tid, files, bad>>
Next == Step \/ Finish
Spec == Init /\ [][Next]_vars
Verdict == l = -1 => EmitVerdict(R.tid, bad, N)
=============================================================================

--------------------------- MODULE Trace_Intensity ---------------------------
(***************************************************************************)
(* Trace validation for C09.  Records:                                     *)
(*  kind "series": dt, a[], and the six reported series arias[], cav[],    *)
(*       isv[], ia[], iv[], uke[] -- the Intensity machine consumes one    *)
(*       sample per step; every reported value is compared with the        *)
(*       machine (1e-10 relative) and with its predecessor (monotone).     *)
(*  kind "cavdp": dt, pps, W, a[], dp[], cav_final                         *)
(*  kind "rel": law in {"same", "ratio"}, x[], y[], f[]: y = f * x         *)
(***************************************************************************)
EXTENDS Intensity, Json, IOUtils, TLC, VerdictLib

Recs == ndJsonDeserialize(IOEnv.TRACE_FILE)
VARIABLES tid, l, st, bad
vars == <<tid, l, st, bad>>
R == Recs[tid]
N == IF R.kind = "series" THEN Len(R.a) ELSE 1
MS == {Measures[i] : i \in 1..Len(Measures)}

Init == /\ tid \in 1..Len(Recs) /\ l = 0 /\ st = ImEmpty
        /\ bad = IF Recs[tid].kind = "series"
                 THEN Fails(\A q \in MS : Len(Recs[tid][q]) = Len(Recs[tid].a), "Length") ELSE {}

Rel == FStr("1e-10")
SeriesStep(i) ==
  LET s2 == ImFeed(st, R.a[i], R.dt)
      near(q) == CloseRel(R[q][i], Val(s2, q), Rel, FAbs(Val(s2, q)), FStr("1e-300"))
      \* "is non-decreasing": exact (every series is a running sum of non-negative increments, possibly times a positive constant)
      mono(q) == i = 1 \/ FLe(R[q][i - 1], R[q][i])
  IN /\ st' = s2
     /\ bad' = bad \cup UNION {Fails(near(q), "FinalValue_" \o q) : q \in MS}
                   \cup Fails(\A q \in MS : mono(q) /\ FLe(Zero, R[q][i]), "Monotone")

CavDpCheck ==
  LET n == Len(R.a)  b == CavDpBounds(R.a, R.dt, R.pps, R.W)
      tol == FMul(FStr("1e-10"), FAdd(b.hi, FStr("1e-300")))
  IN IF Len(R.dp) # n THEN {"Length"}
     ELSE Fails(\A t \in 1..(n - 1) : FLe(R.dp[t], FAdd(R.dp[t + 1], tol)), "Monotone")
          \cup Fails(FLe(FSub(b.lo, tol), R.dp[n]) /\ FLe(R.dp[n], FAdd(b.hi, tol)), "CavDpWindows")
          \cup Fails(FLe(Zero, R.dp[1]) /\ FLe(R.dp[n], FAdd(FDiv(R.cav_final, G), tol)), "CavDpRange")
          \cup Fails(b.any \/ \A t \in 1..n : FEq(R.dp[t], Zero), "CavDpGateZero")

RelCheck ==
  Fails(\A j \in 1..Len(R.x) :
          IF R.law = "same" THEN FEq(R.x[j], R.y[j])
          ELSE CloseRel(R.y[j], FMul(R.f[j], R.x[j]), Rel, FAbs(R.y[j]), FStr("1e-300")), R.clause)

Step == /\ l >= 0 /\ l < N /\ "Length" \notin bad /\ l' = l + 1 /\ tid' = tid
        /\ IF R.kind = "series" THEN SeriesStep(l + 1)
           ELSE st' = st /\ bad' = bad \cup (IF R.kind = "cavdp" THEN CavDpCheck ELSE RelCheck)
Finish == (l = N \/ "Length" \in bad) /\ l >= 0 /\ l' = -1 /\ UNCHANGED <<tid, st, bad>>
Next == Step \/ Finish
Spec == Init /\ [][Next]_vars
Verdict == l = -1 => EmitVerdict(R.tid, bad, N)
=============================================================================

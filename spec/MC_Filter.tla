------------------------------ MODULE MC_Filter ------------------------------
(***************************************************************************)
(* Exhaustive instance: every series over the integers -2..2 of length     *)
(* 3..MaxLen (float, integer and list containers alternate).               *)
(* TABLE row: code, n, then                                                *)
(*   7*n floats  running_average(width = 1..7)                             *)
(*   for degree 0..2:  n floats remove_poly(d) (object), n floats applied  *)
(*   a second time, n floats after first adding 1 + 2t - 3t^2 (truncated   *)
(*   to the degree), n floats array-level fns.generic.remove_poly          *)
(* and the gain formula's sanity (in [0,1], 1/2 at the cut-offs, monotone  *)
(* in the transition bands) for orders 1..4 at the initial state.          *)
(***************************************************************************)
EXTENDS Filter, IOUtils, TLC, VerdictLib, TableIO

CONSTANTS MaxLen
NL == 5
Tab == IntTable(IOEnv.TABLE_FILE)
VARIABLES xs, code
vars == <<xs, code>>
Init == xs = <<>> /\ code = 0
Sample(k) == Len(xs) < MaxLen /\ xs' = Append(xs, FInt(k - 3)) /\ code' = code * NL + k
Next == \E k \in 1..NL : Sample(k)
Spec == Init /\ [][Next]_vars

n == Len(xs)
Dt == FStr("0.01")
Grid == [i \in 1..40 |-> FMul(FInt(i), FStr("1.2"))]            \* 1.2 .. 48 Hz (Nyquist 50)
GainLaws == n = 0 => \A N \in 1..4 :
  /\ \A i \in 1..40 : \A ft \in {"low", "high", "band"} :
        LET g == Gain2(ft, N, FInt(2), FInt(15), Grid[i], Dt) IN FLe(Zero, g) /\ FLe(g, One)
  /\ Close(Gain2("low", N, Zero, FInt(15), FInt(15), Dt), Half, FStr("1e-12"))
  /\ Close(Gain2("high", N, FInt(2), Zero, FInt(2), Dt), Half, FStr("1e-12"))
  /\ Close(Gain2("band", N, FInt(2), FInt(15), FInt(2), Dt), Half, FStr("1e-12"))
  /\ Close(Gain2("band", N, FInt(2), FInt(15), FInt(15), Dt), Half, FStr("1e-12"))
  /\ \A i \in 1..39 : FGe(Gain2("low", N, Zero, FInt(15), Grid[i], Dt), Gain2("low", N, Zero, FInt(15), Grid[i + 1], Dt))
  /\ \A i \in 1..39 : FLe(Gain2("high", N, FInt(2), Zero, Grid[i], Dt), Gain2("high", N, FInt(2), Zero, Grid[i + 1], Dt))

Row == Tab[code]
F(k) == FloatAt(Row, 2, k)
Blk(off) == [j \in 1..n |-> F(off + j)]
Tol == FStr("1e-9")
Sc == FAdd(FMaxAbs(xs), One)
SeqNear(a, b) == \A j \in 1..n : Close(a[j], b[j], FMul(Tol, Sc))
DOff(d) == 7 * n + d * 4 * n
Conforms == n >= 3 =>
  /\ Chk(Row[1] = code /\ Row[2] = n /\ Len(Row) = 2 + 2 * (7 * n + 12 * n), code, "TableIndex")
  /\ Chk(\A w \in 1..7 : SeqNear(Blk((w - 1) * n), RunAv(xs, w)), code, "RunningAverage")
  /\ \A d \in 0..2 :
       LET y == Blk(DOff(d))  y2 == Blk(DOff(d) + n)  yp == Blk(DOff(d) + 2 * n)  ya == Blk(DOff(d) + 3 * n)
           diff == [j \in 1..n |-> FSub(xs[j], y[j])]
       IN /\ Chk(n <= d + 1 \/ (LET dd == Diff(diff, d + 1) IN \A j \in 1..(n - d - 1) : Close(dd[j], Zero, FMul(Tol, Sc))), code, "DetrendIsPoly")
          /\ Chk(\A p \in 0..d : Close(Moment(y, p), Zero, FMul(FMul(Tol, Sc), FInt(n))), code, "DetrendOrthogonal")
          /\ Chk(SeqNear(y2, y), code, "DetrendIdempotent")
          /\ Chk(SeqNear(yp, y), code, "DetrendPolyInvariant")
          /\ Chk(SeqNear(ya, y), code, "DetrendArrayLevel")
=============================================================================

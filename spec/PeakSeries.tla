------------------------------ MODULE PeakSeries ------------------------------
(***************************************************************************)
(* C13 -- peak-only series conserve total variation; power-law equivalent  *)
(* cycle measures are mutually inverse.                                    *)
(*                                                                         *)
(* The statement does not fix the series element by element, it states     *)
(* conservation laws; the specification is therefore a set of clauses over *)
(* a candidate output, evaluated against quantities a one-pass machine     *)
(* accumulates from the input (total variation, first and last value,      *)
(* direction of the final movement, the C11 peak set).                     *)
(* The power-law measures are stated over the switched peaks THE           *)
(* IMPLEMENTATION REPORTS (sw), so C13 does not inherit C12.               *)
(***************************************************************************)
EXTENDS FP, FPSeq, Peaks

\* ---- conservation laws ------------------------------------------------------
TV(xs) == FSum([j \in 1..(Len(xs) - 1) |-> FAbs(FSub(xs[j + 1], xs[j]))])
\* direction of the final strict movement: +1, -1 (0 for a constant series)
FinalDir(xs, Sgn(_, _)) ==
  LET S == {j \in 1..(Len(xs) - 1) : Sgn(xs[j], xs[j + 1]) # 0}
  IN IF S = {} THEN 0 ELSE LET j == CHOOSE m \in S : \A k \in S : k <= m IN Sgn(xs[j], xs[j + 1])
Support(d) == {i \in 0..(Len(d) - 1) : ~FEq(d[i + 1], Zero)}

DeltaSupport(xs, d, Sgn(_, _)) == Len(d) = Len(xs) /\ Support(d) \subseteq ReportedSet(xs, Sgn)
DeltaAbsSumIsTV(xs, d, tol) == Close(FSumAbs(d), TV(xs), tol)
DeltaSignedSum(xs, d, tol) == Close(FAbs(FSum(d)), FAbs(FSub(xs[Len(xs)], xs[1])), tol)
PseudoCyclicSum(xs, p, tol, Sgn(_, _)) ==
  /\ Len(p) = Len(xs)
  /\ Close(FSum(p), FAdd(FDiv(TV(xs), Two),
                         FMul(FInt(FinalDir(xs, Sgn)), FDiv(FSub(xs[Len(xs)], xs[1]), Two))), tol)

\* ---- power law ------------------------------------------------------------------
PeakAbs(xs, sw) == [k \in 1..Len(sw) |-> FAbs(xs[sw[k] + 1])]
Kept(xs, sw, cut) ==        \* peaks below cut * max|x| do not count: they are replaced by 1e-14 * max|x| in the cycle count
  LET lim == FMul(cut, FMaxAbs(xs)) IN     \* (relative to the record, so that record and a_ref may scale together)
  [k \in 1..Len(sw) |-> IF FLt(PeakAbs(xs, sw)[k], lim) THEN FMul(FStr("1.0e-14"), FMaxAbs(xs)) ELSE PeakAbs(xs, sw)[k]]
PowSum(ps, invb) == FSum([k \in 1..Len(ps) |-> FPow(ps[k], invb)])
\* equivalent number of cycles of amplitude aref (final value)
NCycFinal(xs, sw, aref, b, cut) ==
  LET invb == FDiv(One, b) IN
  FSum([k \in 1..Len(sw) |-> FMul(Half, FPow(FDiv(Kept(xs, sw, cut)[k], aref), invb))])
\* equivalent uniform amplitude for ncyc cycles (final value)
AmpFinal(xs, sw, ncyc, b) ==
  FPow(FDiv(PowSum(PeakAbs(xs, sw), FDiv(One, b)), FMul(Two, ncyc)), b)
\* the inverse law: amplitude for N = NCycFinal(aref) is aref * (sum over all / sum over kept)^b
InverseTarget(xs, sw, aref, b, cut) ==
  LET invb == FDiv(One, b) IN
  FMul(aref, FPow(FDiv(PowSum(PeakAbs(xs, sw), invb), PowSum(Kept(xs, sw, cut), invb)), b))
NonDecreasing(s, slack) == \A j \in 1..(Len(s) - 1) : FLe(s[j], FAdd(s[j + 1], slack))
=============================================================================

------------------------------ MODULE FileStore ------------------------------
(***************************************************************************)
(* C16 over HISTORIES: the files a program saves signals to and loads them *)
(* from, as a state machine (growth of the specification: DESIGN 8.8).     *)
(* TextFormat.tla fixes what ONE save / load round trip preserves; here    *)
(* the state is what every path currently holds, and a load must return    *)
(* the content of the file AS IT IS NOW -- whatever was saved to the same  *)
(* or other paths before, whatever was loaded before, and whatever the     *)
(* caller did to the arrays it was handed.                                 *)
(*                                                                         *)
(*   files   path -> content id (0: nothing saved there yet)               *)
(*   held    what the caller holds from the last load: <<path, content>>,  *)
(*           <<0, 0>> if nothing, <<-1, -1>> once it was overwritten       *)
(*                                                                         *)
(*   Save(p, c)   loader.save_signal / save_values_and_dt to path p        *)
(*   Load(p)      any of the ten loader entry points                       *)
(*   Scribble     the caller overwrites in place the array it was handed   *)
(*                                                                         *)
(* With Emit every transition is printed; -simulate behaviours are         *)
(* replayed on real files by harness/filestore.py.  Sessions on arbitrary  *)
(* float records are validated by Trace_FileStore, which carries `files`   *)
(* with the records themselves.                                            *)
(***************************************************************************)
EXTENDS Integers, Sequences, TLC

CONSTANTS NPaths, NContents, Emit

VARIABLES files, held
vars == <<files, held>>

Paths == 1..NPaths
Contents == 1..NContents
Init == files = [p \in Paths |-> 0] /\ held = <<0, 0>>

Enc == <<files, held>>
Out(op, a, b, f2, h2) == Emit => PrintT(<<"F", TLCGet("level"), op, a, b, [p \in Paths |-> f2[p]], h2>>)

Save(p, c) == /\ files' = [files EXCEPT ![p] = c] /\ held' = held
              /\ Out("save", p, c, files', held')
Load(p) == /\ files[p] # 0 /\ files' = files /\ held' = <<p, files[p]>>
           /\ Out("load", p, files[p], files', held')
Scribble == /\ held[1] > 0 /\ files' = files /\ held' = <<-1, -1>>
            /\ Out("scribble", 0, 0, files', held')

Next == (\E p \in Paths, c \in Contents : Save(p, c)) \/ (\E p \in Paths : Load(p)) \/ Scribble
Spec == Init /\ [][Next]_vars

\* what a load hands out is the content the path holds at that moment; nothing but Save changes a file
LoadReturnsFile == [][(held' # held /\ held'[1] > 0) => held'[2] = files[held'[1]]]_vars
OnlySaveWrites == [][(\E p \in Paths : files'[p] # files[p]) => (\E p \in Paths, c \in Contents : files' = [files EXCEPT ![p] = c])]_vars
TypeOK == files \in [Paths -> 0..NContents]
=============================================================================

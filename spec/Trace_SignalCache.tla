-------------------------- MODULE Trace_SignalCache --------------------------
(***************************************************************************)
(* Trace validation for C04.  TRACE_FILE: one recorded session per line:   *)
(*   tid, kind, events = << [op, pi] >>                                    *)
(* where pi is the projection of the REAL object after the call: for each  *)
(* memoised quantity (in QOrder) 0 = memo bit off, 1 = flagged and equal   *)
(* to what a fresh object reports, 2 = flagged and stale, -1 = flag not    *)
(* observable.  Each event must be the model's action for that operation   *)
(* (IsEvent /\ After), and the logged observation is compared with the     *)
(* model state it leads to:                                                *)
(*   NoStale_q   the real object reports an outdated q      (violation)    *)
(*   Diverge_q   memo bit differs from the model, nothing stale (note)     *)
(***************************************************************************)
EXTENDS SignalCache, Json, IOUtils, VerdictLib

Recs == ndJsonDeserialize(IOEnv.TRACE_FILE)

VARIABLES tid, l, bad
tvars == <<flag, store, tid, l, bad>>

R == Recs[tid]
N == Len(R.events)

TInit == /\ tid \in {t \in 1..Len(Recs) : Recs[t].kind = Kind}
         /\ l = 0 /\ bad = {} /\ Init

TStep ==
  /\ l >= 0 /\ l < N
  /\ LET e == R.events[l + 1]
         known == e.op \in Ops
         s2 == IF known THEN After(St, e.op) ELSE St
         cl(k) == LET q == QOrder[k]  p == e.pi[k]  m == Code(s2, q)
                  IN IF p = 2 THEN {"NoStale_" \o q}
                     ELSE IF p # -1 /\ p # m THEN {"Diverge_" \o q} ELSE {}
     IN /\ flag' = s2.flag /\ store' = s2.store
        /\ l' = l + 1 /\ tid' = tid
        /\ bad' = bad \cup UNION {cl(k) : k \in 1..Len(QOrder)}
                      \cup Fails(known, "UnknownOp")
                      \cup Fails(Len(e.pi) = Len(QOrder), "Shape")
                      \cup (IF "stale_uncached" \in DOMAIN e /\ Len(e.stale_uncached) > 0 THEN {"NoStale_uncached"} ELSE {})

TFinish == l = N /\ l' = -1 /\ UNCHANGED <<flag, store, tid, bad>>

TNext == TStep \/ TFinish
TSpec == TInit /\ [][TNext]_tvars
Verdict == l = -1 => EmitVerdict(R.tid, bad, N)
\* the model's own invariant along every recorded session
ModelNoStale == NoStale
=============================================================================

SPECIFICATION Spec
INVARIANT Verdict
CHECK_DEADLOCK FALSE

---------------------------- MODULE Trace_Resample ----------------------------
(***************************************************************************)
(* Trace validation for C14 on random records and (dt, target) pairs.      *)
(*  kind "interp":  dt, target, even, x[], raised, ndt, y[], ondt, objsame *)
(*  kind "fourier": dt, target, even, n, raised, ndt, y[], and the signal  *)
(*        as a trigonometric polynomial periodic over the record:          *)
(*        c0, ks[], as[], bs[]  (x(t) = c0 + sum a cos(2 pi k t/(n dt))    *)
(*        + b sin(...)), all k below the new Nyquist frequency.            *)
(*        Exactness is asserted where it is well defined: the returned     *)
(*        grid covers the same period (len(y)*ndt = n*dt).                 *)
(***************************************************************************)
EXTENDS Resample, Json, IOUtils, TLC, VerdictLib

Recs == ndJsonDeserialize(IOEnv.TRACE_FILE)
VARIABLES tid, l, bad
vars == <<tid, l, bad>>
R == Recs[tid]
Init == tid \in 1..Len(Recs) /\ l = 0 /\ bad = {}

InterpCheck ==
  IF R.raised THEN {"Raises"}
  ELSE IF Len(R.y) < 1 THEN {"Length"}
  ELSE Fails(StepNotAboveTarget(R.target, R.ndt), "StepNotAboveTarget")
       \cup Fails(IntegerRatio(R.dt, R.ndt), "IntegerRatio")
       \cup Fails(OriginalsRetained(R.x, R.y, R.dt, R.ndt), "OriginalsRetained")
       \cup Fails(Subsequence(R.x, R.y, R.dt, R.ndt), "Subsequence")
       \cup Fails(RangePreserved(R.x, R.y), "RangePreserved")
       \cup Fails(DurationWithinTwoSteps(R.x, R.y, R.dt, R.ndt), "DurationWithinTwoSteps")
       \cup Fails(EvenLength(R.y, R.even), "EvenLength")
       \cup Fails(R.objsame /\ FEq(R.ondt, R.ndt), "ObjArrayAgree")

Poly(tt) ==
  LET w == FDiv(TwoPi, FMul(FInt(R.n), R.dt))
  IN FoldLeft(LAMBDA acc, i : FAdd(acc, FAdd(FMul(R.as[i], FCos(FMul(FMul(w, FInt(R.ks[i])), tt))),
                                            FMul(R.bs[i], FSin(FMul(FMul(w, FInt(R.ks[i])), tt))))),
              R.c0, [i \in 1..Len(R.ks) |-> i])
FourierCheck ==
  IF R.raised THEN {"Raises"}
  ELSE LET m == Len(R.y)
           samePeriod == m >= 1 /\ Close(FMul(FInt(m), R.ndt), FMul(FInt(R.n), R.dt), FMul(FStr("1e-9"), FMul(FInt(R.n), R.dt)))
           amp == FAdd(FAbs(R.c0), FAdd(FSumAbs(R.as), FSumAbs(R.bs)))
       IN Fails(StepNotAboveTarget(R.target, R.ndt) /\ IntegerRatio(R.dt, R.ndt), "FourierStepRule")
          \cup Fails(EvenLength(R.y, R.even), "EvenLength")
          \cup (IF samePeriod
                THEN Fails(\A j \in 1..m : Close(R.y[j], Poly(FMul(FInt(j - 1), R.ndt)), FMul(FStr("1e-9"), FAdd(amp, FStr("1e-300")))), "FourierExact")
                ELSE \* the returned record covers another span than the input: a periodic signal cannot be reproduced at the labelled
                     \* instants.  That is admissible only if the count had to be trimmed: when the record is a whole number of new
                     \* steps long, the whole period must be covered
                     LET q == FDiv(FMul(FInt(R.n), R.dt), R.ndt)
                         whole == Close(q, FInt(FRound(q)), FStr("1e-9")) /\ ~FLt(R.ndt, Zero) /\ FGt(R.ndt, Zero)
                     \* (an even count is requested and the whole-period count is odd: one sample has to go; if it is even already,
                     \* nothing forces trimming and the whole period must be covered as well)
                     IN Fails(~whole \/ (R.even /\ FRound(q) % 2 = 1), "FourierExact"))

Step == l = 0 /\ l' = 1 /\ tid' = tid /\ bad' = (IF R.kind = "interp" THEN InterpCheck ELSE FourierCheck)
Finish == l = 1 /\ l' = -1 /\ UNCHANGED <<tid, bad>>
Next == Step \/ Finish
Spec == Init /\ [][Next]_vars
Verdict == l = -1 => EmitVerdict(R.tid, bad, 1)
=============================================================================

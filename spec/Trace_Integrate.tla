--------------------------- MODULE Trace_Integrate ---------------------------
(***************************************************************************)
(* Trace validation for C08.  TRACE_FILE is ndjson, one recorded execution *)
(* of the real code per line (floats as <<hi, lo>>):                       *)
(*                                                                         *)
(*  kind = "series": dt, trap, a[], v[], d[], pga, pgv, pgd                *)
(*     (array-level function or AccSignal properties; fn says which)       *)
(*  kind = "linear": dt, alpha, beta, a[], b[], va[], vb[], vc[], da[],    *)
(*     db[], dc[], pa, pb(=peak of alpha*a series), with c = alpha*a+beta*b*)
(*                                                                         *)
(* Each record is an independent chain (tid); one sample is consumed per   *)
(* step; the set of failed clauses is accumulated in `bad`; at the end of  *)
(* the chain exactly one VERDICT line is printed.  Shape errors are        *)
(* clauses too and are evaluated before anything is indexed.               *)
(***************************************************************************)
EXTENDS Integrate, Json, IOUtils, TLC, VerdictLib

Recs == ndJsonDeserialize(IOEnv.TRACE_FILE)

VARIABLES tid, l, bad, pk, sides
vars == <<tid, l, bad, pk, sides>>

R == Recs[tid]
N == Len(R.a)

ShapeOK(r) ==
  IF r.kind = "series" THEN Len(r.v) = Len(r.a) /\ Len(r.d) = Len(r.a)
  ELSE /\ Len(r.b) = Len(r.a)
       /\ \A f \in {"va", "vb", "vc", "da", "db", "dc"} : Len(r[f]) = Len(r.a)

Init == /\ tid \in 1..Len(Recs)
        /\ l = 0
        /\ bad = IF ShapeOK(Recs[tid]) THEN {} ELSE {"Length"}
        /\ pk = <<Zero, Zero, Zero>>
        /\ sides = <<{"L", "R"}, {"L", "R"}>>

\* --- one sample of a "series" record ---------------------------------------
SeriesStep(r, i) ==
  LET a == r.a  v == r.v  d == r.d  dt == r.dt
      first == i = 1
      incV == IF first THEN Zero ELSE TrapInc(dt, a[i], a[i - 1])
      incD == IF first THEN Zero ELSE TrapInc(dt, v[i], v[i - 1])
      okV == IF first THEN FEq(v[1], Zero) ELSE IncOK(v[i], v[i - 1], incV)
      okD == IF first THEN FEq(d[1], Zero) ELSE IncOK(d[i], d[i - 1], incD)
      \* rectangle rule: sides still consistent with every increment so far
      sv == IF first THEN sides[1]
            ELSE {s \in sides[1] : IncOK(v[i], v[i - 1], RectInc(dt, a[i - 1], a[i], s))}
      sd == IF first THEN sides[2]
            ELSE {s \in sides[2] : IncOK(d[i], d[i - 1], RectInc(dt, v[i - 1], v[i], s))}
      newbad ==
        IF r.trap
        THEN (IF first /\ ~(okV /\ okD) THEN {"StartZero"} ELSE {})
             \cup (IF ~first /\ ~okV THEN {"VeloIncrement"} ELSE {})
             \cup (IF ~first /\ ~okD THEN {"DispIncrement"} ELSE {})
        ELSE (IF first /\ ~(okV /\ okD) THEN {"StartZero"} ELSE {})
             \cup (IF sv = {} \/ sd = {} THEN {"RectIncrement"} ELSE {})
  IN /\ bad' = bad \cup newbad
     /\ pk' = <<FMax(pk[1], FAbs(a[i])), FMax(pk[2], FAbs(v[i])), FMax(pk[3], FAbs(d[i]))>>
     /\ sides' = IF r.trap THEN sides ELSE <<IF sv = {} THEN {"L", "R"} ELSE sv, IF sd = {} THEN {"L", "R"} ELSE sd>>

SeriesEnd(r) ==
  IF r.haspeaks
  THEN (IF FEq(r.pga, pk[1]) /\ FEq(r.pgv, pk[2]) /\ FEq(r.pgd, pk[3]) THEN {} ELSE {"PeakIsMaxAbs"})
  ELSE {}

\* --- one sample of a "linear" record: out(alpha a + beta b) = alpha out(a) + beta out(b) -----
\* Rounding budget (computed here, not taken from the trace): v_i is a sum of i terms bounded by
\* dt*|a_k|, so the three float evaluations differ by at most a few i*eps*dt*(|alpha| S_a + |beta| S_b)
\* with S = running sum of |samples| (kept in pk[1], pk[2]); d_i integrates v once more over i*dt.
LinearStep(r, i) ==
  LET sa == FAdd(pk[1], FAbs(r.a[i]))  sb == FAdd(pk[2], FAbs(r.b[i]))
      budV == FMul(FMul(FMul(FInt(8 * i), Eps), r.dt), FAdd(FMul(FAbs(r.alpha), sa), FMul(FAbs(r.beta), sb)))
      budD == FMul(FMul(FInt(2 * i), r.dt), budV)
      okV == Close(r.vc[i], FAdd(FMul(r.alpha, r.va[i]), FMul(r.beta, r.vb[i])), budV)
      okD == Close(r.dc[i], FAdd(FMul(r.alpha, r.da[i]), FMul(r.beta, r.db[i])), budD)
  IN /\ bad' = bad \cup (IF okV /\ okD THEN {} ELSE {"Linear"})
     /\ pk' = <<sa, sb, pk[3]>> /\ sides' = sides

\* peaks of the scaled record alpha*a: |alpha| * peak(a); of -a: peak(a) (negation is exact).
\* Same rounding budget as LinearStep with beta = 0 (pk[1] = sum |a_k| at the end of the chain).
LinearEnd(r) ==
  LET bv == FMul(FMul(FMul(FInt(8 * N), Eps), r.dt), FMul(FAbs(r.alpha), pk[1]))
      bd == FMul(FMul(FInt(2 * N), r.dt), bv)
      tol == << FMul(FMul(Two, Eps), FMul(FAbs(r.alpha), r.pk_a[1])), bv, bd >>
  IN Fails(\A q \in 1..3 : Close(r.pk_sa[q], FMul(FAbs(r.alpha), r.pk_a[q]), tol[q]), "PeakHomogeneous")
     \cup Fails(\A q \in 1..3 : FEq(r.pk_na[q], r.pk_a[q]), "PeakSignInvariant")

Step == /\ l >= 0 /\ l < N /\ "Length" \notin bad
        /\ l' = l + 1 /\ tid' = tid
        /\ IF R.kind = "series" THEN SeriesStep(R, l + 1) ELSE LinearStep(R, l + 1)

Finish == /\ (l = N \/ "Length" \in bad) /\ l >= 0
          /\ l' = -1 /\ tid' = tid /\ pk' = pk /\ sides' = sides
          /\ bad' = IF "Length" \in bad THEN bad
                    ELSE bad \cup (IF R.kind = "series" THEN SeriesEnd(R) ELSE LinearEnd(R))

Next == Step \/ Finish
Spec == Init /\ [][Next]_vars

Verdict == l = -1 => EmitVerdict(R.tid, bad, N)
=============================================================================

------------------------------ MODULE ClusterObj ------------------------------
(***************************************************************************)
(* The cluster OBJECT as a state machine (growth of the specification      *)
(* beyond the fixed time_match -> same_start behaviour of MC_Cluster:      *)
(* DESIGN.md section 8.8).  Where Cluster.tla defines the two alignment    *)
(* operations as pure operators, ClusterObj carries the state a            *)
(* eqsig.Cluster holds and lets TLC interleave every public way of         *)
(* changing it:                                                            *)
(*                                                                         *)
(*   sigs    <<record_1, .., record_k>>   the records of the k components  *)
(*   master  1..k                          the component the others follow *)
(*                                                                         *)
(*   SetMaster(m)       cluster.master_index = m-1                         *)
(*   TimeMatch(st)      cluster.time_match(steps=st)   -- one successor    *)
(*                      per combination of best lags (the property does    *)
(*                      not say which of several minimisers is removed)    *)
(*   SameStart(s, e)    cluster.same_start(start=s dt, end=(e-1) dt)       *)
(*   CompAdd(i, c)      cluster.signal_by_index(i-1).add_constant(c)       *)
(*   CompDelay(i, L)    the component's record replaced through            *)
(*                      reset_values by its own copy delayed by L samples  *)
(*                                                                         *)
(* One action per public call; the linearization point is the call's       *)
(* return.  A state is fully concrete (every sample is an IEEE double), so *)
(* the implementation is bound in lock-step: for EVERY transition TLC      *)
(* generates (Emit = TRUE prints <<"E", level, enc(s), <<op,a,b>>,         *)
(* enc(s')>>) the harness builds a real Cluster in state s, makes the      *)
(* call and requires the object's new state to be one of the model's       *)
(* successors of (s, op); random walks (-simulate) are replayed on ONE     *)
(* object from the start, so that whatever the components memoise between  *)
(* calls is part of the comparison.                                        *)
(***************************************************************************)
EXTENDS Cluster, Integers, Sequences, FiniteSets, TLC

K(S) == Len(S.sigs)
NPts(S) == Len(S.sigs[1])
Others(S) == (1..K(S)) \ {S.master}

\* ---- the operations as functions (relations) on states ---------------------------------------
SetMasterOf(S, m) == [S EXCEPT !.master = m]

\* all ways of choosing one best lag per non-master component
RECURSIVE Products(_, _)
Products(B, i) == IF i = 0 THEN {<<>>} ELSE {Append(p, x) : p \in Products(B, i - 1), x \in B[i]}
LagChoices(S, st) ==
  LET B == [i \in 1..K(S) |-> IF i = S.master THEN {0} ELSE BestLags(S.sigs[i], S.sigs[S.master], st)]
  IN Products(B, K(S))
TimeMatchOf(S, f) == [S EXCEPT !.sigs = [i \in 1..K(S) |-> IF i = S.master THEN S.sigs[i] ELSE Shift(S.sigs[i], f[i])]]

SameStartAll(S, s, e) ==
  [S EXCEPT !.sigs = [i \in 1..K(S) |-> IF i = S.master THEN S.sigs[i]
                                          ELSE SameStartOf(S.sigs[i], S.sigs[S.master], s, e)]]

CompAddOf(S, i, c) == [S EXCEPT !.sigs[i] = [j \in 1..Len(S.sigs[i]) |-> FAdd(S.sigs[i][j], c)]]
CompDelayOf(S, i, L) == [S EXCEPT !.sigs[i] = Shift(S.sigs[i], 0 - L)]

\* ---- what the properties say about single steps (C18), stated on states ------------------------
SeqEq(a, b) == Len(a) = Len(b) /\ \A j \in 1..Len(a) : FEq(a[j], b[j])
SameShape(S, T) == K(S) = K(T) /\ \A i \in 1..K(S) : Len(T.sigs[i]) = Len(S.sigs[i])
MasterKept(S, T) == T.master = S.master /\ SeqEq(T.sigs[S.master], S.sigs[S.master])
\* the chosen section average of every non-master signal equals the master's
Aligned(T, s, e, tol) == \A i \in Others(T) : Close(Avg(T.sigs[i], s, e), Avg(T.sigs[T.master], s, e), tol)
\* after lag matching no lag in the window gives a smaller residual than what was achieved
\* (i.e. the residual of each component against the master at the removed lag was minimal)
ResidualMinimal(S, T, st) ==
  \A i \in Others(S) : \E L \in Lags(st) :
      /\ SeqEq(T.sigs[i], Shift(S.sigs[i], L))
      /\ \A L2 \in Lags(st) : FLe(SSR(S.sigs[i], S.sigs[S.master], L, st), SSR(S.sigs[i], S.sigs[S.master], L2, st))
=============================================================================

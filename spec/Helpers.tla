------------------------------- MODULE Helpers -------------------------------
(***************************************************************************)
(* C20 -- interpolation, averaging, step-fit and design-spectrum helpers:  *)
(* the definitions, written over sequences of floats.                      *)
(***************************************************************************)
EXTENDS FP, FPSeq, Integers, Sequences, FiniteSets

\* ---- table interpolation: linear between nodes, clamped outside ----------------
\* nodes xf strictly increasing, column fc (one value per node), query x
Interp1(xf, fc, x) ==
  LET n == Len(xf) IN
  IF FLe(x, xf[1]) THEN fc[1]
  ELSE IF FGe(x, xf[n]) THEN fc[n]
  ELSE LET i == CHOOSE j \in 1..(n - 1) : FLe(xf[j], x) /\ FLt(x, xf[j + 1])
           s == FDiv(FSub(x, xf[i]), FSub(xf[i + 1], xf[i]))
       IN FAdd(FMul(FSub(One, s), fc[i]), FMul(s, fc[i + 1]))
\* value at the greatest node not exceeding the query (query >= first node)
InterpLeftIdx(xs, x0) == CHOOSE j \in 1..Len(xs) : FLe(xs[j], x0) /\ (j = Len(xs) \/ FLt(x0, xs[j + 1]))

\* ---- rolling average with edge replication --------------------------------------
\* window of `steps` samples: forward i..i+steps-1, backward i-steps+1..i, centre i-floor(steps/2)..
Clamp(j, n) == IF j < 1 THEN 1 ELSE IF j > n THEN n ELSE j
RollAv(v, steps, mode) ==
  LET n == Len(v)
      lo(i) == IF mode = "forward" THEN i ELSE IF mode = "backward" THEN i - steps + 1 ELSE i - (steps \div 2)
  IN [i \in 1..n |-> FDiv(FSum([w \in 1..steps |-> v[Clamp(lo(i) + w - 1, n)]]), FInt(steps))]

\* ---- step-function fit ------------------------------------------------------------
\* summed |deviation from own mean|^p of a non-empty sequence (p = 1 or 2)
Dev(s, p) == LET m == FMean(s) IN FSum([j \in 1..Len(s) |-> IF p = 1 THEN FAbs(FSub(s[j], m)) ELSE FSq(FSub(s[j], m))])
\* error of a step after sample i (1-based, i < n: both sides non-empty); i = n: no step
StepErr(v, i, p) == IF i = Len(v) THEN Dev(v, p) ELSE FAdd(Dev(SubSeq(v, 1, i), p), Dev(SubSeq(v, i + 1, Len(v)), p))
\* levels before and after the split sample with 0-based index ind (1 <= ind <= n-2)
StepLevels(v, ind) == <<FMean(SubSeq(v, 1, ind)), FMean(SubSeq(v, ind + 2, Len(v)))>>
=============================================================================

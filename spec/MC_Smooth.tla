------------------------------ MODULE MC_Smooth ------------------------------
(***************************************************************************)
(* Exhaustive instance of Smooth: Fourier grid f_i = i/4 Hz (i = 1..n,     *)
(* optionally preceded by the zero-frequency bin), amplitudes over         *)
(* {0, 1, 3} growing one bin per step up to MaxLen bins, six target        *)
(* frequencies (on the grid, between grid points, outside on both sides),  *)
(* bandwidths 5, 40, 100.  Properties of the definition; implementation in *)
(* lock-step (TABLE row: code, n, then 3 blocks of 18 floats [b][target]:  *)
(* calc_smooth_fa_spectrum without / with the zero bin (complex input),    *)
(* matrix form).                                                           *)
(***************************************************************************)
EXTENDS Smooth, IOUtils, TLC, VerdictLib, TableIO

CONSTANTS MaxLen
Lv == <<Zero, One, FInt(3)>>
NL == 3
Targets == <<FRat(1, 4), FStr("0.3"), FRat(3, 4), FStr("1.1"), FInt(2), FStr("0.1")>>
Bands == <<FInt(5), FInt(40), FInt(100)>>
Tab == IntTable(IOEnv.TABLE_FILE)

VARIABLES xs, code
vars == <<xs, code>>
Init == xs = <<>> /\ code = 0
Sample(k) == Len(xs) < MaxLen /\ xs' = Append(xs, Lv[k]) /\ code' = code * NL + k
Next == \E k \in 1..NL : Sample(k)
Spec == Init /\ [][Next]_vars

n == Len(xs)
Fr == [i \in 1..n |-> FRat(i, 4)]
Tol == FStr("1e-12")
Sm(t, b) == Smoothed(Fr, xs, Targets[t], Bands[b])

WeightsLaws == n >= 3 => \A t \in 1..6 : \A b \in 1..3 :
  LET w == NormWeights(Fr, Targets[t], Bands[b])
  IN /\ \A i \in 1..n : FLe(Zero, w[i]) /\ FIsFinite(w[i])
     /\ Close(FSum(w), One, Tol)
     /\ (t \in {1, 3} => FEq(Weights(Fr, Targets[t], Bands[b])[IF t = 1 THEN 1 ELSE 3], One))   \* weight 1 at f = fc
Bounded == n >= 3 => \A t \in 1..6 : \A b \in 1..3 :
  /\ FLe(FSub(FMinSeq(xs), Tol), Sm(t, b)) /\ FLe(Sm(t, b), FAdd(FMaxSeq(xs), Tol)) /\ FIsFinite(Sm(t, b))
ConstReproduced == (n >= 3 /\ \A i \in 1..n : FEq(xs[i], xs[1])) => \A t \in 1..6 : \A b \in 1..3 : Close(Sm(t, b), xs[1], Tol)
Homogeneous == n >= 3 => \A t \in 1..6 : \A b \in 1..3 :
  Close(Smoothed(Fr, FScale(FStr("2.5"), xs), Targets[t], Bands[b]), FMul(FStr("2.5"), Sm(t, b)), FMul(Tol, FInt(16)))
MatrixEqualsDirect == n >= 3 => \A t \in 1..6 : \A b \in 1..3 :
  Close(FDot(xs, NormWeights(Fr, Targets[t], Bands[b])), Sm(t, b), FMul(Tol, FInt(16)))
ZeroBinIgnored == n >= 3 => \A t \in 1..6 :
  FEq(Smoothed(<<Zero>> \o Fr, <<FInt(77)>> \o xs, Targets[t], Bands[2]), Sm(t, 2))

Row == Tab[code]
F(blk, b, t) == FloatAt(Row, 2, (blk - 1) * 18 + (b - 1) * 6 + t)
Conforms == n >= 3 =>
  /\ Chk(Row[1] = code /\ Row[2] = n, code, "TableIndex")
  /\ \A blk \in 1..3 :
       Chk(\A t \in 1..6 : \A b \in 1..3 :
              /\ FIsFinite(F(blk, b, t))
              /\ CloseRel(F(blk, b, t), Sm(t, b), FStr("1e-9"), FAbs(Sm(t, b)), FStr("1e-12")), code,
           IF blk = 1 THEN "WindowShape" ELSE IF blk = 2 THEN "ZeroBinIgnored" ELSE "MatrixEqualsDirect")
=============================================================================

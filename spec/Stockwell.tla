------------------------------ MODULE Stockwell ------------------------------
(***************************************************************************)
(* C15 -- the Stockwell transform.  For a real record of length n, N = the *)
(* largest even number <= n, X the N-point DFT of the first N samples:     *)
(*   S[k, t] = conj( (1/N) sum_m X[(m+k) mod N] e^{-2 pi^2 mm^2/k^2}       *)
(*                                e^{+2 pi i m t/N} ),   mm = signed m,    *)
(* k = N/2 (Nyquist) down to 1 (rows), t = 0..N-1: the complex conjugate   *)
(* of the discrete S-transform with a Gaussian window of width 1/f.        *)
(* Consequences: sum_t S[k, t] = conj(X[k]); the inverse recovers the      *)
(* record minus its mean and Nyquist components.                           *)
(***************************************************************************)
EXTENDS Fourier

EvenLen(n) == 2 * (n \div 2)
Signed(m, N) == IF m <= N \div 2 THEN m ELSE m - N
Gauss(m, k, N) == LET mm == FInt(Signed(m, N)) IN
                  FExp(FNeg(FDiv(FMul(FMul(Two, FSq(Pi)), FSq(mm)), FSq(FInt(k)))))
\* twiddles with positive sign: V[m+1] = e^{+2 pi i m/N}
PosTwiddles(N) == [m \in 1..N |-> LET th == FDiv(FMul(TwoPi, FInt(m - 1)), FInt(N)) IN <<FCos(th), FSin(th)>>]
CConj(a) == <<a[1], FNeg(a[2])>>
\* X: the full N-point DFT (1-based sequence), V: PosTwiddles(N)
Cell(X, V, N, k, t) ==
  CConj(CScale(FDiv(One, FInt(N)),
     FoldLeft(LAMBDA acc, m : CAdd(acc, CMul(CScale(Gauss(m, k, N), X[((m + k) % N) + 1]), V[((m * t) % N) + 1])),
              CZero, [m \in 1..N |-> m - 1])))
\* row index (1-based, as returned) -> frequency index k
RowK(r, N) == N \div 2 - r + 1
=============================================================================

------------------------------ MODULE Duration ------------------------------
(***************************************************************************)
(* C10 -- significant and bracketed durations.                             *)
(*                                                                         *)
(* Given a cumulative measure Cum[1..n] and fractions lo < hi, sample i is *)
(* INSIDE iff lo*Cum[n] < Cum[i] < hi*Cum[n] (strict on both sides); the   *)
(* significant duration runs from the first to the last inside sample      *)
(* (times = 0-based index * dt).  Bracketed duration: first and last       *)
(* sample with |a| > threshold (strict).                                   *)
(* Cumulative measures: running sum of squares (array variant), Arias      *)
(* intensity pi/(2g) * cumtrap(a^2), or a supplied series (CAV here).      *)
(***************************************************************************)
EXTENDS FP, FPSeq, Integers, Sequences, FiniteSets

G == FStr("9.81")
AriasC == FDiv(Pi, FMul(Two, G))

CumSq(a)    == FCumSum(FMap(FSq, a))
CumArias(a, dt) == FScale(AriasC, FCumTrap(FMap(FSq, a), dt))
CumCav(a, dt)   == FCumTrap(FMap(FAbs, a), dt)

\* three-valued membership with a relative margin (margin = Zero: exact, no "tie")
Side(c, thr, margin) ==      \* -1: c < thr - margin, 1: c > thr + margin, 0: undecided (margin = Zero: exactly equal)
  IF FLt(c, FSub(thr, margin)) THEN -1 ELSE IF FGt(c, FAdd(thr, margin)) THEN 1 ELSE 0
InsideSet(cum, lo, hi, rel) ==   \* definitely inside
  LET n == Len(cum)  m == FMul(rel, FAbs(cum[n]))
  IN {i \in 1..n : Side(cum[i], FMul(lo, cum[n]), m) = 1 /\ Side(cum[i], FMul(hi, cum[n]), m) = -1}
MaybeSet(cum, lo, hi, rel) ==    \* inside or undecided (exact tie / within margin of a boundary)
  LET n == Len(cum)  m == FMul(rel, FAbs(cum[n]))
  IN {i \in 1..n : Side(cum[i], FMul(lo, cum[n]), m) >= 0 /\ Side(cum[i], FMul(hi, cum[n]), m) <= 0}

\* bracketed: indices with |a| > thr
Above(a, thr) == {i \in 1..Len(a) : FGt(FAbs(a[i]), thr)}
=============================================================================

---------------------------- MODULE Trace_Helpers ----------------------------
(***************************************************************************)
(* Trace validation for C20 on real inputs.  Record kinds:                 *)
(*  "interp2d":   xf[], cols[][] (one sequence per table column), x[],     *)
(*                out[][] (per column, one value per query)                *)
(*  "interp_left": xs[], y[], x0[], out[]                                  *)
(*  "rollav":     v[], steps, mode, out[]                                  *)
(*  "steperr":    v[], pow, out[]                                          *)
(*  "levels":     v[], ind, pre, post                                      *)
(*  "sd_ch":      T, ch, sd, znr       sd = ch * T^2 * Z*N*R               *)
(*  "cont":       lo, hi               values on both sides of a boundary  *)
(*  "teff":       x, t, raised_above   t_eff(x * d_c) = 3 x; raises above  *)
(***************************************************************************)
EXTENDS Helpers, Json, IOUtils, TLC, VerdictLib

Recs == ndJsonDeserialize(IOEnv.TRACE_FILE)
VARIABLES tid, l, bad
vars == <<tid, l, bad>>
R == Recs[tid]
Init == tid \in 1..Len(Recs) /\ l = 0 /\ bad = {}
Tol == FStr("1e-12")
NearS(a, b, scale) == Close(a, b, FMul(Tol, FAdd(scale, FStr("1e-300"))))

Check ==
  CASE R.kind = "interp2d" ->
         Fails(Len(R.out) = Len(R.cols) /\ \A c \in 1..Len(R.cols) : Len(R.out[c]) = Len(R.x)
               /\ \A q \in 1..Len(R.x) : NearS(R.out[c][q], Interp1(R.xf, R.cols[c], R.x[q]), FMaxAbs(R.cols[c])), "Interp2D")
    [] R.kind = "interp_left" ->
         Fails(Len(R.out) = Len(R.x0) /\ \A q \in 1..Len(R.x0) : FEq(R.out[q], R.y[InterpLeftIdx(R.xs, R.x0[q])]), "InterpLeft")
    [] R.kind = "rollav" ->
         LET ref == RollAv(R.v, R.steps, R.mode)
             tol == FMul(FMul(FInt(8 * Len(R.v)), Eps), FAdd(FMaxAbs(R.v), FStr("1e-300")))
         IN Fails(Len(R.out) = Len(R.v) /\ \A i \in 1..Len(R.v) : Close(R.out[i], ref[i], tol), "RollAv")
    [] R.kind = "steperr" ->
         LET n == Len(R.v)
             scale == FMul(FInt(n), IF R.pow = 1 THEN FMaxAbs(R.v) ELSE FSq(FMaxAbs(R.v)))
             tol == FMul(FMul(FInt(16 * n), Eps), FAdd(scale, FStr("1e-300")))
         IN Fails(Len(R.out) = n /\ \A i \in 1..n : Close(R.out[i], StepErr(R.v, i, R.pow), tol), "StepErr")
    [] R.kind = "steperr_at" ->      \* a long series: the error at SOME splits (idx, 1-based) only
         LET n == Len(R.v)
             scale == FMul(FInt(n), IF R.pow = 1 THEN FMaxAbs(R.v) ELSE FSq(FMaxAbs(R.v)))
             tol == FMul(FMul(FInt(16 * n), Eps), FAdd(scale, FStr("1e-300")))
         IN Fails(R.len_ok /\ Len(R.vals) = Len(R.idx) /\ \A j \in 1..Len(R.idx) : Close(R.vals[j], StepErr(R.v, R.idx[j], R.pow), tol), "StepErr")
    [] R.kind = "levels" ->
         \* the split sample may be the first / last one: that side is empty and only the other level is stated
         LET n == Len(R.v)  sc == FMaxAbs(R.v)
             preOK == R.ind = 0 \/ NearS(R.pre, FMean(SubSeq(R.v, 1, R.ind)), sc)
             postOK == R.ind = n - 1 \/ NearS(R.post, FMean(SubSeq(R.v, R.ind + 2, n)), sc)
         IN Fails(preOK /\ postOK, "StepLevels")
    [] R.kind = "sd_ch" ->
         Fails(CloseRel(R.sd, FMul(FMul(R.ch, FSq(R.T)), R.znr), Tol, FAbs(R.sd), FStr("1e-300")), "SdEqualsChT2")
    [] R.kind = "cont" ->
         Fails(FLe(FAbs(FSub(R.lo, R.hi)), FMul(FStr("0.01"), FMax(FAbs(R.lo), FAbs(R.hi)))), "Continuity")
    [] R.kind = "teff" ->
         Fails(R.raised_above /\ CloseRel(R.t, FMul(FInt(3), R.x), FStr("1e-9"), FAbs(R.t), FStr("1e-300")), "TEffInverts")

Step == l = 0 /\ l' = 1 /\ tid' = tid /\ bad' = Check
Finish == l = 1 /\ l' = -1 /\ UNCHANGED <<tid, bad>>
Next == Step \/ Finish
Spec == Init /\ [][Next]_vars
Verdict == l = -1 => EmitVerdict(R.tid, bad, 1)
=============================================================================

----------------------------- MODULE MC_Cluster -----------------------------
(***************************************************************************)
(* Exhaustive instance of Cluster with the implementation in lock-step.    *)
(* CONFIG_FILE (integers): one row per cluster configuration               *)
(*    id, k, n, master(1-based), steps, s, e, then k*n floats: the signals *)
(* (the driver enumerates k in 2..4, every master, every lag vector in     *)
(* (-steps, steps)^(k-1) of exact shifted copies of a generic master, and  *)
(* a set of offset clusters).                                              *)
(* IMPL_FILE: id, k flags (1 = values are a numeric ndarray of length n)   *)
(*    after time_match, k*n floats after time_match, then the same after a *)
(*    following same_start.                                                *)
(* Behaviour: Init (a configuration) -> TimeMatch -> SameStart.            *)
(***************************************************************************)
EXTENDS Cluster, IOUtils, TLC, VerdictLib, TableIO

Cfg == IntTable(IOEnv.CONFIG_FILE)
Imp == IntTable(IOEnv.IMPL_FILE)

VARIABLES c, pc, vals, lag
vars == <<c, pc, vals, lag>>

K(r) == r[2]
NN(r) == r[3]
M(r) == r[4]
Steps(r) == r[5]
S0(r) == r[6]
E0(r) == r[7]
Sig(row, off, n, i) == [j \in 1..n |-> FloatAt(row, off + 2 * n * (i - 1), j)]

Init == /\ c \in 1..Len(Cfg) /\ pc = "init" /\ lag = <<>>
        /\ vals = [i \in 1..K(Cfg[c]) |-> Sig(Cfg[c], 7, NN(Cfg[c]), i)]

\* the lag removed from each signal is the minimiser of the residual (unique in the enumerated
\* configurations: invariant UniqueBestLag; the trace specification treats ties as a relation)
TimeMatch ==
  /\ pc = "init" /\ pc' = "matched" /\ c' = c
  /\ LET ls == [i \in 1..K(Cfg[c]) |-> IF i = M(Cfg[c]) THEN 0
                   ELSE CHOOSE L \in BestLags(vals[i], vals[M(Cfg[c])], Steps(Cfg[c])) : TRUE]
     IN /\ lag' = ls
        /\ vals' = [i \in 1..K(Cfg[c]) |-> Shift(vals[i], ls[i])]

SameStart ==
  /\ pc = "matched" /\ pc' = "started" /\ c' = c /\ lag' = lag
  /\ vals' = [i \in 1..K(Cfg[c]) |-> IF i = M(Cfg[c]) THEN vals[i]
                                       ELSE SameStartOf(vals[i], vals[M(Cfg[c])], S0(Cfg[c]), E0(Cfg[c]))]

Next == TimeMatch \/ SameStart
Spec == Init /\ [][Next]_vars

-----------------------------------------------------------------------------
r == Cfg[c]
n == NN(r)
Orig(i) == Sig(r, 7, n, i)
SeqEq(a, b) == Len(a) = Len(b) /\ \A j \in 1..Len(a) : FEq(a[j], b[j])

\* model properties
MasterUnchanged == SeqEq(vals[M(r)], Orig(M(r)))
LengthsUnchanged == \A i \in 1..K(r) : Len(vals[i]) = n
\* after lag matching every signal that was an exact delayed copy coincides with the master on the overlap
LagRemoved == pc = "matched" =>
  \A i \in 1..K(r) : (FEq(SSR(Orig(i), Orig(M(r)), lag[i], Steps(r)), Zero)) =>
        \A j \in Overlap(n, lag[i]) : FEq(vals[i][j], vals[M(r)][j])
SameStartAligned == pc = "started" =>
  \A i \in 1..K(r) : FEq(Avg(vals[i], S0(r), E0(r)), Avg(vals[M(r)], S0(r), E0(r)))

\* the enumerated configurations have a unique best lag (asserted, so that the lock-step comparison is an equality)
UniqueBestLag == pc = "init" =>
  \A i \in 1..K(r) : i # M(r) => \E L \in Lags(Steps(r)) : BestLags(Orig(i), Orig(M(r)), Steps(r)) = {L}

\* implementation in lock-step
ImplAfter(which, i) == Sig(Imp[c], 1 + K(r) + (IF which = "matched" THEN 0 ELSE 2 * n * K(r)), n, i)
Conforms == pc # "init" =>
  /\ Chk(Imp[c][1] = r[1] /\ Len(Imp[c]) = 1 + K(r) + 4 * n * K(r), c, "TableIndex")
  /\ Chk(\A i \in 1..K(r) : Imp[c][1 + i] = 1, c, "ValuesStayArrays")
  /\ (pc = "matched" => Chk(\A i \in 1..K(r) : SeqEq(ImplAfter("matched", i), vals[i]), c, "LagRemoved"))
  /\ (pc = "started" => /\ Chk(SeqEq(ImplAfter("started", M(r)), vals[M(r)]), c, "MasterUnchanged")
                        /\ Chk(\A i \in 1..K(r) : SeqEq(ImplAfter("started", i), vals[i]), c, "SameStartAligned"))
=============================================================================

---------------------------- MODULE Trace_Spectra ----------------------------
(***************************************************************************)
(* Trace validation for C03.  Records (floats as <<hi, lo>>):              *)
(*  kind "pseudo" / "true": dt, xi, a[], periods[], raised, sd[], sv[],    *)
(*       sa[]  -- ONE EVENT PER PERIOD: the exact flow is run over the     *)
(*       record and its peaks compared with the reported spectra           *)
(*  kind "object": the same plus q (min_dt_ratio): s_d/s_v/s_a of an       *)
(*       AccSignal; accepted iff equal to the model's spectra of the record*)
(*       refined by SOME integer k in [k_min, 2 k_min + 2] (with or without*)
(*       the < 1 step clamped tail) and not below the raw-sample spectra   *)
(*  kind "energy": dt, xi, a[], T, v[] (reported response velocity), ein,  *)
(*       euke (reported spectra values for that period)                    *)
(***************************************************************************)
EXTENDS Spectra, Json, IOUtils, TLC, VerdictLib

Recs == ndJsonDeserialize(IOEnv.TRACE_FILE)
VARIABLES tid, l, bad
vars == <<tid, l, bad>>
R == Recs[tid]
N == IF R.kind = "energy" THEN 1 ELSE IF R.raised THEN 1 ELSE Len(R.periods)
Init == tid \in 1..Len(Recs) /\ l = 0 /\ bad = {}

n == Len(R.a)
Pga == FMaxAbs(R.a)
Rel12 == FStr("1e-12")
NearR(x, y, rel) == CloseRel(x, y, rel, FAbs(y), FStr("1e-300"))
FiniteNonNeg(j) == \A s \in {R.sd, R.sv, R.sa} : FIsFinite(s[j]) /\ FLe(Zero, s[j])

PseudoStep(j) ==
  LET T == R.periods[j]  IN
  IF FEq(T, Zero)
  THEN Fails(FEq(R.sd[j], Zero) /\ FEq(R.sa[j], Pga), "PgaBelow6dt") \cup Fails(FiniteNonNeg(j), "FiniteNonNeg")
  ELSE LET fl == Flow(T, R.xi, R.dt)  pk == Peaks3(fl, R.a)  w == fl.w
           tu == AbsTol(T, R.dt, n, pk.pu, FDiv(Pga, FSq(w)))
           tv == AbsTol(T, R.dt, n, pk.pv, FDiv(Pga, w))
           ta == FAdd(FMul(FSq(w), tu), FMul(FMul(FMul(Two, R.xi), w), tv))
           pgaB == PgaBranch(T, R.dt)
       IN Fails(FiniteNonNeg(j), "FiniteNonNeg")
          \cup Fails(Close(R.sd[j], pk.pu, tu), "SdIsPeak")
          \cup (IF R.kind = "pseudo"
                THEN Fails(NearR(R.sv[j], FMul(w, R.sd[j]), Rel12)
                           /\ (pgaB \/ NearR(R.sa[j], FMul(FSq(w), R.sd[j]), Rel12)), "PseudoRelations")
                ELSE Fails(Close(R.sv[j], pk.pv, tv) /\ (pgaB \/ Close(R.sa[j], pk.pa, ta)), "TrueSpectra")
                     \cup (IF FEq(R.xi, Zero) /\ ~pgaB
                           THEN Fails(NearR(R.sa[j], FMul(FSq(w), R.sd[j]), FStr("1e-6")), "UndampedTrueEqualsPseudo") ELSE {}))
          \cup Fails(pgaB => FEq(R.sa[j], Pga), "PgaBelow6dt")

ObjectStep(j) ==
  LET T == R.periods[j]
      \* (a record may list only SOME of the object's periods: it then names the object's shortest non-zero period itself)
      tmin == IF "tmin" \in DOMAIN R THEN R.tmin ELSE IF FEq(R.periods[1], Zero) THEN R.periods[2] ELSE R.periods[1]
      kmin == KMin(tmin, R.dt, R.q)
  IN IF FEq(T, Zero) THEN Fails(FEq(R.sd[j], Zero) /\ FEq(R.sa[j], Pga), "PgaBelow6dt")
     ELSE LET w == FDiv(TwoPi, T)
              raw == Peaks3(Flow(T, R.xi, R.dt), R.a).pu
              tr == AbsTol(T, R.dt, n, raw, FDiv(Pga, FSq(w)))
          IN Fails(FiniteNonNeg(j), "FiniteNonNeg")
             \cup Fails(ObjectSpectrumOK(R.a, R.dt, R.xi, R.q, tmin, T, R.sd[j], R.sa[j]), "ObjectStepRule")
             \cup Fails(FGe(R.sd[j], FSub(raw, tr)), "ObjectNotBelowRaw")
             \cup Fails(NearR(R.sv[j], FMul(w, R.sd[j]), Rel12), "PseudoRelations")

EnergyCheck ==
  LET fl == Flow(R.T, R.xi, R.dt)
      mv == ModelVelocity(fl, R.a)
      einRep == InputEnergy(R.a, R.v, R.dt)  ekRep == KineticEnergy(R.v)
      einMod == InputEnergy(R.a, mv, R.dt)
      size == FMul(FSum([i \in 1..n |-> FAbs(FMul(R.a[i], R.v[i]))]), R.dt)        \* sum of |terms|
      t10 == FAdd(FMul(FStr("1e-10"), size), FStr("1e-300"))
      tv == AbsTol(R.T, R.dt, n, FMaxAbs(mv), FDiv(Pga, fl.w))
      tmod == FAdd(FMul(FMul(FMul(FInt(n), Pga), tv), R.dt), t10)
  IN IF Len(R.v) # n THEN {"Shape"}
     ELSE Fails(Close(R.ein, einRep, t10) /\ Close(R.euke, ekRep, FAdd(FMul(FStr("1e-10"), ekRep), FStr("1e-300")))
                /\ Close(R.ein, einMod, tmod), "EnergyDefSums")
          \* non-negative at the end of the record -- up to what the C01 tolerance on the velocity can explain (tmod):
          \* where the exact velocity vanishes at the sample instants (xi = 0, T/dt = 1, 1/2) the sum is rounding noise
          \cup (IF FLt(R.ein, FNeg(tmod))
                THEN (IF FLt(einMod, Zero) THEN {"InputEnergyNonNeg_DefiningSumNegative"} ELSE {"InputEnergyNonNeg"})
                ELSE {})

Step == /\ l >= 0 /\ l < N /\ l' = l + 1 /\ tid' = tid
        /\ bad' = bad \cup (IF R.kind = "energy" THEN EnergyCheck
                            ELSE IF R.raised THEN {"ContainersAccepted"}
                            ELSE IF Len(R.sd) # Len(R.periods) \/ Len(R.sv) # Len(R.periods) \/ Len(R.sa) # Len(R.periods)
                                 THEN {"OnePerPeriod"}
                            ELSE IF R.kind = "object" THEN ObjectStep(l + 1) ELSE PseudoStep(l + 1))
Finish == l = N /\ l' = -1 /\ UNCHANGED <<tid, bad>>
Next == Step \/ Finish
Spec == Init /\ [][Next]_vars
Verdict == l = -1 => EmitVerdict(R.tid, bad, N)
=============================================================================

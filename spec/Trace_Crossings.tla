--------------------------- MODULE Trace_Crossings ---------------------------
(***************************************************************************)
(* Trace validation for C12 on real-valued series.  One sample per step:   *)
(* the zero-crossing machine must emit exactly the reported lists (two     *)
(* pointers), the switched-peak acceptor of Crossings consumes the sample  *)
(* together with the reported list.  At the end: tolerance results must be *)
(* subsequences of the zero-tolerance results.                             *)
(* Record: tid, x[], tol, zcf[], zct[], sw[], zcf_tol[], zct_tol[], sw_tol[]*)
(***************************************************************************)
EXTENDS Crossings, FP, Json, IOUtils, TLC, VerdictLib

Recs == ndJsonDeserialize(IOEnv.TRACE_FILE)

VARIABLES tid, l, sw, kf, kt, bad
vars == <<tid, l, sw, kf, kt, bad>>

R == Recs[tid]
N == Len(R.x)
FSg(x) == FSign(x)
FAb(x) == FAbs(x)
FCmp(a, b) == IF FLt(a, b) THEN 1 ELSE IF FLt(b, a) THEN -1 ELSE 0

Init == tid \in 1..Len(Recs) /\ l = 0 /\ sw = SwInit /\ kf = 0 /\ kt = 0 /\ bad = {}

Expect(list, k, e) == k + 1 <= Len(list) /\ list[k + 1] = e

Step ==
  /\ l >= 0 /\ l < N
  /\ LET x == R.x[l + 1]  i == l
         sp == IF i = 0 THEN 0 ELSE FSg(R.x[l])
         ef == ZcEmit(i, sp, FSg(x), FALSE)
         et == ZcEmit(i, sp, FSg(x), TRUE)
         \* an index the machine does not emit must not be the next reported one either
         okf == IF ef THEN Expect(R.zcf, kf, i) ELSE ~Expect(R.zcf, kf, i)
         okt == IF et THEN Expect(R.zct, kt, i) ELSE ~Expect(R.zct, kt, i)
     IN /\ l' = l + 1 /\ tid' = tid
        /\ sw' = SwStep(sw, x, i, R.sw, FSg, FAb, FCmp)
        /\ kf' = IF Expect(R.zcf, kf, i) THEN kf + 1 ELSE kf
        /\ kt' = IF Expect(R.zct, kt, i) THEN kt + 1 ELSE kt
        /\ bad' = bad \cup Fails(okf /\ okt, "ZeroCrossings")

Finish ==
  /\ l = N /\ l' = -1 /\ UNCHANGED <<tid, sw, kf, kt>>
  /\ bad' = bad \cup SwEnd(sw, R.sw, FCmp)
              \cup Fails(kf = Len(R.zcf) /\ kt = Len(R.zct), "ZeroCrossings")
              \cup Fails(IsSubseqOf(R.zcf_tol, R.zcf) /\ IsSubseqOf(R.zct_tol, R.zct), "TolSubsequenceZc")
              \cup Fails(IsSubseqOf(R.sw_tol, R.sw), "TolSubsequence")

Next == Step \/ Finish
Spec == Init /\ [][Next]_vars
Verdict == l = -1 => EmitVerdict(R.tid, bad \cup (IF l = -1 THEN sw.bad ELSE {}), N)
=============================================================================

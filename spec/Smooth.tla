-------------------------------- MODULE Smooth --------------------------------
(***************************************************************************)
(* C07 -- Konno-Ohmachi (1998) smoothing.                                  *)
(*   W(f, fc, b) = 1 if f = fc, else (sin x / x)^4 with x = b log10(f/fc)  *)
(*   Smoothed(fc) = sum_i W(f_i, fc) |A_i| / sum_i W(f_i, fc)              *)
(* over the non-zero Fourier frequencies f_i.                              *)
(***************************************************************************)
EXTENDS FP, FPSeq, Integers, Sequences

KO(f, fc, b) ==
  IF FEq(f, fc) THEN One
  ELSE LET x == FMul(b, FLog10(FDiv(f, fc)))
       IN IF FEq(x, Zero) THEN One ELSE LET q == FDiv(FSin(x), x) IN FSq(FSq(q))
\* drop the zero-frequency bin if present
NonZero(freqs, vals) == IF FEq(freqs[1], Zero) THEN Tail(vals) ELSE vals
Weights(freqs, fc, b) == LET fs == NonZero(freqs, freqs) IN [i \in 1..Len(fs) |-> KO(fs[i], fc, b)]
NormWeights(freqs, fc, b) == LET w == Weights(freqs, fc, b)  s == FSum(w) IN [i \in 1..Len(w) |-> FDiv(w[i], s)]
\* amps: absolute amplitudes, one per entry of freqs
Smoothed(freqs, amps, fc, b) ==
  LET w == Weights(freqs, fc, b)  a == NonZero(freqs, amps) IN FDiv(FDot(w, a), FSum(w))
=============================================================================

---------------------------- MODULE MC_Integrate ----------------------------
(***************************************************************************)
(* Exhaustive instance of Integrate on an exact dyadic lattice, with the   *)
(* implementation in lock-step.                                            *)
(*                                                                         *)
(* Behaviours = all records over Levels (halves) up to MaxLen samples, for *)
(* every dt in Dts.  All arithmetic on this lattice is exact in binary64,  *)
(* so the invariants are equalities.                                       *)
(*                                                                         *)
(* TABLE_FILE (one row of integers per behaviour code, written by the      *)
(* driver from the real code; row = code, then per dt 12 floats <<hi,lo>>) *)
(* holds what eqsig returned for exactly that record:                      *)
(*   t[j] = <<v, d, pga, pgv, pgd>>  calc_velo_and_disp_from_accel_arr,     *)
(*                                   trap=True, and im.calc_peak           *)
(*   r[j] = <<v, d>>                 the same with trap=False              *)
(*   o[j] = <<v, d, pga, pgv, pgd>>  AccSignal(...).velocity[-1] etc.      *)
(* (last sample of each series, j = index of dt).  Conforms is evaluated in *)
(* EVERY reachable state and never stops the run: a disagreement prints    *)
(* one MISMATCH line.                                                      *)
(***************************************************************************)
EXTENDS Integrate, IOUtils, TLC, VerdictLib, TableIO

CONSTANTS MaxLen

Lv  == << FRat(-2, 2), FRat(-1, 2), FRat(0, 2), FRat(1, 2), FRat(3, 2) >>   \* Levels
NL  == Len(Lv)
Dts == << FRat(1, 2), FInt(2) >>
Alpha == FInt(-3)
Partner(k) == Lv[((k * 2) % NL) + 1]          \* a fixed second record b, b_k depends on position only

Tab == IntTable(IOEnv.TABLE_FILE)

VARIABLES xs,      \* the record consumed so far
          code,    \* bijective base-NL numeral of xs: index into Tab
          j,       \* index of dt
          m,       \* trapezoid machine on xs
          ms,      \* ... on Alpha * xs
          mb,      \* ... on the partner record b
          mc,      \* ... on xs + 2 b
          rv, rd   \* rectangle-rule candidates: rv[side], rd[side]
vars == <<xs, code, j, m, ms, mb, mc, rv, rd>>

Sides == {"L", "R"}

Init == /\ xs = <<>> /\ code = 0 /\ j \in 1..Len(Dts)
        /\ m = Empty /\ ms = Empty /\ mb = Empty /\ mc = Empty
        /\ rv = [s \in Sides |-> Zero] /\ rd = [s \in Sides |-> [t \in Sides |-> Zero]]

Sample(k) ==
  LET x == Lv[k]  dt == Dts[j]  n == Len(xs) + 1  b == Partner(n)
      prev == IF n = 1 THEN x ELSE xs[n - 1]
      rv2 == [s \in Sides |-> IF n = 1 THEN Zero ELSE FAdd(rv[s], RectInc(dt, prev, x, s))]
  IN /\ Len(xs) < MaxLen
     /\ xs' = Append(xs, x)
     /\ code' = code * NL + k
     /\ j' = j
     /\ m'  = TrapFeed(m, x, dt)
     /\ ms' = TrapFeed(ms, FMul(Alpha, x), dt)
     /\ mb' = TrapFeed(mb, b, dt)
     /\ mc' = TrapFeed(mc, FAdd(x, FMul(Two, b)), dt)
     /\ rv' = rv2
     \* displacement by the rectangle rule over velocity series rv[s], panel side t
     /\ rd' = [s \in Sides |-> [t \in Sides |->
                 IF n = 1 THEN Zero ELSE FAdd(rd[s][t], RectInc(dt, rv[s], rv2[s], t))]]

Next == \E k \in 1..NL : Sample(k)
Spec == Init /\ [][Next]_vars

-----------------------------------------------------------------------------
\* properties of the model (exact arithmetic on the lattice)
n  == Len(xs)
dt == Dts[j]

StartZero == n = 1 => FEq(m.v, Zero) /\ FEq(m.d, Zero)

\* the incremental machine is the declarative double cumulative trapezoid
Twin == n >= 1 =>
  LET V == FCumTrap(xs, dt)  D == FCumTrap(V, dt)
  IN /\ FEq(m.v, V[n]) /\ FEq(m.d, D[n])
     /\ FEq(m.pa, FMaxAbs(xs)) /\ FEq(m.pv, FMaxAbs(V)) /\ FEq(m.pd, FMaxAbs(D))

\* linear: scaling by Alpha and superposition with the partner record
Linear == n >= 1 =>
  /\ FEq(ms.v, FMul(Alpha, m.v)) /\ FEq(ms.d, FMul(Alpha, m.d))
  /\ FEq(mc.v, FAdd(m.v, FMul(Two, mb.v))) /\ FEq(mc.d, FAdd(m.d, FMul(Two, mb.d)))

\* peaks: invariant to sign, scale with |alpha|
PeakLaws == n >= 1 =>
  /\ FEq(ms.pa, FMul(FAbs(Alpha), m.pa)) /\ FEq(ms.pv, FMul(FAbs(Alpha), m.pv)) /\ FEq(ms.pd, FMul(FAbs(Alpha), m.pd))
  /\ FLe(FAbs(m.v), m.pv) /\ FLe(FAbs(m.d), m.pd)

\* exact for constant and linearly varying acceleration a(t) = c + s*t (t in units of dt):
\* the trapezoid rule integrates a linear integrand exactly, so v = dt*(c*t + s*t^2/2) for every
\* arithmetic record; v is then quadratic, so the second trapezoid pass is exact iff s = 0:
\* d = dt^2*c*t^2/2 for constant acceleration (for s # 0 it overshoots by s*dt^2*t/12).
IsArith == n >= 2 /\ \A k \in 2..n : FEq(FSub(xs[k], xs[k - 1]), FSub(xs[2], xs[1]))
ExactForLinearAcc == IsArith =>
  LET c == xs[1]  s == FSub(xs[2], xs[1])  t == FInt(n - 1)
  IN /\ FEq(m.v, FMul(dt, FAdd(FMul(c, t), FDiv(FMul(s, FSq(t)), Two))))
     /\ FEq(s, Zero) => FEq(m.d, FDiv(FMul(FSq(dt), FMul(c, FSq(t))), Two))
     /\ FEq(FMul(FInt(12), m.d),
            FMul(FSq(dt), FAdd(FAdd(FMul(FInt(6), FMul(c, FSq(t))), FMul(FInt(2), FMul(s, FMul(t, FSq(t))))),
                               FMul(s, t))))

-----------------------------------------------------------------------------
\* the implementation in lock-step
Row == Tab[code]

F(k) == FloatAt(Row, 1, (j - 1) * 12 + k)
Conforms == n >= 2 =>
  LET t == [k \in 1..5 |-> F(k)]  r == [k \in 1..2 |-> F(5 + k)]  o == [k \in 1..5 |-> F(7 + k)]
  IN /\ Chk(Row[1] = code /\ Len(Row) = 1 + 24 * Len(Dts), code, "TableIndex")
     /\ Chk(FEq(t[1], m.v), code, "VeloIncrement")
     /\ Chk(FEq(t[2], m.d), code, "DispIncrement")
     /\ Chk(FEq(t[3], m.pa) /\ FEq(t[4], m.pv) /\ FEq(t[5], m.pd), code, "PeakIsMaxAbs")
     /\ Chk(FEq(o[1], m.v) /\ FEq(o[2], m.d), code, "ObjArrayAgree")
     /\ Chk(FEq(o[3], m.pa) /\ FEq(o[4], m.pv) /\ FEq(o[5], m.pd), code, "ObjPeaks")
     \* rectangle rule: some consistent choice of panel side explains the result
     /\ Chk(\E s \in Sides : FEq(r[1], rv[s]) /\ \E u \in Sides : FEq(r[2], rd[s][u]), code, "RectIncrement")
=============================================================================

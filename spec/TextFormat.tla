------------------------------ MODULE TextFormat ------------------------------
(***************************************************************************)
(* C16 -- the eqsig text format: save then load gives the signal back to   *)
(* the format's precision.                                                 *)
(*                                                                         *)
(* The file is modelled as what its lines carry: the label line, the       *)
(* header "npts dt" with dt to 4 decimals, one value per line to 6         *)
(* decimals.  In the exhaustive instance values are integers in            *)
(* micro-units and dt an integer in units of 1e-4, i.e. already on the     *)
(* format's grid, so the round trip is exact; the trace specification      *)
(* (Trace_TextFormat) states the tolerance version for arbitrary floats.   *)
(*                                                                         *)
(* Behaviour:  New --Save--> Saved --Load(loader)--> Loaded --Resave-->    *)
(* CONFIG_FILE row: id, label id, dt (1e-4 units), npts, values (1e-6)     *)
(* IMPL_FILE row (one per config and loader, in that order):               *)
(*    id, loader, raised, npts, dt (1e-4 units, rounded), label ok,        *)
(*    class ok, resaved file identical, values (1e-6 units, rounded)       *)
(***************************************************************************)
EXTENDS Integers, Sequences, IOUtils, TLC, VerdictLib, TableIO

Cfg == IntTable(IOEnv.CONFIG_FILE)
Imp == IntTable(IOEnv.IMPL_FILE)

\* loaders: name, class of the result, scale factor m, whether the label is read back
Loaders == << [fn |-> "load_values_and_dt", cls |-> "tuple", m |-> 1, lab |-> FALSE],
              [fn |-> "load_signal(signal)", cls |-> "Signal", m |-> 1, lab |-> FALSE],
              [fn |-> "load_signal(acc_sig)", cls |-> "AccSignal", m |-> 1, lab |-> FALSE],
              [fn |-> "load_sig", cls |-> "Signal", m |-> 1, lab |-> FALSE],
              [fn |-> "load_sig(m=2)", cls |-> "Signal", m |-> 2, lab |-> FALSE],
              [fn |-> "load_sig(m=-3)", cls |-> "Signal", m |-> -3, lab |-> FALSE],
              [fn |-> "load_asig", cls |-> "AccSignal", m |-> 1, lab |-> FALSE],
              [fn |-> "load_asig(label)", cls |-> "AccSignal", m |-> 1, lab |-> TRUE],
              [fn |-> "load_asig(label, m=2)", cls |-> "AccSignal", m |-> 2, lab |-> TRUE],
              [fn |-> "load_asig(m=-3)", cls |-> "AccSignal", m |-> -3, lab |-> FALSE] >>
NLd == Len(Loaders)

VARIABLES c, pc, file, mem, ld
vars == <<c, pc, file, mem, ld>>

Obj(r) == [cls |-> "AccSignal", label |-> r[2], dtu |-> r[3], vals |-> [j \in 1..r[4] |-> r[4 + j]]]
Format(o) == [label |-> o.label, npts |-> Len(o.vals), dt4 |-> o.dtu, vals6 |-> o.vals]
Parse(f, k) == [cls |-> Loaders[k].cls,
                label |-> IF Loaders[k].lab THEN f.label ELSE 0,     \* 0 = the default label 'm1'
                dtu |-> f.dt4,
                vals |-> [j \in 1..f.npts |-> Loaders[k].m * f.vals6[j]]]

Init == c \in 1..Len(Cfg) /\ pc = "new" /\ file = <<>> /\ mem = Obj(Cfg[c]) /\ ld = 0
Save == pc = "new" /\ pc' = "saved" /\ file' = Format(mem) /\ UNCHANGED <<c, mem, ld>>
Load(k) == pc = "saved" /\ pc' = "loaded" /\ mem' = Parse(file, k) /\ ld' = k /\ UNCHANGED <<c, file>>
Resave == pc = "loaded" /\ Loaders[ld].m = 1 /\ Loaders[ld].cls # "tuple" /\ pc' = "resaved"
          /\ file' = Format([mem EXCEPT !.label = file.label]) /\ UNCHANGED <<c, mem, ld>>
Next == Save \/ (\E k \in 1..NLd : Load(k)) \/ Resave
Spec == Init /\ [][Next]_vars

Orig == Obj(Cfg[c])
RoundTrip == pc = "loaded" =>
  /\ Len(mem.vals) = Len(Orig.vals)
  /\ mem.dtu = Orig.dtu
  /\ \A j \in 1..Len(mem.vals) : mem.vals[j] = Loaders[ld].m * Orig.vals[j]
  /\ (Loaders[ld].lab => mem.label = Orig.label)
ResaveIdempotent == pc = "resaved" => file = Format(Orig)

Row == Imp[(c - 1) * NLd + ld]
Code == (c - 1) * NLd + ld
Conforms == pc = "loaded" =>
  /\ Chk(Row[1] = Cfg[c][1] /\ Row[2] = ld, Code, "TableIndex")
  /\ Chk(Row[3] = 0, Code, "Raises")
  /\ (Row[3] = 0 =>
       /\ Chk(Row[4] = Len(mem.vals), Code, "Npts")
       /\ Chk(Row[5] = mem.dtu, Code, "Dt4")
       /\ Chk(Row[6] = 1, Code, "Label")
       /\ Chk(Row[7] = 1, Code, "ReturnType")
       /\ Chk(Row[8] = 1, Code, "ResaveIdempotent")
       /\ Chk(Row[4] = Len(mem.vals) => \A j \in 1..Len(mem.vals) : Row[8 + j] = mem.vals[j],
              Code, IF Loaders[ld].m = 1 THEN "Values6" ELSE "Scale"))
=============================================================================

---------------------------- MODULE MC_Intensity ----------------------------
(***************************************************************************)
(* Exhaustive instance of Intensity on the lattice                         *)
(*   a in {-1, -1/4, 0, 1/8, 1/4, 1} m/s2,  dt = 1/2 s (2 samples/second)  *)
(* (the 0.025 g gate = 0.24525 m/s2 lies strictly between 1/8 and 1/4).    *)
(* v, v^2, |a| integrals and kinetic energy are exact on this lattice;     *)
(* Arias and CavDp carry the factors pi/(2g), 1/g: compared at 1e-12.      *)
(* TABLE row: code, arias, cav, isv, ia, iv, uke (final values), m, then m *)
(* floats: the calc_cav_dp series (m = 0 for records shorter than 2 s).    *)
(***************************************************************************)
EXTENDS Intensity, IOUtils, TLC, VerdictLib, TableIO

CONSTANTS MaxLen
Lv == << FInt(-1), FRat(-1, 4), Zero, FRat(1, 8), FRat(1, 4), One >>
NL == 6
Dt == Half
PPS == 2
Tab == IntTable(IOEnv.TABLE_FILE)

VARIABLES xs, code, m, mprev, mneg, m2
vars == <<xs, code, m, mprev, mneg, m2>>

Init == xs = <<>> /\ code = 0 /\ m = ImEmpty /\ mprev = ImEmpty /\ mneg = ImEmpty /\ m2 = ImEmpty
Sample(k) == /\ Len(xs) < MaxLen
             /\ xs' = Append(xs, Lv[k]) /\ code' = code * NL + k
             /\ m' = ImFeed(m, Lv[k], Dt) /\ mprev' = m
             /\ mneg' = ImFeed(mneg, FNeg(Lv[k]), Dt)
             /\ m2' = ImFeed(m2, FMul(Two, Lv[k]), Dt)
Next == \E k \in 1..NL : Sample(k)
Spec == Init /\ [][Next]_vars

-----------------------------------------------------------------------------
n == Len(xs)
MS == {Measures[i] : i \in 1..Len(Measures)}
Exact == {"cav", "isv", "ia", "iv", "uke"}

\* properties of the model
Monotone == n >= 2 => \A q \in MS : FLe(Val(mprev, q), Val(m, q)) /\ FLe(Zero, Val(m, q))
SignInvariant == n >= 1 => \A q \in MS : FEq(Val(mneg, q), Val(m, q))
Scale == n >= 1 => \A q \in Exact : FEq(m2[q], FMul(FPowI(Two, ScaleExp[q]), m[q]))
\* appending a zero to a record that ends at zero changes no acceleration-based measure
ZeroPadInvariant == (n >= 2 /\ FEq(xs[n], Zero) /\ FEq(xs[n - 1], Zero)) => \A q \in AccBased : FEq(Val(m, q), Val(mprev, q))
\* the machine is the declarative definition
Twin == n >= 1 =>
  LET V == FCumTrap(xs, Dt)
  IN /\ FEq(m.ct2, FCumTrap(FMap(FSq, xs), Dt)[n]) /\ FEq(m.cav, FCumTrap(FMap(FAbs, xs), Dt)[n])
     /\ FEq(m.isv, FCumTrap(FMap(FSq, V), Dt)[n])
     /\ FEq(m.ia, FMul(FSumAbs(xs), Dt)) /\ FEq(m.iv, FMul(FSumAbs(V), Dt))
     /\ FEq(m.uke, FSum([j \in 1..n |-> FAbs(FSub(KE(V[j]), IF j = 1 THEN Zero ELSE KE(V[j - 1])))]))
W == (n - 1) \div PPS          \* whole seconds: int(time[-1])
CavDpLaws == W >= 2 =>
  LET b == CavDpBounds(xs, Dt, PPS, W)
  IN /\ FLe(Zero, b.lo) /\ FLe(b.lo, b.hi) /\ FLe(b.hi, FAdd(FDiv(m.cav, G), FStr("1e-15")))
     /\ (~b.any => FEq(b.hi, Zero))

-----------------------------------------------------------------------------
Row == Tab[code]
F(k) == FloatAt(Row, 1, k)
Near(x, y) == CloseRel(x, y, FStr("1e-12"), FAbs(y), FStr("1e-300"))
Conforms == n >= 2 =>
  LET mm == Row[14]
      dp == [t \in 1..mm |-> FloatAt(Row, 14, t)]
      b == CavDpBounds(xs, Dt, PPS, W)
      tol == FMul(FStr("1e-12"), FAdd(b.hi, One))
  IN /\ Chk(Row[1] = code, code, "TableIndex")
     /\ Chk(Near(F(1), Arias(m)), code, "FinalValue_arias")
     /\ Chk(FEq(F(2), m.cav), code, "FinalValue_cav")
     /\ Chk(FEq(F(3), m.isv), code, "FinalValue_isv")
     /\ Chk(FEq(F(4), m.ia), code, "FinalValue_ia")
     /\ Chk(FEq(F(5), m.iv), code, "FinalValue_iv")
     /\ Chk(FEq(F(6), m.uke), code, "FinalValue_uke")
     /\ (W >= 2 =>
          /\ Chk(mm = n, code, "Length")
          /\ Chk(mm = n => \A t \in 1..(n - 1) : FLe(dp[t], FAdd(dp[t + 1], tol)), code, "Monotone")
          /\ Chk(mm = n => FLe(FSub(b.lo, tol), dp[n]) /\ FLe(dp[n], FAdd(b.hi, tol)), code, "CavDpWindows")
          /\ Chk(mm = n => (FLe(Zero, dp[1]) /\ FLe(dp[n], FAdd(FDiv(m.cav, G), tol))), code, "CavDpRange")
          /\ Chk((mm = n /\ ~b.any) => \A t \in 1..n : FEq(dp[t], Zero), code, "CavDpGateZero"))
=============================================================================

--------------------------- MODULE Trace_SignalObj ---------------------------
(***************************************************************************)
(* Trace validation of whole sessions against SignalObj.  One session per  *)
(* line: tid, cls, events = << .. >>, each event a record with op and:     *)
(*   construct / reset_values : vals, dt                                   *)
(*   add_constant : c, after        add_series / add_signal : s, after     *)
(*   running_average : w, after     remove_average / rebase_displacement : *)
(*   after                          havoc : name, deg, after [, cold]      *)
(*   read : what, k, val  (val = <<re, im>> for "fas", else <<x, 0>>)      *)
(*   set_rt : rt (new response periods)   read_rs : k, sd, sa (s_d[k],     *)
(*   s_a[k] read lazily: default damping and refinement rule)              *)
(* `after` is the record the real object holds after the call.             *)
(* Clauses: Def_<op> (the object's new record is what the operation        *)
(* defines), Read_<what> (the returned value is what the kernels compute   *)
(* from the model's record), Havoc_<name> (length / detrending clauses).   *)
(***************************************************************************)
EXTENDS SignalObj, Json, IOUtils, TLC, VerdictLib

Recs == ndJsonDeserialize(IOEnv.TRACE_FILE)
VARIABLES tid, l, vals, dt, rt, bad
vars == <<tid, l, vals, dt, rt, bad>>
R == Recs[tid]
N == Len(R.events)
Init == tid \in 1..Len(Recs) /\ l = 0 /\ vals = <<>> /\ dt = One /\ rt = <<>> /\ bad = {}

S == FAdd(FMaxAbs(vals), FStr("1e-300"))
T == FMul(FInt(Len(vals)), dt)
Rel == FStr("1e-9")
SeqNear(a, b, tol) == Len(a) = Len(b) /\ \A j \in 1..Len(a) : Close(a[j], b[j], tol)
VecTol(v) == FMul(FStr("1e-12"), FAdd(FMaxAbs(v), FStr("1e-300")))

ReadOK(e) == ReadValueOK(vals, dt, e)

Step ==
  /\ l >= 0 /\ l < N /\ l' = l + 1 /\ tid' = tid
  /\ rt' = (LET e == R.events[l + 1] IN IF e.op \in {"construct", "set_rt"} /\ "rt" \in DOMAIN e THEN e.rt ELSE rt)
  /\ LET e == R.events[l + 1]  op == e.op IN
     CASE op \in {"construct", "reset_values"} ->
            /\ vals' = e.vals /\ dt' = (IF op = "construct" THEN e.dt ELSE dt) /\ bad' = bad
       [] op = "add_constant" ->
            /\ vals' = e.after /\ dt' = dt /\ bad' = bad \cup Fails(SeqNear(e.after, AddConst(vals, e.c), VecTol(e.after)), "Def_add_constant")
       [] op \in {"add_series", "add_signal"} ->
            /\ vals' = e.after /\ dt' = dt
            /\ bad' = bad \cup Fails(Len(e.s) = Len(vals) /\ SeqNear(e.after, AddSeq(vals, e.s), VecTol(e.after)), "Def_" \o op)
       [] op = "running_average" ->
            /\ vals' = e.after /\ dt' = dt /\ bad' = bad \cup Fails(SeqNear(e.after, RunAv(vals, e.w), FMul(FInt(64), VecTol(vals))), "Def_running_average")
       [] op = "remove_average" ->
            /\ vals' = e.after /\ dt' = dt /\ bad' = bad \cup Fails(SeqNear(e.after, RemoveAverageDefault(vals), FMul(FInt(64), VecTol(vals))), "Def_remove_average")
       [] op = "rebase_displacement" ->
            /\ vals' = e.after /\ dt' = dt /\ bad' = bad \cup Fails(SeqNear(e.after, Rebase(vals, dt), FMul(FStr("1e-9"), S)), "Def_rebase_displacement")
       [] op = "havoc" ->
            /\ vals' = e.after /\ dt' = dt
            /\ bad' = bad \cup Fails(Len(e.after) = Len(vals), "Havoc_" \o e.name \o "_length")
                           \cup (IF e.deg >= 0 /\ Len(e.after) = Len(vals)
                                 THEN Fails(DetrendOK(vals, e.after, e.deg, FMul(FStr("1e-7"), S)), "Havoc_" \o e.name) ELSE {})
                           \* the operation is a function of the record and the settings: the same call on a freshly
                           \* constructed object (nothing read before) leaves the same record
                           \cup (IF "cold" \in DOMAIN e
                                 THEN Fails(Len(e.cold) = Len(e.after) /\ SeqNear(e.after, e.cold, FMul(FStr("1e-9"), S)), "Havoc_" \o e.name \o "_history")
                                 ELSE {})
       [] op = "set_rt" -> vals' = vals /\ dt' = dt /\ bad' = bad
       [] op = "read_rs" ->
            /\ vals' = vals /\ dt' = dt
            /\ bad' = bad \cup Fails(ReadSpectrumOK(vals, dt, rt, e.k, e.sd, e.sa), "Read_response_spectrum")
       [] op = "read" ->
            /\ vals' = vals /\ dt' = dt /\ bad' = bad \cup Fails(ReadOK(e), "Read_" \o e.what)
       [] OTHER -> /\ vals' = vals /\ dt' = dt /\ bad' = bad \cup {"UnknownOp"}
Finish == l = N /\ l' = -1 /\ UNCHANGED <<tid, vals, dt, rt, bad>>
Next == Step \/ Finish
Spec == Init /\ [][Next]_vars
Verdict == l = -1 => EmitVerdict(R.tid, bad, N)
=============================================================================

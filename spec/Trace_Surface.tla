---------------------------- MODULE Trace_Surface ----------------------------
(***************************************************************************)
(* Lock-step / trace validation for C19.  One record per call:             *)
(*  kind "energy": dt, a[], tts[], nodal, ru[], rd[] (one per travel time),*)
(*        trim, start, out[][] (one row per travel time), cum[][] (rows of *)
(*        calc_cum_abs_surface_energy for the same call), optionally       *)
(*        mot[][] (rows of get_time_shift_motions for the same call)       *)
(*  kind "rel":    law, x[], y[], f    (y = f * x  element-wise)           *)
(*  kind "put2d":  v[], shifts[], clip, out[][]                            *)
(*  kind "join":   v[], shifts[], sub, out[][]                             *)
(* Values are compared with the definition for start = FALSE (trimmed:     *)
(* the first npts samples); for start = TRUE the statement fixes only the  *)
(* length when trimmed, the accepted relation is: each row is an integer   *)
(* index shift (zero filled / cropped) of the start = FALSE row, by a      *)
(* number of samples within one of (stt - tt)/dt.                          *)
(***************************************************************************)
EXTENDS Surface, Json, IOUtils, TLC, VerdictLib

Recs == ndJsonDeserialize(IOEnv.TRACE_FILE)
VARIABLES tid, l, bad
vars == <<tid, l, bad>>
R == Recs[tid]
N == IF R.kind = "energy" THEN Len(R.tts) ELSE 1
Init == tid \in 1..Len(Recs) /\ l = 0 /\ bad = {}

\* one event per travel time (row k)
EnergyRowCheck(k) ==
  LET n == Len(R.a)
      ref == EnergyRow(R.a, R.dt, R.tts, k, R.nodal, R.ru[k], R.rd[k])
      scale == FAdd(FMaxAbs(ref), FStr("1e-300"))
      tol == FMul(FStr("1e-10"), scale)
      y == R.out[k]  c == R.cum[k]
      lenOK == /\ Len(R.out) = Len(R.tts) /\ Len(R.cum) = Len(R.tts)
               /\ (R.trim => Len(y) = n)
               /\ ((~R.trim /\ ~R.start) => Len(y) = Len(ref))
               /\ Len(c) = Len(y)
      \* start = TRUE: "the same start time as the record" -- the row is delayed by the travel time from the input location to
      \* the surface minus the travel time to the depth, (stt - tt)/dt samples; how a fractional delay is made a whole number of
      \* samples is left open (within one sample either way)
      q == FDiv(FSub(R.stt, R.tts[k]), R.dt)
      cand == {s \in (-Len(ref))..Len(ref) : FLe(FAbs(FSub(FInt(s), q)), FStr("1.000000001"))}
      valOK == IF ~R.start
               THEN \A j \in 1..Len(y) : Close(y[j], ref[j], tol)
               ELSE \E s \in cand : IsShiftOf(y, ref, s, tol)
      cumRef == CumAbs(y)
      cumOK == /\ \A j \in 1..Len(c) : Close(c[j], cumRef[j], FMul(FStr("1e-10"), FAdd(cumRef[Len(c)], FStr("1e-300"))))
               /\ \A j \in 1..(Len(c) - 1) : FLe(c[j], c[j + 1])
      \* get_time_shift_motions for the same call: the acceleration series itself (before integration)
      hasMot == "mot" \in DOMAIN R
      accRef == AccRow(R.a, R.dt, R.tts, k, R.nodal, R.ru[k], R.rd[k])
      atol == FMul(FStr("1e-12"), FAdd(FMaxAbs(accRef), FStr("1e-300")))
      motLen == hasMot => (Len(R.mot) = Len(R.tts) /\ Len(R.mot[k]) = Len(y))
      motOK == hasMot => IF ~R.start THEN \A j \in 1..Len(R.mot[k]) : Close(R.mot[k][j], accRef[j], atol)
                         ELSE \E s \in cand : IsShiftOf(R.mot[k], accRef, s, atol)
      zeroOK == (R.nodal /\ FEq(R.tts[k], Zero) /\ FEq(R.ru[k], R.rd[k])) => \A j \in 1..Len(y) : FEq(y[j], Zero)
  IN IF ~lenOK \/ ~motLen THEN {"Lengths"}
     ELSE Fails(motOK, "ShiftedWaveDefinition") \cup Fails(valOK, IF R.start THEN "StartIsShift" ELSE "EnergyDef")
          \cup Fails(cumOK, "CumAbsMonotone") \cup Fails(zeroOK, "ZeroTravelNodalZero")

RowsNear(out, ref) ==
  /\ Len(out) = Len(ref)
  /\ \A i \in 1..Len(ref) : Len(out[i]) = Len(ref[i]) /\ \A c \in 1..Len(ref[i]) : FEq(out[i][c], ref[i][c])

Other ==
  CASE R.kind = "rel" ->
         Fails(Len(R.x) = Len(R.y) /\ \A j \in 1..Len(R.x) :
                 Close(R.y[j], FMul(R.f, R.x[j]), FMul(FStr("1e-10"), FAdd(FMul(FAbs(R.f), FMaxAbs(R.x)), FStr("1e-300")))), R.clause)
    [] R.kind = "put2d" -> Fails(RowsNear(R.out, Put2D(R.v, R.shifts, R.clip)), "Put2D")
    [] R.kind = "join" -> Fails(RowsNear(R.out, Join(R.v, R.shifts, R.sub)), "Join")

Step == /\ l >= 0 /\ l < N /\ l' = l + 1 /\ tid' = tid
        /\ bad' = bad \cup (IF R.kind = "energy" THEN EnergyRowCheck(l + 1) ELSE Other)
Finish == l = N /\ l' = -1 /\ UNCHANGED <<tid, bad>>
Next == Step \/ Finish
Spec == Init /\ [][Next]_vars
Verdict == l = -1 => EmitVerdict(R.tid, bad, N)
=============================================================================

----------------------------- MODULE Trace_Peaks -----------------------------
(***************************************************************************)
(* Trace validation for C11: recorded calls of get_peak_array_indices      *)
(* (ptype all / max / min) and get_n_cyc_array on real-valued series.      *)
(* The Peaks automaton consumes one sample per step; every index it emits  *)
(* must be the next entry of the reported lists (pointers ka, kx, kn), and *)
(* the cycle counter is checked at every sample.                           *)
(* Record: tid, x[], all[], mx[], mn[], cyco[], cycp[]                     *)
(***************************************************************************)
EXTENDS Peaks, FP, Json, IOUtils, TLC, VerdictLib

Recs == ndJsonDeserialize(IOEnv.TRACE_FILE)

VARIABLES tid, l, st, ka, kx, kn, bad
vars == <<tid, l, st, ka, kx, kn, bad>>

R == Recs[tid]
N == Len(R.x)
FSgn(a, b) == FSign(FSub(b, a))     \* differences are kept within [1e-100, 1e100] by the driver: no underflow

Init == /\ tid \in 1..Len(Recs) /\ l = 0 /\ st = [n |-> 0] /\ ka = 1 /\ kx = 0 /\ kn = 0
        /\ bad = Fails(Len(Recs[tid].cyco) = Len(Recs[tid].x) /\ Len(Recs[tid].cycp) = Len(Recs[tid].x), "NCycArray")
                 \cup Fails(Len(Recs[tid].all) >= 1 /\ Recs[tid].all[1] = 0, "PeaksAll")

\* the automaton emitted index e of kind knd: it must be the next entry of `all` and of its kind's list
Expect(list, k, e) == k + 1 <= Len(list) /\ list[k + 1] = e
CycAt(c, e, k, sv) == e + 1 <= Len(c) /\ FEq(c[e + 1], FAdd(FRat(k - 1, 2), sv))

Step ==
  /\ l >= 0 /\ l < N
  /\ LET x == R.x[l + 1]
         s2 == IF st.n = 0 THEN PkStart(x) ELSE PkStep(st, x, FSgn(st.last, x))
         e == s2.emit
         isx == s2.ekind = "max"
         offx == IF FirstKind(s2) = "max" THEN 1 ELSE 0      \* index 0 heads the max list iff the series first falls
         offn == 1 - offx
         mono == "NCycArray" \in bad \/ l = 0 \/ (FLe(R.cyco[l], R.cyco[l + 1]) /\ FLe(R.cycp[l], R.cycp[l + 1]))
     IN /\ st' = s2 /\ l' = l + 1 /\ tid' = tid
        /\ ka' = IF e >= 0 THEN ka + 1 ELSE ka
        /\ kx' = IF e >= 0 /\ isx THEN kx + 1 ELSE kx
        /\ kn' = IF e >= 0 /\ ~isx THEN kn + 1 ELSE kn
        /\ bad' = bad
             \cup (IF e >= 0 THEN Fails(Expect(R.all, ka, e), "PeaksAll") ELSE {})
             \cup (IF e >= 0 /\ isx THEN Fails(Expect(R.mx, kx + offx, e), "PeaksMax") ELSE {})
             \cup (IF e >= 0 /\ ~isx THEN Fails(Expect(R.mn, kn + offn, e), "PeaksMin") ELSE {})
             \cup (IF e >= 0 /\ "NCycArray" \notin bad
                   THEN Fails(CycAt(R.cyco, e, ka + 1, FRat(-1, 4)) /\ CycAt(R.cycp, e, ka + 1, Zero), "NCycArray") ELSE {})
             \cup Fails(mono, "NCycArray")

\* end of the series: index 0 gets its kind, the final-run start is reported last
Finish ==
  /\ l = N
  /\ l' = -1 /\ UNCHANGED <<tid, st, ka, kx, kn>>
  /\ LET lk == LastKind(st)  e == st.cand
         offx == IF FirstKind(st) = "max" THEN 1 ELSE 0
         offn == 1 - offx
         headOK == IF offx = 1 THEN Len(R.mx) >= 1 /\ R.mx[1] = 0 ELSE Len(R.mn) >= 1 /\ R.mn[1] = 0
         endMaxOK == IF lk = "max"
                     THEN Len(R.mx) = kx + offx + 1 /\ R.mx[kx + offx + 1] = e /\ Len(R.mn) = kn + offn
                     ELSE Len(R.mn) = kn + offn + 1 /\ R.mn[kn + offn + 1] = e /\ Len(R.mx) = kx + offx
     IN bad' = bad
          \cup Fails(Len(R.all) = ka + 1 /\ R.all[ka + 1] = e, "PeaksAll")
          \cup Fails(headOK /\ endMaxOK, IF lk = "max" THEN "PeaksMax" ELSE "PeaksMin")
          \cup (IF "NCycArray" \in bad THEN {} ELSE
                Fails(FEq(R.cyco[1], Zero) /\ FEq(R.cycp[1], Zero)
                      /\ CycAt(R.cyco, e, ka + 1, FRat(-1, 4)) /\ CycAt(R.cycp, e, ka + 1, Zero), "NCycArray"))

Next == Step \/ Finish
Spec == Init /\ [][Next]_vars
Verdict == l = -1 => EmitVerdict(R.tid, bad, N)
=============================================================================

----------------------------- MODULE MC_Duration -----------------------------
(***************************************************************************)
(* Exhaustive instance of Duration: every record over the integers         *)
(* -2..2 up to MaxLen samples, dt = 1/2, six dyadic fraction pairs, four   *)
(* thresholds; implementation in lock-step.  On this lattice the running   *)
(* sum of squares and CAV are exact, so exact ties between a cumulative    *)
(* value and a fraction of the total occur often and are decided           *)
(* identically in exact and float arithmetic: this separates < from <=.    *)
(* The Arias variant carries the irrational factor pi/(2g): there a sample *)
(* within 1e-12 (relative) of a boundary is accepted on either side.       *)
(*                                                                         *)
(* TABLE row: code; for variant in <<vals, arias, custom callable (running *)
(*   sum of squares)>>, for each pair:                                     *)
(*   raised, t0, t1;  then vals/pair 2 with se=False: raised, duration;    *)
(*   then for each threshold: none, t0, t1, duration (calc_brac_dur).      *)
(***************************************************************************)
EXTENDS Duration, IOUtils, TLC, VerdictLib, TableIO

CONSTANTS MaxLen
NL == 5
Dt == FRat(1, 2)
Pairs == << <<FRat(1, 8), FRat(7, 8)>>, <<FRat(1, 4), FRat(3, 4)>>, <<FRat(1, 2), FRat(3, 4)>>,
            <<FRat(1, 8), FRat(1, 2)>>, <<FRat(1, 4), FRat(7, 8)>>, <<FRat(1, 2), FRat(7, 8)>> >>
Nested == { <<2, 1>>, <<3, 2>>, <<2, 5>>, <<5, 1>>, <<3, 6>>, <<6, 1>>, <<4, 1>> }   \* <<inner, outer>>
Thrs == << Zero, FRat(1, 2), One, Two >>
Tab == IntTable(IOEnv.TABLE_FILE)

VARIABLES xs, code
vars == <<xs, code>>
Init == xs = <<>> /\ code = 0
Sample(k) == Len(xs) < MaxLen /\ xs' = Append(xs, FInt(k - 3)) /\ code' = code * NL + k
Next == \E k \in 1..NL : Sample(k)
Spec == Init /\ [][Next]_vars

-----------------------------------------------------------------------------
n == Len(xs)
T(i) == FMul(FInt(i - 1), Dt)
I(cum, p) == InsideSet(cum, Pairs[p][1], Pairs[p][2], Zero)
Sq == CumSq(xs)

\* properties of the definition (exact variant)
RangeOK == n >= 1 => \A p \in 1..6 : LET S == I(Sq, p) IN S # {} => 1 <= Min(S) /\ Min(S) <= Max(S) /\ Max(S) <= n
ScaleInvariant == n >= 1 => \A p \in 1..6 : I(CumSq(FScale(FInt(-2), xs)), p) = I(Sq, p)
ShiftByK == n >= 1 => \A p \in 1..6 : \A k \in 1..2 :
   I(CumSq([j \in 1..k |-> Zero] \o xs), p) = {i + k : i \in I(Sq, p)}
WideningMonotone == n >= 1 => \A pr \in Nested : I(Sq, pr[1]) \subseteq I(Sq, pr[2])
BracMonotone == n >= 1 => \A t \in 1..3 : Above(xs, Thrs[t + 1]) \subseteq Above(xs, Thrs[t])
BracScaleTogether == n >= 1 => \A t \in 1..4 : Above(FScale(FInt(-2), xs), FMul(Two, Thrs[t])) = Above(xs, Thrs[t])

\* implementation in lock-step
Row == Tab[code]
Fl(off) == <<Row[off + 1], Row[off + 2]>>
Exact(cum, p, off) ==
  LET S == I(cum, p)  raised == Row[off + 1] = 1
  IN IF S = {} THEN raised ELSE ~raised /\ FEq(Fl(off + 1), T(Min(S))) /\ FEq(Fl(off + 3), T(Max(S)))
Tolerant(cum, p, off) ==
  LET rel == FStr("1e-12")
      S == InsideSet(cum, Pairs[p][1], Pairs[p][2], rel)  Mb == MaybeSet(cum, Pairs[p][1], Pairs[p][2], rel)
      raised == Row[off + 1] = 1
  IN IF raised THEN S = {}
     ELSE \E i0, i1 \in Mb : /\ FEq(Fl(off + 1), T(i0)) /\ FEq(Fl(off + 3), T(i1)) /\ i0 <= i1
                             /\ (S # {} => i0 <= Min(S) /\ i1 >= Max(S))
Brac(t, off) ==
  LET S == Above(xs, Thrs[t])  none == Row[off + 1] = 1
  IN IF S = {} THEN none /\ FEq(Fl(off + 5), Zero)
     ELSE ~none /\ FEq(Fl(off + 1), T(Min(S))) /\ FEq(Fl(off + 3), T(Max(S)))
          /\ FEq(Fl(off + 5), FSub(T(Max(S)), T(Min(S))))
Conforms == n >= 1 =>
  /\ Chk(Row[1] = code /\ Len(Row) = 122, code, "TableIndex")
  /\ Chk(\A p \in 1..6 : Exact(Sq, p, 1 + 5 * (p - 1)), code, "SigDurIndices")
  /\ Chk(\A p \in 1..6 : Tolerant(CumArias(xs, Dt), p, 31 + 5 * (p - 1)), code, "SigDurArias")
  \* user-supplied measure (a callable returning the running sum of squares, which does not start at zero)
  /\ Chk(\A p \in 1..6 : Exact(Sq, p, 61 + 5 * (p - 1)), code, "SigDurCustomMeasure")
  /\ Chk(LET S == I(Sq, 2) IN IF S = {} THEN Row[92] = 1
                              ELSE Row[92] = 0 /\ FEq(Fl(92), FSub(T(Max(S)), T(Min(S)))), code, "SigDurDifference")
  /\ Chk(\A t \in 1..4 : Brac(t, 94 + 7 * (t - 1)), code, "BracIndices")
=============================================================================

---------------------------- MODULE Trace_Fourier ----------------------------
(***************************************************************************)
(* Trace validation for C06.  Records:                                     *)
(*  kind "fas":  dt, x[], N (transform length the statement prescribes for *)
(*       the call), fas[] (complex pairs), freqs[], objfas[]/objfreqs[]    *)
(*       (the object-level result when the record compares array- and      *)
(*       object-level functions, else empty) -- ONE EVENT PER BIN          *)
(*  kind "dom":  fas[], freqs[], period  (max_fa_period)                   *)
(*  kind "inv":  dt, x[] (even length N), y[] (complex pairs returned by   *)
(*       fas2values / fas2signal for the unpadded spectrum of x)           *)
(***************************************************************************)
EXTENDS Fourier, Json, IOUtils, TLC, VerdictLib

Recs == ndJsonDeserialize(IOEnv.TRACE_FILE)
VARIABLES tid, l, bad, W
vars == <<tid, l, bad, W>>
R == Recs[tid]
NB == IF R.kind = "fas" THEN Bins(R.N) ELSE 1
Init == /\ tid \in 1..Len(Recs) /\ l = 0
        /\ W = IF Recs[tid].kind = "fas" THEN Twiddles(Recs[tid].N) ELSE <<>>
        /\ bad = IF Recs[tid].kind = "fas"
                 THEN Fails(Len(Recs[tid].fas) = Bins(Recs[tid].N) /\ Len(Recs[tid].freqs) = Bins(Recs[tid].N), "BinCount") ELSE {}

\* bin k (1-based event number)
BinStep(k) ==
  LET tol == FMul(FMul(FStr("1e-9"), R.dt), FAdd(FSumAbs(R.x), FStr("1e-300")))
      ref == FasBin(R.x, R.dt, R.N, W, k - 1)
      f == Freq(k - 1, R.N, R.dt)
      obj == Len(R.objfas) = 0 \/ (Len(R.objfas) = Len(R.fas) /\ Len(R.objfreqs) = Len(R.freqs)
                                    /\ CClose(R.objfas[k], R.fas[k], tol) /\ Close(R.objfreqs[k], R.freqs[k], FMul(FStr("1e-12"), FAbs(f))))
  IN Fails(CClose(R.fas[k], ref, tol), "DftValues")
     \cup Fails(CloseRel(R.freqs[k], f, FStr("1e-12"), FAbs(f), Zero), "FreqGrid")
     \cup Fails(obj, "ObjArrayAgree")

DomCheck ==
  LET n == Len(R.fas)
      amax == FMaxSeq([k \in 1..n |-> CAbs(R.fas[k])])
      \* bins whose amplitude is within 1e-9 (relative) of the largest: any of them may be reported
      top == {k \in 1..n : FGe(CAbs(R.fas[k]), FMul(amax, FStr("0.999999999")))}
  IN Fails(\E k \in top : IF FEq(R.freqs[k], Zero) THEN ~FIsFinite(R.period)
                          ELSE CloseRel(R.period, FDiv(One, R.freqs[k]), FStr("1e-12"), FAbs(R.period), Zero), "DominantPeriod")

InvCheck ==
  LET N == Len(R.x)  tgt == InverseTarget(R.x, N)
      tol == FMul(FStr("1e-9"), FAdd(FMaxAbs(R.x), FStr("1e-300")))
  IN IF Len(R.y) # N THEN {"InverseExact"}
     ELSE Fails(\A j \in 1..N : Close(R.y[j][1], tgt[j], tol) /\ Close(R.y[j][2], Zero, tol), "InverseExact")

\* relation between two recorded results (y = x element-wise, exactly): e.g. the record before / after its spectrum was read
RelCheck == Fails(Len(R.x) = Len(R.y) /\ \A j \in 1..Len(R.x) : FEq(R.x[j], R.y[j]), R.clause)

Step == /\ l >= 0 /\ l < NB /\ "BinCount" \notin bad /\ l' = l + 1 /\ UNCHANGED <<tid, W>>
        /\ bad' = bad \cup (IF R.kind = "fas" THEN BinStep(l + 1) ELSE IF R.kind = "dom" THEN DomCheck
                            ELSE IF R.kind = "rel" THEN RelCheck ELSE InvCheck)
Finish == (l = NB \/ "BinCount" \in bad) /\ l >= 0 /\ l' = -1 /\ UNCHANGED <<tid, bad, W>>
Next == Step \/ Finish
Spec == Init /\ [][Next]_vars
Verdict == l = -1 => EmitVerdict(R.tid, bad, NB)
=============================================================================

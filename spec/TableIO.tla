------------------------------ MODULE TableIO ------------------------------
(***************************************************************************)
(* IntTable(path): rows of blank-separated integers -> tuple of tuples.    *)
(* Overridden by java/TableIO.java (pure I/O).  Lock-step implementation   *)
(* tables are written in this format by the drivers: row number = the      *)
(* behaviour code the exhaustive machine carries.                          *)
(***************************************************************************)
EXTENDS Integers, Sequences
IntTable(path) == CHOOSE x \in {} : TRUE

\* the k-th float of a flat row whose floats start at integer position off + 1
FloatAt(row, off, k) == <<row[off + 2 * k - 1], row[off + 2 * k]>>
=============================================================================

------------------------------ MODULE MC_Peaks ------------------------------
(***************************************************************************)
(* Exhaustive instance of Peaks: every series over the integer levels      *)
(* 0..NL-1 up to MaxLen samples (every pattern of rise / fall / flat),     *)
(* with the implementation in lock-step.                                   *)
(*                                                                         *)
(* TABLE_FILE row (integers), one per behaviour code:                      *)
(*   code, K, all[K], Kmax, max[Kmax], Kmin, min[Kmin], n,                 *)
(*   n floats get_n_cyc_array(start='origin'), n floats (start='peak')     *)
(* (rows of constant series carry only the code: the property is about     *)
(* non-constant series).                                                   *)
(***************************************************************************)
EXTENDS Peaks, FP, IOUtils, TLC, VerdictLib, TableIO

CONSTANTS MaxLen, NL

Tab == IntTable(IOEnv.TABLE_FILE)

VARIABLES xs, code, st, pk, kinds
vars == <<xs, code, st, pk, kinds>>

ISgn(a, b) == IF b > a THEN 1 ELSE IF b < a THEN -1 ELSE 0

Init == xs = <<>> /\ code = 0 /\ st = [n |-> 0] /\ pk = <<0>> /\ kinds = <<>>

Sample(k) ==
  LET x == k - 1
      s2 == IF st.n = 0 THEN PkStart(x) ELSE PkStep(st, x, ISgn(st.last, x))
  IN /\ Len(xs) < MaxLen
     /\ xs' = Append(xs, x)
     /\ code' = code * NL + k
     /\ st' = s2
     /\ pk' = IF s2.emit >= 0 THEN Append(pk, s2.emit) ELSE pk
     /\ kinds' = IF s2.emit >= 0 THEN Append(kinds, s2.ekind) ELSE kinds

Next == \E k \in 1..NL : Sample(k)
Spec == Init /\ [][Next]_vars

-----------------------------------------------------------------------------
n == Len(xs)
NonConst == n >= 1 /\ NonConstant(st)
\* what the automaton reports for the record so far
Rep   == Append(pk, st.cand)
Kinds == <<FirstKind(st)>> \o kinds \o <<LastKind(st)>>
Sel(kind) == SelectSeq([k \in 1..Len(Rep) |-> <<Rep[k], Kinds[k]>>], LAMBDA e : e[2] = kind)
MaxList == [k \in 1..Len(Sel("max")) |-> Sel("max")[k][1]]
MinList == [k \in 1..Len(Sel("min")) |-> Sel("min")[k][1]]

\* model properties
AutomatonIsDeclarative == NonConst => Rep = SortedSeq(ReportedSet(xs, ISgn))
ModelSatisfiesStatement == NonConst => StatementClauses(xs, Rep, ISgn)
KindsAreLocalExtrema == NonConst =>
  /\ \A k \in 1..Len(Rep) : (Kinds[k] = "max") = IsMaxAt(xs, Rep[k], ISgn)
  /\ \A k \in 1..Len(Rep) : (Kinds[k] = "min") = IsMinAt(xs, Rep[k], ISgn)
  /\ \A k \in 1..(Len(Rep) - 1) : Kinds[k] # Kinds[k + 1]
\* uniqueness: the statement's clauses determine the list (checked against every subset on short series)
ClausesDetermineResult == (NonConst /\ n <= 5) =>
  \A S \in SUBSET (0..(n - 1)) : (S # {} /\ Cardinality(S) >= 2 /\ StatementClauses(xs, SortedSeq(S), ISgn)) => SortedSeq(S) = Rep

-----------------------------------------------------------------------------
\* implementation in lock-step
Row == Tab[code]
Slice(off, k) == [t \in 1..k |-> Row[off + t]]
Conforms == NonConst =>
  LET K == Row[2]  all == Slice(2, K)
      o1 == 2 + K  Kx == Row[o1 + 1]  mx == Slice(o1 + 1, Kx)
      o2 == o1 + 1 + Kx  Kn == Row[o2 + 1]  mn == Slice(o2 + 1, Kn)
      o3 == o2 + 1 + Kn  nn == Row[o3 + 1]
      cycO == [t \in 1..nn |-> FloatAt(Row, o3 + 1, t)]
      cycP == [t \in 1..nn |-> FloatAt(Row, o3 + 1 + 2 * nn, t)]
      \* plateau-free series: the "cleaned array" entry point and its deprecated alias (count -1: not applicable)
      o4 == o3 + 1 + 4 * nn  Kc == Row[o4 + 1]
      cl == IF Kc >= 0 THEN Slice(o4 + 1, Kc) ELSE <<>>
      o5 == o4 + 1 + (IF Kc >= 0 THEN Kc ELSE 0)  Kd == Row[o5 + 1]
      dp == IF Kd >= 0 THEN Slice(o5 + 1, Kd) ELSE <<>>
      PlateauFree == \A t \in 1..(n - 1) : xs[t] # xs[t + 1]
      cycOK(c, sv) ==
        /\ Len(c) = n
        /\ \A t \in 1..(n - 1) : FLe(c[t], c[t + 1])
        /\ FEq(c[1], Zero)
        /\ \A k \in 2..Len(Rep) : FEq(c[Rep[k] + 1], FAdd(FRat(k - 1, 2), sv))
  IN /\ Chk(Row[1] = code /\ Len(Row) > 1, code, "TableIndex")
     /\ Chk(all = Rep, code, "PeaksAll")
     /\ Chk(StatementClauses(xs, all, ISgn), code, "PeaksAllClauses")
     /\ Chk(mx = MaxList, code, "PeaksMax")
     /\ Chk(mn = MinList, code, "PeaksMin")
     /\ Chk(nn = n /\ cycOK(cycO, FRat(-1, 4)) /\ cycOK(cycP, Zero), code, "NCycArray")
     /\ Chk(PlateauFree <=> Kc >= 0, code, "TableIndex")
     /\ Chk(Kc >= 0 => cl = Rep, code, "PeaksCleanedEntry")
     /\ Chk(Kd >= 0 => dp = Rep, code, "PeaksCleanedEntryAlias")
=============================================================================

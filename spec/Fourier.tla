------------------------------- MODULE Fourier -------------------------------
(***************************************************************************)
(* C06 -- the Fourier amplitude spectrum is dt times the DFT of the        *)
(* zero-padded record, on the grid k/(N dt), k = 0..floor(N/2)-1.          *)
(*                                                                         *)
(* Integer part: the transform length N (next power of two, with p2_plus,  *)
(* explicit n, or unpadded), the number of bins.                           *)
(* Float part: the DEFINITIONAL transform  X[k] = sum_n x[n] e^{-2 pi i k  *)
(* n/N}  with the angle reduced to (k n mod N) so that a table of N        *)
(* twiddle factors suffices; complex numbers are pairs <<re, im>>.         *)
(***************************************************************************)
EXTENDS FP, FPSeq, Integers, Sequences

\* ---- integer part ------------------------------------------------------------
RECURSIVE NextPow2From(_, _)
NextPow2From(p, m) == IF p >= m THEN p ELSE NextPow2From(2 * p, m)
NextPow2(m) == NextPow2From(1, m)
RECURSIVE Pow2(_)
Pow2(e) == IF e = 0 THEN 1 ELSE 2 * Pow2(e - 1)
\* transform length: mode "default" | "p2" (with p) | "n" (explicit, n >= npts) | "unpadded"
PadLen(npts, mode, arg) ==
  CASE mode = "default"  -> NextPow2(npts)
    [] mode = "p2"       -> NextPow2(npts) * Pow2(arg)
    [] mode = "n"        -> arg
    [] mode = "unpadded" -> npts
Bins(N) == N \div 2
IsPow2(m) == NextPow2(m) = m

\* ---- complex numbers -----------------------------------------------------------
CAdd(a, b) == <<FAdd(a[1], b[1]), FAdd(a[2], b[2])>>
CMul(a, b) == <<FSub(FMul(a[1], b[1]), FMul(a[2], b[2])), FAdd(FMul(a[1], b[2]), FMul(a[2], b[1]))>>
CScale(c, a) == <<FMul(c, a[1]), FMul(c, a[2])>>
CAbs(a) == FHypot(a[1], a[2])
CAbs2(a) == FAdd(FSq(a[1]), FSq(a[2]))
CZero == <<Zero, Zero>>
CClose(a, b, tol) == Close(a[1], b[1], tol) /\ Close(a[2], b[2], tol)

\* ---- the transform ----------------------------------------------------------------
\* twiddle table W[m+1] = e^{-2 pi i m/N}, m = 0..N-1
Twiddles(N) == [m \in 1..N |-> LET th == FDiv(FMul(TwoPi, FInt(m - 1)), FInt(N))
                               IN <<FCos(th), FNeg(FSin(th))>>]
\* bin k (0-based) of the N-point DFT of x (implicitly zero-padded; Len(x) <= N)
DftBin(x, N, W, k) ==
  FoldLeft(LAMBDA acc, j : CAdd(acc, CScale(x[j], W[((k * (j - 1)) % N) + 1])), CZero, [j \in 1..Len(x) |-> j])
FasBin(x, dt, N, W, k) == CScale(dt, DftBin(x, N, W, k))
Freq(k, N, dt) == FDiv(FInt(k), FMul(FInt(N), dt))
Dft(x, N) == LET W == Twiddles(N) IN [k \in 1..N |-> DftBin(x, N, W, k - 1)]

\* what the inverse helper must return for an even N: the padded record minus its mean and Nyquist components
NyquistSum(x) == FSum([j \in 1..Len(x) |-> IF j % 2 = 1 THEN x[j] ELSE FNeg(x[j])])
InverseTarget(x, N) ==
  LET mean == FDiv(FSum(x), FInt(N))  ny == FDiv(NyquistSum(x), FInt(N))
  IN [j \in 1..N |-> FSub(FSub(IF j <= Len(x) THEN x[j] ELSE Zero, mean), IF j % 2 = 1 THEN ny ELSE FNeg(ny))]
=============================================================================

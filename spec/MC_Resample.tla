----------------------------- MODULE MC_Resample -----------------------------
(***************************************************************************)
(* Exhaustive tick instance of Resample with the implementation in         *)
(* lock-step.  Behaviours: a configuration (d, t, even, tick) is chosen,   *)
(* then the record grows one sample per step (n = NMin..NMax).             *)
(* TABLE row (integers), indexed by ((cfg-1)*(NMax-NMin+1) + n-NMin+1):    *)
(*   d, t, even, tickid, n, dt, target, returned dt (array level),         *)
(*   returned dt (object level), m, y[m] (array level), objsame            *)
(* the record is x_j = ((37*j*j) mod 64 - 32)/8, j = 0..n-1.               *)
(* tick 1 = 2^-8 s (all quotients exact: the observed factor must equal    *)
(* the tick model's); ticks 2..4 = 0.001, 0.003, 0.007 s (quotients land   *)
(* next to integers: only the statement's clauses are asserted).           *)
(***************************************************************************)
EXTENDS Resample, IOUtils, TLC, VerdictLib, TableIO

CONSTANTS DMax, NMin, NMax, NTicks
Tab == IntTable(IOEnv.TABLE_FILE)

VARIABLES d, t, even, tick, n
vars == <<d, t, even, tick, n>>
Init == d \in 1..DMax /\ t \in 1..DMax /\ even \in BOOLEAN /\ tick \in 1..NTicks /\ n = NMin
Grow == n < NMax /\ n' = n + 1 /\ UNCHANGED <<d, t, even, tick>>
Spec == Init /\ [][Grow]_vars

\* precondition of the property: the record lasts at least two of the coarser of (dt, target)
InDomain == (n - 1) * d >= 2 * (IF d > t THEN d ELSE t)

\* ---- properties of the tick model ---------------------------------------------
k == KOf(d, t)
StepRule == /\ (Mode(d, t) = "refine" => d <= k * t /\ (k - 1) * t < d)        \* d/k <= t, k minimal
            /\ (Mode(d, t) = "decimate" => d * k <= t /\ t < d * (k + 1))      \* d*k <= t, k maximal
            /\ k >= 1
EvenRule == even => Count(d, t, n, even) % 2 = 0
DurationRule == InDomain => DurationOK(d, t, n, even)

\* ---- implementation in lock-step ---------------------------------------------------
CfgIndex == ((((d - 1) * DMax + (t - 1)) * 2 + (IF even THEN 1 ELSE 0)) * NTicks + (tick - 1))
RowIndex == CfgIndex * (NMax - NMin + 1) + (n - NMin + 1)
Row == Tab[RowIndex]
X == [j \in 1..n |-> FRat(((37 * (j - 1) * (j - 1)) % 64) - 32, 8)]
Conforms == InDomain =>
  LET dt == FloatAt(Row, 5, 1)  tg == FloatAt(Row, 5, 2)  ndt == FloatAt(Row, 5, 3)  ondt == FloatAt(Row, 5, 4)
      m == Row[14]
      y == [j \in 1..m |-> FloatAt(Row, 14, j)]
      c == RowIndex
  IN /\ Chk(Row[1] = d /\ Row[2] = t /\ Row[3] = (IF even THEN 1 ELSE 0) /\ Row[4] = tick /\ Row[5] = n, c, "TableIndex")
     /\ Chk(StepNotAboveTarget(tg, ndt), c, "StepNotAboveTarget")
     /\ Chk(IntegerRatio(dt, ndt), c, "IntegerRatio")
     /\ Chk(tick # 1 \/ (KObs(dt, ndt) = k /\ (Refining(dt, ndt) <=> Mode(d, t) = "refine")
                         /\ (Decimating(dt, ndt) <=> (Mode(d, t) = "decimate" /\ k > 1))), c, "TickFactor")
     /\ Chk(m >= 1 /\ OriginalsRetained(X, y, dt, ndt), c, "OriginalsRetained")
     /\ Chk(m >= 1 /\ Subsequence(X, y, dt, ndt), c, "Subsequence")
     /\ Chk(m >= 1 /\ RangePreserved(X, y), c, "RangePreserved")
     /\ Chk(m >= 1 /\ DurationWithinTwoSteps(X, y, dt, ndt), c, "DurationWithinTwoSteps")
     /\ Chk(EvenLength(y, even), c, "EvenLength")
     /\ Chk(Row[14 + 2 * m + 1] = 1 /\ FEq(ondt, ndt), c, "ObjArrayAgree")
=============================================================================

------------------------------- MODULE Peaks -------------------------------
(***************************************************************************)
(* C11 -- local-peak (turning point) detection.                            *)
(*                                                                         *)
(* Two readings of the property:                                           *)
(*  * declarative: Reported(s) = {0} \cup turning points \cup {first       *)
(*    sample of the final constant run}, a turning point being the first   *)
(*    sample of a plateau whose neighbours on both sides move away from it *)
(*    in the same direction (local extremum);                              *)
(*  * operational: a one-pass automaton that consumes one sample per step  *)
(*    and emits a turning point when the direction reverses.               *)
(* MC_Peaks checks on every series over a small alphabet that the two      *)
(* coincide and satisfy the clauses of the statement, and compares the     *)
(* implementation with them in lock-step.  Indices are 0-based as in the   *)
(* implementation; values are compared with Cmp (integers in the           *)
(* exhaustive instance, floats in traces).                                 *)
(***************************************************************************)
EXTENDS Integers, Sequences, FiniteSets

\* ---- the automaton --------------------------------------------------------
\* n     samples consumed; last = value of the last sample
\* dir   direction of the last strict movement (0 = none yet)
\* cand  index of the first sample of the current plateau (last index where the value changed)
\* d0    direction of the first strict movement (0 = none yet): decides the kind of index 0
\* emit  index emitted by the last step (-1 = none); ekind its kind ("max"/"min")
\* cnt   number of indices emitted so far (index 0 counts as emitted from the start)
PkStart(x) == [n |-> 1, last |-> x, dir |-> 0, cand |-> 0, d0 |-> 0, emit |-> -1, ekind |-> "none", cnt |-> 1]

\* sgn = sign(x - last) supplied by the caller (integer or float comparison)
PkStep(s, x, sgn) ==
  IF sgn = 0 THEN [s EXCEPT !.n = s.n + 1, !.emit = -1, !.ekind = "none"]
  ELSE LET turn == s.dir # 0 /\ sgn # s.dir
       IN [n |-> s.n + 1, last |-> x, dir |-> sgn, cand |-> s.n,
           d0 |-> IF s.d0 = 0 THEN sgn ELSE s.d0,
           emit |-> IF turn THEN s.cand ELSE -1,
           ekind |-> IF turn THEN (IF s.dir = 1 THEN "max" ELSE "min") ELSE "none",
           cnt |-> IF turn THEN s.cnt + 1 ELSE s.cnt]

\* kinds of the two end points (defined once the series is non-constant)
FirstKind(s) == IF s.d0 = 1 THEN "min" ELSE "max"
LastKind(s)  == IF s.dir = 1 THEN "max" ELSE "min"
NonConstant(s) == s.d0 # 0

\* ---- declarative twin (on a complete sequence xs, 1-based; Sgn(a, b) = sign(b - a)) ------------
\* index i (0-based) starts a plateau: i = 0 or xs differs from its predecessor
Starts(xs, i, Sgn(_, _)) == i = 0 \/ Sgn(xs[i], xs[i + 1]) # 0
\* first index after i (0-based) whose value differs from xs[i+1]; Len(xs) if none
NextDiff(xs, i, Sgn(_, _)) ==
  LET S == {k \in (i + 1)..(Len(xs) - 1) : Sgn(xs[i + 1], xs[k + 1]) # 0}
  IN IF S = {} THEN Len(xs) ELSE CHOOSE k \in S : \A m \in S : k <= m
\* i > 0 is a turning point: arrives moving one way, leaves (after its plateau) the other way
IsTurn(xs, i, Sgn(_, _)) ==
  /\ i > 0 /\ Sgn(xs[i], xs[i + 1]) # 0
  /\ LET k == NextDiff(xs, i, Sgn)
     IN k < Len(xs) /\ Sgn(xs[i + 1], xs[k + 1]) = -Sgn(xs[i], xs[i + 1])
FinalRunStart(xs, Sgn(_, _)) ==
  CHOOSE i \in 0..(Len(xs) - 1) :
     /\ Starts(xs, i, Sgn)
     /\ \A k \in (i + 1)..(Len(xs) - 1) : Sgn(xs[i + 1], xs[k + 1]) = 0
ReportedSet(xs, Sgn(_, _)) ==
  {0} \cup {i \in 1..(Len(xs) - 1) : IsTurn(xs, i, Sgn)} \cup {FinalRunStart(xs, Sgn)}
\* kind of a reported index: compare with the nearest differing neighbours (across plateaus)
IsMaxAt(xs, i, Sgn(_, _)) ==
  /\ i = 0 \/ Sgn(xs[i], xs[i + 1]) > 0
  /\ LET k == NextDiff(xs, i, Sgn) IN k = Len(xs) \/ Sgn(xs[i + 1], xs[k + 1]) < 0
IsMinAt(xs, i, Sgn(_, _)) ==
  /\ i = 0 \/ Sgn(xs[i], xs[i + 1]) < 0
  /\ LET k == NextDiff(xs, i, Sgn) IN k = Len(xs) \/ Sgn(xs[i + 1], xs[k + 1]) > 0

\* ---- the clauses of the statement, on any candidate list rep of 0-based indices ---------------
Ascending(rep) == \A k \in 1..(Len(rep) - 1) : rep[k] < rep[k + 1]
InRange(xs, rep) == \A k \in 1..Len(rep) : rep[k] \in 0..(Len(xs) - 1)
\* direction of segment k (between rep[k] and rep[k+1]): +1 / -1 if monotone and not flat, 0 if flat, 2 if not monotone
SegDir(xs, rep, k, Sgn(_, _)) ==
  LET D == {Sgn(xs[m + 1], xs[m + 2]) : m \in rep[k]..(rep[k + 1] - 1)} \ {0}
  IN IF D = {} THEN 0 ELSE IF Cardinality(D) = 1 THEN CHOOSE d \in D : TRUE ELSE 2
StatementClauses(xs, rep, Sgn(_, _)) ==
  /\ Len(rep) >= 2 /\ InRange(xs, rep) /\ Ascending(rep)
  /\ rep[1] = 0
  /\ rep[Len(rep)] = FinalRunStart(xs, Sgn)
  /\ \A k \in 2..Len(rep) : Starts(xs, rep[k], Sgn)        \* "first sample of a plateau"
  /\ \A k \in 1..(Len(rep) - 1) : SegDir(xs, rep, k, Sgn) \in {1, -1}
  /\ \A k \in 1..(Len(rep) - 2) : SegDir(xs, rep, k, Sgn) = -SegDir(xs, rep, k + 1, Sgn)

\* sorted sequence of a finite set of naturals
RECURSIVE SortedSeq(_)
SortedSeq(S) == IF S = {} THEN <<>>
                ELSE LET m == CHOOSE x \in S : \A y \in S : x <= y IN <<m>> \o SortedSeq(S \ {m})
=============================================================================

------------------------------- MODULE Surface -------------------------------
(***************************************************************************)
(* C19 -- surface energy of an up-going wave and its reflection, and the   *)
(* integer array-shifting helpers.                                         *)
(*                                                                         *)
(* For a record a[0..n-1], travel time tau and step dt the down-going wave *)
(* is the record delayed by s = 2 tau/dt samples (linearly interpolated    *)
(* for fractional s, zero outside the record); the acceleration at the     *)
(* depth is up*r_u - down*r_d (nodal surface) or up*r_u + down*r_d; the    *)
(* energy is E = V |V| / 2 with V the cumulative trapezoid of that         *)
(* acceleration.  A batch of travel times is padded to the largest whole   *)
(* delay of the batch.                                                     *)
(***************************************************************************)
EXTENDS FP, FPSeq, Integers, Sequences

\* value of the record (1-based sequence a) at fractional 0-based position p; zero outside [0, n-1]
At(a, p) ==
  LET n == Len(a) IN
  IF FLt(p, Zero) \/ FGt(p, FInt(n - 1)) THEN Zero
  ELSE LET i == FFloor(p) IN
       IF i >= n - 1 THEN a[n]
       ELSE LET f == FSub(p, FInt(i)) IN FAdd(a[i + 1], FMul(f, FSub(a[i + 2], a[i + 1])))

Shifts(tts, dt) == [k \in 1..Len(tts) |-> FDiv(FMul(Two, tts[k]), dt)]
MaxShift(tts, dt) == FTrunc(FMaxSeq(Shifts(tts, dt)))
\* acceleration series of row k (length n + MaxShift)
AccRow(a, dt, tts, k, nodal, ru, rd) ==
  LET n == Len(a)  m == n + MaxShift(tts, dt)  s == Shifts(tts, dt)[k]
  IN [j \in 1..m |->
        LET up == FMul(IF j <= n THEN a[j] ELSE Zero, ru)
            dn == FMul(At(a, FSub(FInt(j - 1), s)), rd)
        IN IF nodal THEN FAdd(FNeg(dn), up) ELSE FAdd(dn, up)]
Energy(acc, dt) == LET v == FCumTrap(acc, dt) IN [j \in 1..Len(acc) |-> FMul(Half, FMul(v[j], FAbs(v[j])))]
EnergyRow(a, dt, tts, k, nodal, ru, rd) == Energy(AccRow(a, dt, tts, k, nodal, ru, rd), dt)
CumAbs(e) == FCumSum([j \in 1..Len(e) |-> FAbs(FSub(e[j], IF j = 1 THEN Zero ELSE e[j - 1]))])

\* y is x moved by an integer number of samples s (zero filled, cropped to Len(y)), to tolerance tol
IsShiftOf(y, x, s, tol) ==
  \A j \in 1..Len(y) : Close(y[j], IF j - s >= 1 /\ j - s <= Len(x) THEN x[j - s] ELSE Zero, tol)

\* ---- integer shifting helpers ---------------------------------------------------
\* values placed at offset shifts[i] in row i of a zero matrix that spans all offsets
StartExtra(shifts) == LET m == CHOOSE v \in {shifts[i] : i \in 1..Len(shifts)} : \A i \in 1..Len(shifts) : v <= shifts[i]
                      IN IF m < 0 THEN -m ELSE 0
EndExtra(shifts) == LET m == CHOOSE v \in {shifts[i] : i \in 1..Len(shifts)} : \A i \in 1..Len(shifts) : v >= shifts[i]
                    IN IF m > 0 THEN m ELSE 0
Put2D(v, shifts, clip) ==
  LET n == Len(v)  se == StartExtra(shifts)  ee == EndExtra(shifts)
      lo == IF clip \in {"start", "both"} THEN se ELSE 0                 \* columns dropped in front
      hi == IF clip \in {"end", "both"} THEN ee ELSE 0                   \* columns dropped at the end
      w == n + se + ee - lo - hi
  IN [i \in 1..Len(shifts) |-> [c \in 1..w |->
        LET col == c + lo - 1 - se - shifts[i]      \* 0-based index into v
        IN IF col >= 0 /\ col < n THEN v[col + 1] ELSE Zero]]
Join(v, shifts, sub) ==       \* shifts >= 0
  LET p == Put2D(v, shifts, "none")  w == Len(v) + EndExtra(shifts)
  IN [i \in 1..Len(shifts) |-> [c \in 1..w |->
        LET a0 == IF c <= Len(v) THEN v[c] ELSE Zero
        IN IF sub THEN FAdd(FNeg(p[i][c]), a0) ELSE FAdd(p[i][c], a0)]]
=============================================================================

SPECIFICATION Spec
CONSTANT MaxLen = 6
CONSTANT NL = 5
INVARIANT AutomatonIsDeclarative
INVARIANT ModelSatisfiesStatement
INVARIANT KindsAreLocalExtrema
INVARIANT ClausesDetermineResult
INVARIANT Conforms
CHECK_DEADLOCK FALSE

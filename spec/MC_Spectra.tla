------------------------------ MODULE MC_Spectra ------------------------------
(***************************************************************************)
(* Tick instance of the branch rules of Spectra: dt = d ticks (d in 1..4), *)
(* shortest non-zero period t ticks growing 1..TMax one tick per step,     *)
(* min_dt_ratio q in {1, 2, 4, 8}.  Every combination of the PGA branch    *)
(* and the refinement rule is reached exactly (dt = d * 2^-7 s in the      *)
(* replay, so that T = 6 dt is hit exactly and < differs from <=).         *)
(* TABLE row ((d-1)*4 + qi - 1)*TMax + t: d, q, t, pga flag (pseudo S_a is  *)
(* exactly the PGA at T = t ticks), object flag (AccSignal.s_a is exactly  *)
(* the PGA for response_times = [T], min_dt_ratio = q).                    *)
(***************************************************************************)
EXTENDS Spectra, IOUtils, TLC, VerdictLib, TableIO

CONSTANTS TMax
Qs == <<1, 2, 4, 8>>
Tab == IntTable(IOEnv.TABLE_FILE)
VARIABLES d, qi, t
vars == <<d, qi, t>>
Init == d \in 1..4 /\ qi \in 1..4 /\ t = 1
Next == t < TMax /\ t' = t + 1 /\ UNCHANGED <<d, qi>>
Spec == Init /\ [][Next]_vars

q == Qs[qi]
k == KMinT(d, t, q)
\* the refined step is no coarser than the target: d/k <= max(t/20, d/q)
StepRule == 20 * d <= k * t \/ q <= k
\* and k is the least such factor
Minimal == k = 1 \/ ~(20 * d <= (k - 1) * t \/ q <= k - 1)
KRange == 1 <= k /\ k <= q

Row == Tab[((d - 1) * 4 + qi - 1) * TMax + t]
Code == ((d - 1) * 4 + qi - 1) * TMax + t
Conforms ==
  /\ Chk(Row[1] = d /\ Row[2] = q /\ Row[3] = t, Code, "TableIndex")
  /\ Chk((Row[4] = 1) = PgaBranchT(d, t), Code, "PgaBelow6dt")
  \* the object integrates at dt/kobj for some kobj in [k, 2k+2] (the statement bounds the step, it does not fix
  \* it) and applies the 6-step rule at that step:  flag => k t < 6 d ;  no flag => (2k+2) t >= 6 d
  /\ Chk((Row[5] = 1) => k * t < 6 * d, Code, "ObjectPgaRule")
  /\ Chk((Row[5] = 0) => (2 * k + 2) * t >= 6 * d, Code, "ObjectPgaRule")
=============================================================================

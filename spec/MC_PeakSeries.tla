---------------------------- MODULE MC_PeakSeries ----------------------------
(***************************************************************************)
(* Exhaustive instance of PeakSeries: every non-constant series over the   *)
(* integers -2..2 up to MaxLen samples, also shifted by +4 and -3; all     *)
(* conservation laws are exact integer identities here.                    *)
(* TABLE row: code, n, then 6n floats: delta and pseudo-cyclic series for  *)
(* offsets 0, +4, -3; then K, sw[K] (switched peaks reported for xs);      *)
(* then ncyc(b=1), amp(b=1), ncyc(b=1/2), amp(b=1/2) final values          *)
(* (a_ref = 2, n_cyc = 4, cut_off = 0); then the b = 1/2 series (2n floats)*)
(***************************************************************************)
EXTENDS PeakSeries, IOUtils, TLC, VerdictLib, TableIO

CONSTANTS MaxLen
NL == 5
Tab == IntTable(IOEnv.TABLE_FILE)
VARIABLES xs, code
vars == <<xs, code>>
Init == xs = <<>> /\ code = 0
Sample(k) == Len(xs) < MaxLen /\ xs' = Append(xs, FInt(k - 3)) /\ code' = code * NL + k
Next == \E k \in 1..NL : Sample(k)
Spec == Init /\ [][Next]_vars

n == Len(xs)
FSgn(a, b) == FSign(FSub(b, a))
NonConst == n >= 2 /\ \E j \in 2..n : ~FEq(xs[j], xs[1])
Row == Tab[code]
Ser(which) == [j \in 1..n |-> FloatAt(Row, 2, (which - 1) * n + j)]     \* which = 1..6
K == Row[2 + 12 * n + 1]
Sw == [k \in 1..K |-> Row[2 + 12 * n + 1 + k]]
O2 == 2 + 12 * n + 1 + K
G(k) == FloatAt(Row, O2, k)
Shifted(c) == [j \in 1..n |-> FAdd(xs[j], c)]
SeqEq(a, b) == Len(a) = Len(b) /\ \A j \in 1..Len(a) : FEq(a[j], b[j])
Tol == FStr("1e-12")

Conforms == NonConst =>
  LET d == Ser(1)  p == Ser(2)
      aref == Two  ncyc == FInt(4)
      near(x, y) == CloseRel(x, y, Tol, FAbs(y), FStr("1e-300"))
      ncs == [j \in 1..n |-> G(4 + j)]  ams == [j \in 1..n |-> G(4 + n + j)]
  IN /\ Chk(Row[1] = code /\ Row[2] = n, code, "TableIndex")
     /\ Chk(DeltaSupport(xs, d, FSgn), code, "DeltaSupport")
     /\ Chk(DeltaAbsSumIsTV(xs, d, Zero), code, "DeltaAbsSumIsTV")
     /\ Chk(DeltaSignedSum(xs, d, Zero), code, "DeltaSignedSum")
     /\ Chk(PseudoCyclicSum(xs, p, Zero, FSgn), code, "PseudoCyclicSum")
     /\ Chk(SeqEq(Ser(3), d) /\ SeqEq(Ser(5), d) /\ SeqEq(Ser(4), p) /\ SeqEq(Ser(6), p), code, "ShiftInvariant")
     /\ Chk(near(G(1), NCycFinal(xs, Sw, aref, One, Zero)) /\ near(G(3), NCycFinal(xs, Sw, aref, Half, Zero)), code, "PLCycles")
     /\ Chk(near(G(2), AmpFinal(xs, Sw, ncyc, One)) /\ near(G(4), AmpFinal(xs, Sw, ncyc, Half)), code, "PLAmplitude")
     /\ Chk(NonDecreasing(ncs, Zero) /\ NonDecreasing(ams, Zero) /\ FEq(ncs[n], G(3)) /\ FEq(ams[n], G(4)), code, "PLMonotone")

\* a property of the model itself: the inverse law (cut_off = 0: the amplitude for N = NCyc(aref) is aref)
InverseLaw == (NonConst /\ K >= 1 /\ \E k \in 1..K : ~FEq(xs[Sw[k] + 1], Zero)) =>
  \A b \in {One, Half, Quarter} :
     LET N == NCycFinal(xs, Sw, Two, b, Zero) IN CloseRel(AmpFinal(xs, Sw, N, b), Two, Tol, Two, Zero)
=============================================================================

------------------------------ MODULE MC_Helpers ------------------------------
(***************************************************************************)
(* Exhaustive instance: every series over the integers -2..2 up to MaxLen  *)
(* samples; every window size 1..n in three modes; powers 1 and 2; every   *)
(* split.  TABLE row: code, n, then                                        *)
(*   3*n*n floats  calc_roll_av_vals(steps = 1..n) forward, backward, centre*)
(*   2*n floats    calc_step_fn_vals_error pow = 1, 2 (float input)        *)
(*   2*n floats    the same with the series given as integers (int array   *)
(*                 or list of ints, alternating)                           *)
(*   2*(n-2) floats calc_step_fn_steps_vals(ind = 1..n-2) (pre, post)      *)
(* Properties of the definitions: constants are preserved, a window of 1   *)
(* is the identity, the error is non-negative and zero for a perfect step. *)
(***************************************************************************)
EXTENDS Helpers, IOUtils, TLC, VerdictLib, TableIO

CONSTANTS MaxLen
NL == 5
Tab == IntTable(IOEnv.TABLE_FILE)
VARIABLES xs, code
vars == <<xs, code>>
Init == xs = <<>> /\ code = 0
Sample(k) == Len(xs) < MaxLen /\ xs' = Append(xs, FInt(k - 3)) /\ code' = code * NL + k
Next == \E k \in 1..NL : Sample(k)
Spec == Init /\ [][Next]_vars

n == Len(xs)
Modes == <<"forward", "backward", "centre">>
Tol == FStr("1e-12")
Near(a, b) == CloseRel(a, b, Tol, FAbs(b), Tol)

\* properties of the definitions
IsConst == n >= 1 /\ \A j \in 1..n : FEq(xs[j], xs[1])
ConstPreserved == IsConst => \A m \in 1..3 : \A s \in 1..n : \A i \in 1..n : FEq(RollAv(xs, s, Modes[m])[i], xs[1])
WindowOneIdentity == n >= 1 => \A m \in 1..3 : \A i \in 1..n : FEq(RollAv(xs, 1, Modes[m])[i], xs[i])
ErrNonNeg == n >= 1 => \A p \in {1, 2} : \A i \in 1..n : FLe(Zero, StepErr(xs, i, p))
PerfectStepZero == n >= 2 => \A i \in 1..(n - 1) :
   ((\A j \in 1..i : FEq(xs[j], xs[1])) /\ (\A j \in (i + 1)..n : FEq(xs[j], xs[n]))) => FEq(StepErr(xs, i, 1), Zero)

Row == Tab[code]
F(k) == FloatAt(Row, 2, k)
Conforms == n >= 3 =>
  /\ Chk(Row[1] = code /\ Row[2] = n /\ Len(Row) = 2 + 2 * (3 * n * n + 4 * n + 2 * (n - 2)), code, "TableIndex")
  /\ Chk(\A m \in 1..3 : \A s \in 1..n : \A i \in 1..n :
           Near(F((m - 1) * n * n + (s - 1) * n + i), RollAv(xs, s, Modes[m])[i]), code, "RollAv")
  /\ Chk(\A i \in 1..n : Near(F(3 * n * n + i), StepErr(xs, i, 1)), code, "StepErr_pow1")
  /\ Chk(\A i \in 1..n : Near(F(3 * n * n + n + i), StepErr(xs, i, 2)), code, "StepErr_pow2")
  \* integer input: must equal the definition too (known finding: the result is truncated towards zero) ...
  /\ Chk(\A i \in 1..n : Near(F(3 * n * n + 2 * n + i), StepErr(xs, i, 1)), code, "StepErrIntInput_pow1")
  /\ Chk(\A i \in 1..n : Near(F(3 * n * n + 3 * n + i), StepErr(xs, i, 2)), code, "StepErrIntInput_pow2")
  \* ... and whatever it is, it must be the definition truncated towards zero, nothing else
  /\ Chk(\A p \in {1, 2} : \A i \in 1..n :
           LET y == F(3 * n * n + (1 + p) * n + i)  ref == StepErr(xs, i, p)
           IN Near(y, ref) \/ (/\ FEq(y, FInt(FTrunc(y))) /\ FLe(y, FAdd(ref, FStr("1e-9")))
                                /\ FLt(FSub(ref, y), FAdd(One, FStr("1e-9")))), code, "StepErrIntInputNotTruncation")
  /\ Chk(\A ind \in 1..(n - 2) : /\ Near(F(3 * n * n + 4 * n + 2 * (ind - 1) + 1), StepLevels(xs, ind)[1])
                                 /\ Near(F(3 * n * n + 4 * n + 2 * (ind - 1) + 2), StepLevels(xs, ind)[2]), code, "StepLevels")
=============================================================================

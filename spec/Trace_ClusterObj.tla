--------------------------- MODULE Trace_ClusterObj ---------------------------
(***************************************************************************)
(* Trace validation of whole sessions on real eqsig.Cluster objects        *)
(* against ClusterObj (code -> spec).  One session per line: tid, events;  *)
(* the model's state (sigs, master) is CARRIED by the specification from   *)
(* event to event -- an operation is judged against what the model says    *)
(* the cluster holds, not against a `before` the harness logged, so that   *)
(* anything the implementation remembers between calls (a section average, *)
(* the master's name, a component's memoised quantities) shows up.         *)
(*   construct   : sigs, dt, master                                        *)
(*   set_master  : m                                                       *)
(*   time_match  : st, after (k records), arr (all numeric arrays?)        *)
(*   same_start  : s, e, after, arr         (samples s+1..e)               *)
(*   comp_add    : i, c, after (record i)   comp_reset : i, vals           *)
(*   havoc       : name, after (k records)  (combine_motions: two of the   *)
(*                 components are Butterworth-filtered in place)           *)
(*   read        : i, what, k, val          a component's derived quantity *)
(*   cread       : what, i, k, val          a read through the cluster     *)
(* Clauses.  C18: LengthsUnchanged, ValuesStayArrays, MasterUnchanged,     *)
(* LagRemoved, SameStartAligned.  C04 (the components are Signal /         *)
(* AccSignal objects whose values the cluster replaces): Read_<what>,      *)
(* ClusterRead_<what>.  Def_comp_add is the model's own bookkeeping.       *)
(***************************************************************************)
EXTENDS ClusterObj, SignalObj, Json, IOUtils, VerdictLib

Recs == ndJsonDeserialize(IOEnv.TRACE_FILE)
VARIABLES tid, l, sigs, master, dt, bad
vars == <<tid, l, sigs, master, dt, bad>>
R == Recs[tid]
N == Len(R.events)
St == [sigs |-> sigs, master |-> master]
Init == tid \in 1..Len(Recs) /\ l = 0 /\ sigs = <<>> /\ master = 1 /\ dt = One /\ bad = {}

Rel == FStr("1e-12")
SeqNear(a, b, tol) == Len(a) = Len(b) /\ \A j \in 1..Len(a) : Close(a[j], b[j], tol)
Shape(after) == Len(after) = Len(sigs) /\ \A i \in 1..Len(sigs) : Len(after[i]) = Len(sigs[i])

\* lags whose residual is within 1e-9 (relative) of the smallest: any of them may have been removed
NearBest(i, st) ==
  LET best == CHOOSE L \in BestLags(sigs[i], sigs[master], st) : TRUE
      b == SSR(sigs[i], sigs[master], best, st)
  IN {L \in Lags(st) : FLe(SSR(sigs[i], sigs[master], L, st), FAdd(FMul(b, FStr("1.000000001")), FStr("1e-300")))}

TimeMatchClauses(e) ==
  IF ~Shape(e.after) THEN {"LengthsUnchanged"}
  ELSE Fails(e.arr, "ValuesStayArrays")
       \cup Fails(SeqEq(e.after[master], sigs[master]), "MasterUnchanged")
       \cup Fails(\A i \in Others(St) : \E L \in NearBest(i, e.st) : SeqEq(e.after[i], Shift(sigs[i], L)), "LagRemoved")

SameStartClauses(e) ==
  IF ~Shape(e.after) THEN {"LengthsUnchanged"}
  ELSE LET tol(i) == FMul(Rel, FAdd(FAdd(FMaxAbs(sigs[i]), FMaxAbs(sigs[master])), FStr("1e-300")))
       IN Fails(e.arr, "ValuesStayArrays")
          \cup Fails(SeqEq(e.after[master], sigs[master]), "MasterUnchanged")
          \cup Fails(\A i \in Others(St) :
                        /\ Close(Avg(e.after[i], e.s, e.e), Avg(sigs[master], e.s, e.e), tol(i))
                        /\ SeqNear(e.after[i], SameStartOf(sigs[i], sigs[master], e.s, e.e), tol(i)), "SameStartAligned")

ClusterReadOK(e) ==
  LET x == e.val[1]  w == e.what
  IN CASE w = "n_signals" -> FEq(x, FInt(Len(sigs)))
       [] w = "values_by_index" -> e.i <= Len(sigs) /\ e.k < Len(sigs[e.i]) /\ FEq(x, sigs[e.i][e.k + 1])
       [] w = "values_by_name" -> e.i <= Len(sigs) /\ e.k < Len(sigs[e.i]) /\ FEq(x, sigs[e.i][e.k + 1])
       [] w = "time_last" -> Close(x, TimeLast(sigs[1], dt), FMul(FStr("1e-12"), FAdd(FMul(FInt(Len(sigs[1])), dt), FStr("1e-300"))))
       [] w = "master_values" -> e.k < Len(sigs[master]) /\ FEq(x, sigs[master][e.k + 1])
       [] OTHER -> FALSE

Step ==
  /\ l >= 0 /\ l < N /\ l' = l + 1 /\ tid' = tid
  /\ LET e == R.events[l + 1]  op == e.op IN
     CASE op = "construct" -> sigs' = e.sigs /\ master' = e.master /\ dt' = e.dt /\ bad' = bad
       [] op = "set_master" -> sigs' = sigs /\ master' = e.m /\ dt' = dt /\ bad' = bad
       [] op = "time_match" ->
            /\ master' = master /\ dt' = dt /\ bad' = bad \cup TimeMatchClauses(e)
            /\ sigs' = (IF Shape(e.after) THEN e.after ELSE sigs)
       [] op = "same_start" ->
            /\ master' = master /\ dt' = dt /\ bad' = bad \cup SameStartClauses(e)
            /\ sigs' = (IF Shape(e.after) THEN e.after ELSE sigs)
       [] op = "comp_add" ->
            /\ master' = master /\ dt' = dt
            /\ sigs' = [sigs EXCEPT ![e.i] = e.after]
            /\ bad' = bad \cup Fails(SeqNear(e.after, CompAddOf(St, e.i, e.c).sigs[e.i], FMul(Rel, FAdd(FMaxAbs(e.after), FStr("1e-300")))), "Def_comp_add")
       [] op = "comp_reset" -> master' = master /\ dt' = dt /\ sigs' = [sigs EXCEPT ![e.i] = e.vals] /\ bad' = bad
       [] op = "havoc" ->
            /\ master' = master /\ dt' = dt /\ sigs' = (IF Shape(e.after) THEN e.after ELSE sigs)
            /\ bad' = bad \cup Fails(Shape(e.after), "Havoc_" \o e.name \o "_length")
       [] op = "read" ->
            /\ UNCHANGED <<sigs, master, dt>>
            /\ bad' = bad \cup Fails(e.i <= Len(sigs) /\ ReadValueOK(sigs[e.i], dt, e), "Read_" \o e.what)
       [] op = "cread" -> UNCHANGED <<sigs, master, dt>> /\ bad' = bad \cup Fails(ClusterReadOK(e), "ClusterRead_" \o e.what)
       [] OTHER -> UNCHANGED <<sigs, master, dt>> /\ bad' = bad \cup {"UnknownOp"}
Finish == l = N /\ l' = -1 /\ UNCHANGED <<tid, sigs, master, dt, bad>>
Next == Step \/ Finish
Spec == Init /\ [][Next]_vars
Verdict == l = -1 => EmitVerdict(R.tid, bad, N)
=============================================================================

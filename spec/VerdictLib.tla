----------------------------- MODULE VerdictLib -----------------------------
(***************************************************************************)
(* Verdict protocol shared by all trace specifications and lock-step       *)
(* tables (DESIGN.md section 3):                                           *)
(*   <<"VERDICT", tid, "clause,clause", nsteps>>   one per validated chain *)
(*   <<"MISMATCH", code, "clause">>               lock-step disagreement  *)
(* Verdicts are total: a chain never just gets stuck; the set of failed    *)
(* clause names is accumulated and printed at the end of the chain.        *)
(***************************************************************************)
EXTENDS FiniteSetsExt, TLC, Sequences

\* {} when ok, {name} otherwise
Fails(ok, name) == IF ok THEN {} ELSE {name}

ToStr(S) == FoldSet(LAMBDA c, acc : IF acc = "" THEN c ELSE acc \o "," \o c, "", S)

EmitVerdict(tid, bad, nsteps) == PrintT(<<"VERDICT", tid, ToStr(bad), nsteps>>)
EmitMismatch(code, clause)    == PrintT(<<"MISMATCH", code, clause>>)

\* ok \/ print: never stops the run
Chk(ok, code, clause) == ok \/ EmitMismatch(code, clause)
=============================================================================

------------------------------ MODULE Ownership ------------------------------
(***************************************************************************)
(* C05 -- a signal object owns its data.                                   *)
(*                                                                         *)
(* A tiny heap: the object's value buffer is either a buffer the object    *)
(* allocated itself (address 0) or one of the caller's containers          *)
(* (addresses 1..NC).  Construction and value replacement take a caller    *)
(* container; some mutators write THROUGH the buffer (in place), the       *)
(* others allocate; the caller may write into its own containers at any    *)
(* time.                                                                   *)
(*   buf            address of the object's value buffer                   *)
(*   vtype          container type of the object's values                  *)
(*   callerTouched  caller containers an operation on the object wrote to  *)
(*   objectTouched  a caller write changed the object's values             *)
(* AsFound = TRUE models reset_values as found at the pinned commit        *)
(* (stores the caller's reference and container type); TLC then returns    *)
(* Reset(k); InPlace -> caller's array modified.                           *)
(* Emit prints every generated transition for the lock-step walk.          *)
(***************************************************************************)
EXTENDS Integers, Sequences, TLC

CONSTANTS Kind, AsFound, Emit

NC == 2                                   \* caller containers: 1 = float ndarray, 2 = list of floats
CType == <<"ndarray", "list">>

VARIABLES buf, vtype, callerTouched, objectTouched
vars == <<buf, vtype, callerTouched, objectTouched>>

InPlaceSig == {"running_average"}
InPlaceAccOnly == {"remove_rolling_average_acc", "rebase_displacement", "set_zero_residual_velocity",
                   "set_zero_residual_displacement", "set_zero_residual_displacement_and_velocity",
                   "set_zero_residual_dv_timezone"}       \* (the same correction confined to a time window)
InPlaceOps == IF Kind = "AccSignal" THEN InPlaceSig \cup InPlaceAccOnly ELSE InPlaceSig
FuncSig == {"add_constant", "add_series", "add_signal", "butter_pass", "remove_average", "remove_poly", "reset_temp"}
FuncAccOnly == {"correct_me", "remove_rolling_average_velocity"}
FuncOps == IF Kind = "AccSignal" THEN FuncSig \cup FuncAccOnly ELSE FuncSig
\* (reset_rejected: reset_values with something that cannot become a record -- the call raises and must leave the object as it was)
\* (write_into_time: the caller edits, in place, the array that reading `time` returned -- a returned array is the caller's)
ReadOps == {"read_values", "read_derived", "reset_rejected", "write_into_time"}

OpName(o, k) == IF k = 0 THEN o ELSE o \o (IF k = 1 THEN "_1" ELSE "_2")

Init == buf = 0 /\ vtype = "ndarray" /\ callerTouched = {} /\ objectTouched = FALSE

EmitE(o, b2, v2, c2, o2) ==
  Emit => PrintT(<<"E", TLCGet("level"), <<buf, IF vtype = "ndarray" THEN 0 ELSE 1>>, o, <<b2, IF v2 = "ndarray" THEN 0 ELSE 1>>>>)

\* a new object built from caller container k: the constructor copies
Construct(k) == /\ buf' = 0 /\ vtype' = "ndarray" /\ UNCHANGED <<callerTouched, objectTouched>>
                /\ EmitE(OpName("construct", k), 0, "ndarray", callerTouched, objectTouched)

\* reset_values(caller container k)
Reset(k) == LET b2 == IF AsFound THEN k ELSE 0
                v2 == IF AsFound THEN CType[k] ELSE "ndarray"
            IN /\ buf' = b2 /\ vtype' = v2 /\ UNCHANGED <<callerTouched, objectTouched>>
               /\ EmitE(OpName("reset", k), b2, v2, callerTouched, objectTouched)

\* mutators that write through the buffer
InPlace(m) == /\ buf' = buf /\ vtype' = vtype /\ objectTouched' = objectTouched
              /\ callerTouched' = IF buf # 0 THEN callerTouched \cup {buf} ELSE callerTouched
              /\ EmitE(m, buf, vtype, callerTouched', objectTouched)

\* mutators that allocate a new buffer (and end in reset_values(new array))
Functional(m) == LET v2 == "ndarray" IN
              /\ buf' = 0 /\ vtype' = v2 /\ UNCHANGED <<callerTouched, objectTouched>>
              /\ EmitE(m, 0, v2, callerTouched, objectTouched)

\* the caller writes into its own container k
CallerWrite(k) == /\ UNCHANGED <<buf, vtype, callerTouched>>
                  /\ objectTouched' = (objectTouched \/ buf = k)
                  /\ EmitE(OpName("caller_write", k), buf, vtype, callerTouched, objectTouched')

Read(r) == UNCHANGED vars /\ EmitE(r, buf, vtype, callerTouched, objectTouched)

Next == \/ \E k \in 1..NC : Construct(k) \/ Reset(k) \/ CallerWrite(k)
        \/ \E m \in InPlaceOps : InPlace(m)
        \/ \E m \in FuncOps : Functional(m)
        \/ \E r \in ReadOps : Read(r)
Spec == Init /\ [][Next]_vars

NoAlias == buf = 0
CallerIntact == callerTouched = {}
ObjectIntact == ~objectTouched
ValuesNumericArray == vtype = "ndarray"
=============================================================================

------------------------------ MODULE SignalObj ------------------------------
(***************************************************************************)
(* The concrete signal object (growth of the specification beyond the      *)
(* listed properties, DESIGN.md section 7/8): where SignalCache abstracts  *)
(* the memo state to fresh/stale bits, SignalObj carries the VALUES.       *)
(*                                                                         *)
(*   vals   the record the object holds (sequence of floats)               *)
(*   dt     its time step                                                  *)
(* One action per public operation; a READ action states what the call     *)
(* must return, computed from vals by the L1 kernels (Integrate,           *)
(* Intensity, Fourier, Filter) -- not by a second object of the library.   *)
(* A recorded session (Trace_SignalObj) is accepted iff every logged event *)
(* is the model's action for that operation and every logged result equals *)
(* the model's value: staleness, aliasing and wrong formulas all show up   *)
(* as a value mismatch at the first read that observes them.               *)
(*                                                                         *)
(* Operations whose result the kernels do not define in closed form        *)
(* (Butterworth filtering, least-squares detrending, the residual          *)
(* corrections) are HAVOC steps: the logged new record becomes the model's *)
(* record, constrained by the clauses the properties give (same length;    *)
(* for detrending: the difference is a polynomial and the residual is      *)
(* orthogonal to 1, t, .., t^k).                                           *)
(***************************************************************************)
EXTENDS Integrate, Intensity, Fourier, Filter, Spectra

\* ---- what the reads must return -----------------------------------------------
Npts(v) == Len(v)
TimeLast(v, h) == FMul(FInt(Len(v) - 1), h)
Pga(v) == FMaxAbs(v)
Motion(v, h) == TrapRun(v, h)                   \* .v, .d: last velocity / displacement; .pv, .pd: peaks
AriasFinal(v, h) == Arias(ImRun(v, h))
CavFinal(v, h) == ImRun(v, h).cav
\* Fourier amplitude spectrum, bin k (0-based), default padding
FasBinOf(v, h, k) == LET N == NextPow2(Len(v)) IN FasBin(v, h, N, Twiddles(N), k)
FasFreqOf(v, h, k) == Freq(k, NextPow2(Len(v)), h)
FasBins(v) == Bins(NextPow2(Len(v)))

\* ---- a logged read e = [what, k, val] of an object holding record v with time step h ----------
\* (val = <<re, im>> for "fas", else <<x, 0>>); shared by Trace_SignalObj and Trace_ClusterObj
ReadValueOK(v, h, e) ==
  LET x == e.val[1]  w == e.what
      S == FAdd(FMaxAbs(v), FStr("1e-300"))
      T == FMul(FInt(Len(v)), h)
      Rel == FStr("1e-9")
  IN CASE w = "npts" -> FEq(x, FInt(Npts(v)))
       [] w = "time_last" -> Close(x, TimeLast(v, h), FMul(FStr("1e-12"), FAdd(T, FStr("1e-300"))))
       [] w = "values_k" -> e.k < Len(v) /\ FEq(x, v[e.k + 1])
       [] w = "pga" -> FEq(x, Pga(v))
       [] w = "pgv" -> Close(x, Motion(v, h).pv, FMul(Rel, FMul(S, T)))
       [] w = "pgd" -> Close(x, Motion(v, h).pd, FMul(Rel, FMul(S, FSq(T))))
       [] w = "velocity_last" -> Close(x, Motion(v, h).v, FMul(Rel, FMul(S, T)))
       [] w = "displacement_last" -> Close(x, Motion(v, h).d, FMul(Rel, FMul(S, FSq(T))))
       [] w = "arias_last" -> Close(x, AriasFinal(v, h), FMul(Rel, FMul(FSq(S), T)))
       [] w = "cav_last" -> Close(x, CavFinal(v, h), FMul(Rel, FMul(S, T)))
       [] w = "fas_bins" -> FEq(x, FInt(FasBins(v)))
       [] w = "fas" -> e.k < FasBins(v) /\ CClose(e.val, FasBinOf(v, h, e.k), FMul(FMul(Rel, h), FAdd(FSumAbs(v), FStr("1e-300"))))
       [] w = "fas_freq" -> e.k < FasBins(v) /\ CloseRel(x, FasFreqOf(v, h, e.k), FStr("1e-12"), FAbs(x), Zero)
       [] OTHER -> FALSE

\* ---- response spectra read lazily (default damping 0.05, min_dt_ratio 4) for period index k (0-based) of the period list rt
DefaultXi == FStr("0.05")
RtMin(rt) == IF FEq(rt[1], Zero) THEN rt[2] ELSE rt[1]
ReadSpectrumOK(v, h, rt, k, sd, sa) ==
  /\ k < Len(rt)
  /\ (IF FEq(rt[k + 1], Zero) THEN FEq(sd, Zero) /\ FEq(sa, FMaxAbs(v))
      ELSE ObjectSpectrumOK(v, h, DefaultXi, 4, RtMin(rt), rt[k + 1], sd, sa))

\* ---- the operations -----------------------------------------------------------------
AddConst(v, c) == [j \in 1..Len(v) |-> FAdd(v[j], c)]
AddSeq(v, s) == [j \in 1..Len(v) |-> FAdd(v[j], s[j])]
\* remove_average(): the library's default section excludes the last sample
RemoveAverageDefault(v) == LET m == FMean(SubSeq(v, 1, Len(v) - 1)) IN [j \in 1..Len(v) |-> FSub(v[j], m)]
\* rebase_displacement(): a constant acceleration 2 d_end/(dt npts) is removed
Rebase(v, h) == LET c == FDiv(FMul(Two, Motion(v, h).d), FMul(h, FInt(Len(v)))) IN [j \in 1..Len(v) |-> FSub(v[j], c)]
\* detrending clauses for a havoc step from v to w with degree k
DetrendOK(v, w, k, tol) ==
  LET n == Len(v)  diff == [j \in 1..n |-> FSub(v[j], w[j])]
  IN /\ Len(w) = n
     /\ (n <= k + 1 \/ (LET dd == Diff(diff, k + 1) IN \A j \in 1..(n - k - 1) : Close(dd[j], Zero, FMul(tol, FInt(32)))))
     /\ \A p \in 0..k : Close(Moment(w, p), Zero, FMul(tol, FInt(n)))
=============================================================================

------------------------------ MODULE SignalObj ------------------------------
(***************************************************************************)
(* The concrete signal object (growth of the specification beyond the      *)
(* listed properties, DESIGN.md section 7/8): where SignalCache abstracts  *)
(* the memo state to fresh/stale bits, SignalObj carries the VALUES.       *)
(*                                                                         *)
(*   vals   the record the object holds (sequence of floats)               *)
(*   dt     its time step                                                  *)
(* One action per public operation; a READ action states what the call     *)
(* must return, computed from vals by the L1 kernels (Integrate,           *)
(* Intensity, Fourier, Filter) -- not by a second object of the library.   *)
(* A recorded session (Trace_SignalObj) is accepted iff every logged event *)
(* is the model's action for that operation and every logged result equals *)
(* the model's value: staleness, aliasing and wrong formulas all show up   *)
(* as a value mismatch at the first read that observes them.               *)
(*                                                                         *)
(* Operations whose result the kernels do not define in closed form        *)
(* (Butterworth filtering, least-squares detrending, the residual          *)
(* corrections) are HAVOC steps: the logged new record becomes the model's *)
(* record, constrained by the clauses the properties give (same length;    *)
(* for detrending: the difference is a polynomial and the residual is      *)
(* orthogonal to 1, t, .., t^k).                                           *)
(***************************************************************************)
EXTENDS Integrate, Intensity, Fourier, Filter

\* ---- what the reads must return -----------------------------------------------
Npts(v) == Len(v)
TimeLast(v, h) == FMul(FInt(Len(v) - 1), h)
Pga(v) == FMaxAbs(v)
Motion(v, h) == TrapRun(v, h)                   \* .v, .d: last velocity / displacement; .pv, .pd: peaks
AriasFinal(v, h) == Arias(ImRun(v, h))
CavFinal(v, h) == ImRun(v, h).cav
\* Fourier amplitude spectrum, bin k (0-based), default padding
FasBinOf(v, h, k) == LET N == NextPow2(Len(v)) IN FasBin(v, h, N, Twiddles(N), k)
FasFreqOf(v, h, k) == Freq(k, NextPow2(Len(v)), h)
FasBins(v) == Bins(NextPow2(Len(v)))

\* ---- the operations -----------------------------------------------------------------
AddConst(v, c) == [j \in 1..Len(v) |-> FAdd(v[j], c)]
AddSeq(v, s) == [j \in 1..Len(v) |-> FAdd(v[j], s[j])]
\* remove_average(): the library's default section excludes the last sample
RemoveAverageDefault(v) == LET m == FMean(SubSeq(v, 1, Len(v) - 1)) IN [j \in 1..Len(v) |-> FSub(v[j], m)]
\* rebase_displacement(): a constant acceleration 2 d_end/(dt npts) is removed
Rebase(v, h) == LET c == FDiv(FMul(Two, Motion(v, h).d), FMul(h, FInt(Len(v)))) IN [j \in 1..Len(v) |-> FSub(v[j], c)]
\* detrending clauses for a havoc step from v to w with degree k
DetrendOK(v, w, k, tol) ==
  LET n == Len(v)  diff == [j \in 1..n |-> FSub(v[j], w[j])]
  IN /\ Len(w) = n
     /\ (n <= k + 1 \/ (LET dd == Diff(diff, k + 1) IN \A j \in 1..(n - k - 1) : Close(dd[j], Zero, FMul(tol, FInt(32)))))
     /\ \A p \in 0..k : Close(Moment(w, p), Zero, FMul(tol, FInt(n)))
=============================================================================

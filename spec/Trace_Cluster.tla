---------------------------- MODULE Trace_Cluster ----------------------------
(***************************************************************************)
(* Trace validation for C18 on real-valued data.  One record per line:     *)
(*  kind "combine": dt, ns[], we[], theta, out[], out180[] (theta + 180)   *)
(*  kind "scan":    dt, ns[], we[], off, points, measure, angles[], vals[] *)
(*       measure in {"pga", "pgv", "arias", "cav_series"}                  *)
(*  kind "cluster": k, n, master, steps, s, e, v0, v1, v2 (signals before, *)
(*       after time_match, after a following same_start), arr1, arr2       *)
(*       (is every values container a numeric ndarray of length n)         *)
(* Events are consumed one per step: a scan has one event per angle, a     *)
(* cluster record the events time_match and same_start.                    *)
(***************************************************************************)
EXTENDS Cluster, Integrate, Json, IOUtils, TLC, VerdictLib

Recs == ndJsonDeserialize(IOEnv.TRACE_FILE)

VARIABLES tid, l, bad
vars == <<tid, l, bad>>
R == Recs[tid]
N == IF R.kind = "scan" THEN R.points ELSE IF R.kind = "cluster" THEN 2 ELSE 1

Init == tid \in 1..Len(Recs) /\ l = 0 /\ bad = {}

Rel == FStr("1e-12")
Scale2(a, b) == FAdd(FMaxAbs(a), FMaxAbs(b))
SeqNear(a, b, tol) == Len(a) = Len(b) /\ \A j \in 1..Len(a) : Close(a[j], b[j], tol)

\* --- combine -----------------------------------------------------------------
CombineStep ==
  LET ref == Combine(R.ns, R.we, R.theta)
      tol == FMul(Rel, Scale2(R.ns, R.we))
      special == IF FEq(R.theta, Zero) THEN SeqNear(R.out, R.ns, tol)
                 ELSE IF FEq(R.theta, FInt(90)) THEN SeqNear(R.out, R.we, tol) ELSE TRUE
  IN Fails(SeqNear(R.out, ref, tol), "CombineDef")
     \cup Fails(special /\ SeqNear(R.out180, FScale(FInt(-1), R.out), tol), "CombineSpecialAngles")

\* --- scan: event i (1-based) ----------------------------------------------------
G == FStr("9.81")
Measure(a, dt, m) ==
  IF m = "pga" THEN FMaxAbs(a)
  ELSE IF m = "pgv" THEN TrapRun(a, dt).pv
  ELSE IF m = "arias" THEN FMul(FDiv(Pi, FMul(Two, G)), FCumTrap(FMap(FSq, a), dt)[Len(a)])
  ELSE FCumTrap(FMap(FAbs, a), dt)[Len(a)]           \* "cav_series": last element of the CAV series
ScanStep(i) ==
  LET ang == ScanAngle(R.off, R.points, i - 1)
      okAng == Len(R.angles) = R.points /\ Len(R.vals) = R.points /\ Close(R.angles[i], ang, FStr("1e-9"))
      comb == Combine(R.ns, R.we, R.angles[i])
      ref == Measure(comb, R.dt, R.measure)
      \* size of the measure for this pair of components: the measure of |ns| + |we| (the combination's coefficients
      \* are bounded by 1).  Tolerances are relative to it, not to the value itself, which may cancel to (nearly) nothing:
      \* a zero component at 90 degrees gives cos(pi/2) * ns = 6e-17 * ns with a rounded pi/2 and exactly 0 without.
      size == Measure([j \in 1..Len(R.ns) |-> FAdd(FAbs(R.ns[j]), FAbs(R.we[j]))], R.dt, R.measure)
      \* an array-valued named parameter ("velocity"): the scan returns the whole series of that combination
      vref == FCumTrap(comb, R.dt)
      vtol == FMul(FStr("1e-10"), FAdd(TrapRun([j \in 1..Len(R.ns) |-> FAdd(FAbs(R.ns[j]), FAbs(R.we[j]))], R.dt).pv, FStr("1e-300")))
      okVal == okAng /\ (IF R.measure = "velocity"
                          THEN Len(R.vals[i]) = Len(R.ns) /\ \A j \in 1..Len(R.ns) : Close(R.vals[i][j], vref[j], vtol)
                          ELSE CloseRel(R.vals[i], ref, FStr("1e-10"), FAbs(size), FStr("1e-300")))
  IN Fails(okAng, "ScanAngles") \cup (IF okAng THEN Fails(okVal, "ScanValues") ELSE {})

\* --- cluster ----------------------------------------------------------------------
Sg(v, i) == v[i]
ClusterStep(ev) ==
  LET k == R.k  n == R.n  m == R.master  st == R.steps
      lens(v) == Len(v) = k /\ \A i \in 1..k : Len(v[i]) = n
      \* lags whose residual is within 1e-9 (relative) of the smallest: any of them may have been removed
      near(i) == LET best == CHOOSE L \in BestLags(R.v0[i], R.v0[m], st) : TRUE
                     b == SSR(R.v0[i], R.v0[m], best, st)
                 IN {L \in Lags(st) : FLe(SSR(R.v0[i], R.v0[m], L, st), FAdd(FMul(b, FStr("1.000000001")), FStr("1e-300")))}
      tm == IF ~(lens(R.v0) /\ lens(R.v1)) THEN {"LengthsUnchanged"}
            ELSE Fails(\A i \in 1..k : R.arr1[i], "ValuesStayArrays")
                 \cup Fails(\A j \in 1..n : FEq(R.v1[m][j], R.v0[m][j]), "MasterUnchanged")
                 \cup Fails(\A i \in (1..k) \ {m} : \E L \in near(i) :
                               \A j \in 1..n : FEq(R.v1[i][j], Shift(R.v0[i], L)[j]), "LagRemoved")
      ss == IF ~(lens(R.v1) /\ lens(R.v2)) THEN {"LengthsUnchanged"}
            ELSE LET tol(i) == FMul(Rel, FAdd(FMaxAbs(R.v1[i]), FMaxAbs(R.v1[m])))
                 IN Fails(\A i \in 1..k : R.arr2[i], "ValuesStayArrays")
                    \cup Fails(\A j \in 1..n : FEq(R.v2[m][j], R.v1[m][j]), "MasterUnchanged")
                    \cup Fails(\A i \in (1..k) \ {m} :
                                  /\ Close(Avg(R.v2[i], R.s, R.e), Avg(R.v1[m], R.s, R.e), tol(i))
                                  /\ SeqNear(R.v2[i], SameStartOf(R.v1[i], R.v1[m], R.s, R.e), tol(i)), "SameStartAligned")
  IN IF ev = 1 THEN tm ELSE ss

\* --- relation between two recorded results: y = x element-wise to tol * scale -------------------
RelStep == Fails(Len(R.x) = Len(R.y) /\ \A j \in 1..Len(R.x) : Close(R.y[j], R.x[j], FMul(R.tol, R.scale)), R.clause)

Step == /\ l >= 0 /\ l < N /\ l' = l + 1 /\ tid' = tid
        /\ bad' = bad \cup (IF R.kind = "combine" THEN CombineStep
                            ELSE IF R.kind = "scan" THEN ScanStep(l + 1)
                            ELSE IF R.kind = "rel" THEN RelStep ELSE ClusterStep(l + 1))
Finish == l = N /\ l' = -1 /\ UNCHANGED <<tid, bad>>
Next == Step \/ Finish
Spec == Init /\ [][Next]_vars
Verdict == l = -1 => EmitVerdict(R.tid, bad, N)
=============================================================================

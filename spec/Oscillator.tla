------------------------------ MODULE Oscillator ------------------------------
(***************************************************************************)
(* C01 - C03 -- the elastic single-degree-of-freedom oscillator            *)
(*        u'' + 2 xi w u' + w^2 u = a(t),   w = 2 pi / T,   u(0) = u'(0) = 0*)
(* driven by the LINEAR INTERPOLATION a(t) of the record (the library's    *)
(* fixed sign convention: forcing +a).                                     *)
(*                                                                         *)
(* The exact flow over one step h is defined here independently of the     *)
(* closed forms of Nigam & Jennings: with the scaled state y = (w u, v)    *)
(* and Z = M h, M = [[0, w], [-w, -2 xi w]],                               *)
(*    y(h) = e^Z y(0) + h (phi1(Z) - phi2(Z)) e2 a0 + h phi2(Z) e2 a1      *)
(* where e^Z, phi1(Z) = sum Z^k/(k+1)!, phi2(Z) = sum Z^k/(k+2)! are       *)
(* evaluated from their defining power series on Z/2^j (norm <= 1/2, 20    *)
(* terms: remainder < 2^-60) followed by j doublings                       *)
(*    e^{2Z} = (e^Z)^2,  phi1(2Z) = phi1(Z)(e^Z + I)/2,                    *)
(*    phi2(2Z) = (phi1(Z)^2 + 2 phi2(Z))/4.                                *)
(* The scaling by w keeps the series well conditioned for every            *)
(* 0.2 <= T/dt <= 2e4, which is where the closed forms lose eps/(w dt)^3.  *)
(* 2x2 matrices are 4-tuples (row major).                                  *)
(***************************************************************************)
EXTENDS FP, FPSeq, Integers, Sequences

\* ---- 2x2 matrices ---------------------------------------------------------------
MM(A, B) == << FAdd(FMul(A[1], B[1]), FMul(A[2], B[3])), FAdd(FMul(A[1], B[2]), FMul(A[2], B[4])),
               FAdd(FMul(A[3], B[1]), FMul(A[4], B[3])), FAdd(FMul(A[3], B[2]), FMul(A[4], B[4])) >>
MA(A, B) == << FAdd(A[1], B[1]), FAdd(A[2], B[2]), FAdd(A[3], B[3]), FAdd(A[4], B[4]) >>
MS(A, c) == << FMul(A[1], c), FMul(A[2], c), FMul(A[3], c), FMul(A[4], c) >>
MV(A, x) == << FAdd(FMul(A[1], x[1]), FMul(A[2], x[2])), FAdd(FMul(A[3], x[1]), FMul(A[4], x[2])) >>
Id == << One, Zero, Zero, One >>
ZeroM == << Zero, Zero, Zero, Zero >>

\* ---- e^Z, phi1(Z), phi2(Z) -----------------------------------------------------------
RECURSIVE Ser(_, _, _, _, _, _, _)
\* tk = Z^k/k!; accumulates sum_{k<=K} of Z^k/k!, Z^k/(k+1)!, Z^k/(k+2)!
Ser(Z, k, K, tk, E, P1, P2) ==
  IF k > K THEN <<E, P1, P2>>
  ELSE Ser(Z, k + 1, K, MS(MM(tk, Z), FDiv(One, FInt(k + 1))), MA(E, tk),
           MA(P1, MS(tk, FDiv(One, FInt(k + 1)))), MA(P2, MS(tk, FDiv(One, FInt((k + 1) * (k + 2))))))
RECURSIVE Dbl(_, _)
Dbl(S, j) == IF j = 0 THEN S
             ELSE Dbl(<< MM(S[1], S[1]), MS(MM(S[2], MA(S[1], Id)), Half),
                         MS(MA(MM(S[2], S[2]), MS(S[3], Two)), Quarter) >>, j - 1)
RECURSIVE Halvings(_, _)
Halvings(nrm, j) == IF FLe(nrm, Half) \/ j >= 40 THEN j ELSE Halvings(FMul(nrm, Half), j + 1)
RECURSIVE P2(_)
P2(j) == IF j = 0 THEN One ELSE FMul(Two, P2(j - 1))

\* the flow over one step h for period T > 0 and damping xi
Flow(T, xi, h) ==
  LET w  == FDiv(TwoPi, T)
      wh == FMul(w, h)
      Z  == << Zero, wh, FNeg(wh), FNeg(FMul(FMul(Two, xi), wh)) >>
      j  == Halvings(FMul(FAbs(wh), FAdd(One, FMul(Two, xi))), 0)
      S  == Dbl(Ser(MS(Z, FDiv(One, P2(j))), 0, 20, Id, ZeroM, ZeroM, ZeroM), j)
      p1 == MV(S[2], <<Zero, One>>)
      p2 == MV(S[3], <<Zero, One>>)
  IN [E  |-> S[1],
      G0 |-> << FMul(h, FSub(p1[1], p2[1])), FMul(h, FSub(p1[2], p2[2])) >>,
      G1 |-> << FMul(h, p2[1]), FMul(h, p2[2]) >>,
      w  |-> w, xi |-> xi]

\* one step: state y = (w u, v), forcing a0 at the start and a1 at the end of the step
Advance(fl, y, a0, a1) ==
  LET Ey == MV(fl.E, y)
  IN << FAdd(Ey[1], FAdd(FMul(fl.G0[1], a0), FMul(fl.G1[1], a1))),
        FAdd(Ey[2], FAdd(FMul(fl.G0[2], a0), FMul(fl.G1[2], a1))) >>
Y0 == <<Zero, Zero>>
Disp(fl, y) == FDiv(y[1], fl.w)
Velo(fl, y) == y[2]
\* the third series: -(2 xi w v + w^2 u) = -(2 xi w v + w (w u))
Accel(fl, y) == FNeg(FAdd(FMul(FMul(FMul(Two, fl.xi), fl.w), y[2]), FMul(fl.w, y[1])))

\* the whole response to a record: sequence of states (one per sample)
Response(fl, a) ==
  LET step(acc, k) == Append(acc, Advance(fl, acc[k - 1], a[k - 1], a[k]))
  IN FoldLeft(step, <<Y0>>, [k \in 1..(Len(a) - 1) |-> k + 1])
\* running peaks of |u|, |v|, |acc| over the response (a fold that does not keep the series)
Peaks3(fl, a) ==
  LET step(s, k) == LET y == Advance(fl, s.y, a[k - 1], a[k])
                    IN [y |-> y, pu |-> FMax(s.pu, FAbs(Disp(fl, y))), pv |-> FMax(s.pv, FAbs(Velo(fl, y))),
                        pa |-> FMax(s.pa, FAbs(Accel(fl, y)))]
  IN FoldLeft(step, [y |-> Y0, pu |-> Zero, pv |-> Zero, pa |-> Zero], [k \in 1..(Len(a) - 1) |-> k + 1])

\* ---- the statement's tolerance ----------------------------------------------------------
\*   relative to the series peak:  1e-6 + 5e-8 * duration/T + eps/(w dt)^3
\* Two readings are needed for soundness where the exact series (nearly) vanishes at the sample instants
\* (xi = 0 and T/dt = 1, 1/2, ..., or heavily damped / very short records):
\*  * the drift term 5e-8*duration/T is the accumulated phase error of a rounded w; it is proportional to the
\*    amplitude of the free vibration, i.e. to the natural scale nat = |a|max/w^2 (u), |a|max/w (v), whenever
\*    that exceeds the sampled peak;
\*  * the remaining terms are taken relative to max(peak, 1e-9 * nat).
\* Both only ever enlarge the statement's tolerance (never a false alarm); they coincide with it when peak >= nat.
Floor == FStr("1e-9")
AbsTol(T, dt, n, peak, nat) ==
  LET wdt == FMul(FDiv(TwoPi, T), dt)
      fixed == FAdd(FStr("1e-6"), FDiv(Eps, FMul(wdt, FSq(wdt))))
      drift == FMul(FStr("5e-8"), FDiv(FMul(FInt(n - 1), dt), T))
  IN FAdd(FMul(fixed, FMax(peak, FMul(Floor, nat))), FMul(drift, FMax(peak, nat)))
\* the third series -(2 xi w v + w^2 u): compared with the reported u, v relative to the size of its two terms
AccTol(w, xi, u, v) == FAdd(FMul(FStr("1e-6"), FAdd(FAbs(FMul(FMul(FMul(Two, xi), w), v)), FAbs(FMul(FSq(w), u)))), FStr("1e-300"))

\* linear refinement of a record by the integer factor r (r-1 interpolated samples per step)
Refined(a, r) ==
  [m \in 1..((Len(a) - 1) * r + 1) |->
     LET k == ((m - 1) \div r) + 1  f == (m - 1) % r
     IN IF f = 0 THEN a[k] ELSE FAdd(a[k], FMul(FSub(a[k + 1], a[k]), FRat(f, r)))]
=============================================================================

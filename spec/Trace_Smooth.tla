----------------------------- MODULE Trace_Smooth -----------------------------
(***************************************************************************)
(* Trace validation for C07.  Records:                                     *)
(*  kind "smooth": freqs[], amps[] (absolute Fourier amplitudes), targets[],*)
(*       band, out[] -- ONE EVENT PER TARGET FREQUENCY: value = definition,*)
(*       finite, within [min, max] of the amplitudes                       *)
(*  kind "matrix": freqs[], targets[], band, cols[][] (one weight column   *)
(*       per target) -- one event per column: weights >= 0, sum to one,    *)
(*       equal the normalised window                                       *)
(*  kind "rel": law, x[], y[], f   (y = f x)                               *)
(*  kind "band": smooth[], sfreqs[], ratio, fmin, fmax                     *)
(***************************************************************************)
EXTENDS Smooth, Json, IOUtils, TLC, VerdictLib

Recs == ndJsonDeserialize(IOEnv.TRACE_FILE)
VARIABLES tid, l, bad
vars == <<tid, l, bad>>
R == Recs[tid]
N == IF R.kind \in {"smooth", "matrix"} THEN Len(R.targets) ELSE 1
Init == tid \in 1..Len(Recs) /\ l = 0 /\ bad = {}

SmoothStep(j) ==
  LET ref == Smoothed(R.freqs, R.amps, R.targets[j], R.band)
      a == NonZero(R.freqs, R.amps)
      slack == FMul(FStr("1e-9"), FAdd(FMaxSeq(a), FStr("1e-300")))
  IN IF Len(R.out) # Len(R.targets) THEN {"Length"}
     ELSE Fails(FIsFinite(R.out[j]), "FiniteOnGrid")
          \cup Fails(CloseRel(R.out[j], ref, FStr("1e-9"), FAbs(ref), FStr("1e-300")), "WindowShape")
          \cup Fails(FLe(FSub(FMinSeq(a), slack), R.out[j]) /\ FLe(R.out[j], FAdd(FMaxSeq(a), slack)), "Bounded")
MatrixStep(j) ==
  LET w == NormWeights(R.freqs, R.targets[j], R.band)  c == IF Len(R.cols) = Len(R.targets) THEN R.cols[j] ELSE <<>>
  IN IF Len(c) # Len(w) THEN {"Length"}
     ELSE Fails(\A i \in 1..Len(c) : FLe(Zero, c[i]) /\ FIsFinite(c[i]), "WeightsNonNeg")
          \cup Fails(Close(FSum(c), One, FStr("1e-9")), "WeightsNormalised")
          \cup Fails(\A i \in 1..Len(c) : Close(c[i], w[i], FStr("1e-9")), "WindowShape")
RelCheck ==
  Fails(Len(R.x) = Len(R.y) /\ \A j \in 1..Len(R.x) :
          CloseRel(R.y[j], FMul(R.f, R.x[j]), FStr("1e-9"), FAbs(R.y[j]), FStr("1e-300")), R.clause)
BandCheck ==
  LET n == Len(R.smooth)  mx == FMaxSeq(R.smooth)  lim == FMul(mx, R.ratio)
      S == {i \in 1..n : FGt(R.smooth[i], lim)}
      pk == CHOOSE i \in 1..n : FEq(R.smooth[i], mx)
      lo == CHOOSE i \in S : \A k \in S : i <= k
      hi == CHOOSE i \in S : \A k \in S : i >= k
  IN Fails(FLe(R.fmin, R.fmax), "BandwidthOrdered")
     \cup Fails(FEq(R.fmin, R.sfreqs[lo]) /\ FEq(R.fmax, R.sfreqs[hi])
                /\ FLe(R.fmin, R.sfreqs[pk]) /\ FLe(R.sfreqs[pk], R.fmax), "BandwidthBrackets")

Step == /\ l >= 0 /\ l < N /\ l' = l + 1 /\ tid' = tid
        /\ bad' = bad \cup (CASE R.kind = "smooth" -> SmoothStep(l + 1) [] R.kind = "matrix" -> MatrixStep(l + 1)
                              [] R.kind = "rel" -> RelCheck [] R.kind = "band" -> BandCheck)
Finish == l = N /\ l' = -1 /\ UNCHANGED <<tid, bad>>
Next == Step \/ Finish
Spec == Init /\ [][Next]_vars
Verdict == l = -1 => EmitVerdict(R.tid, bad, N)
=============================================================================

----------------------------- MODULE MC_Stockwell -----------------------------
(***************************************************************************)
(* Exhaustive instance of Stockwell: every record over {-1, 0, 2} of       *)
(* length 4..MaxLen (odd lengths are truncated to N = n - 1).              *)
(* Properties of the definition: Marginal, InverseExact, Linear.           *)
(* TABLE row: code, n, rows, cols of transform(), then rows*cols complex   *)
(* values of transform(), the same of transform_w_scipy_fft(), then m and  *)
(* m floats of itransform(transform()).                                    *)
(***************************************************************************)
EXTENDS Stockwell, IOUtils, TLC, VerdictLib, TableIO

CONSTANTS MaxLen
Lv == <<FInt(-1), Zero, Two>>
NL == 3
Tab == IntTable(IOEnv.TABLE_FILE)
VARIABLES xs, code
vars == <<xs, code>>
Init == xs = <<>> /\ code = 0
Sample(k) == Len(xs) < MaxLen /\ xs' = Append(xs, Lv[k]) /\ code' = code * NL + k
Next == \E k \in 1..NL : Sample(k)
Spec == Init /\ [][Next]_vars

n == Len(xs)
N == EvenLen(n)
Xr == SubSeq(xs, 1, N)
X == Dft(Xr, N)
V == PosTwiddles(N)
Tol == FStr("1e-12")
S(k, t) == Cell(X, V, N, k, t)

Marginal == n >= 4 => \A k \in 1..(N \div 2) :
  LET s == FoldLeft(LAMBDA acc, t : CAdd(acc, S(k, t)), CZero, [t \in 1..N |-> t - 1])
  IN CClose(s, CConj(X[k + 1]), FMul(Tol, FInt(64)))
\* linear in the record (definition is a composition of linear maps): checked against a partner record
Linear == n >= 4 =>
  LET ys == [j \in 1..N |-> FInt(((j * j) % 3) - 1)]
      zs == [j \in 1..N |-> FAdd(FMul(Two, Xr[j]), FMul(FInt(-3), ys[j]))]
      Y == Dft(ys, N)  Z == Dft(zs, N)
  IN \A k \in 1..(N \div 2) : \A t \in {0, 1, N - 1} :
       CClose(Cell(Z, V, N, k, t), CAdd(CScale(Two, S(k, t)), CScale(FInt(-3), Cell(Y, V, N, k, t))), FMul(Tol, FInt(64)))

Row == Tab[code]
RR == Row[3]
CC == Row[4]
Val(impl, r, c) == <<FloatAt(Row, 4, 2 * ((impl - 1) * RR * CC + (r - 1) * CC + c) - 1),
                     FloatAt(Row, 4, 2 * ((impl - 1) * RR * CC + (r - 1) * CC + c))>>
MOff == 4 + 8 * RR * CC
Conforms == n >= 4 =>
  LET tol == FMul(FStr("1e-9"), FAdd(FDiv(FSumAbs(Xr), FInt(N)), FStr("1e-300")))
      m == Row[MOff + 1]
      inv == [j \in 1..m |-> FloatAt(Row, MOff + 1, j)]
      tgt == InverseTarget(Xr, N)
  IN /\ Chk(Row[1] = code /\ Row[2] = n, code, "TableIndex")
     /\ Chk(RR = N \div 2 /\ CC = N, code, "Shape")
     /\ ((RR = N \div 2 /\ CC = N) =>
          /\ Chk(\A r \in 1..RR : \A c \in 1..CC : CClose(Val(1, r, c), S(RowK(r, N), c - 1), tol), code, "Definition")
          /\ Chk(\A r \in 1..RR : \A c \in 1..CC : CClose(Val(2, r, c), Val(1, r, c), tol), code, "ImplsAgree")
          /\ Chk(m = N /\ \A j \in 1..N : Close(inv[j], tgt[j], FMul(FStr("1e-9"), FAdd(FMaxAbs(Xr), FStr("1e-300")))), code, "InverseExact"))
=============================================================================

--------------------------- MODULE Trace_Ownership ---------------------------
(***************************************************************************)
(* Trace validation for C05.  TRACE_FILE, one record per line:             *)
(*  kind = "session": cls, events = << [op, shares, caller_ok, object_ok,  *)
(*         isarr, len_ok, time_ok] >> -- the projection of the real object *)
(*         and of the caller's containers after each call;                 *)
(*  kind = "pure": fn, pre, post (digests of every argument before/after   *)
(*         the call), res1, res2 (digests of the results of two successive *)
(*         calls), raised.                                                 *)
(* Sessions: each event must be a step of Ownership (IsEvent /\ action);   *)
(* the logged projection is compared with the model state reached.         *)
(* Pure calls: the frame condition args' = args /\ result2 = result1.      *)
(***************************************************************************)
EXTENDS Ownership, Json, IOUtils, VerdictLib

Recs == ndJsonDeserialize(IOEnv.TRACE_FILE)

VARIABLES tid, l, bad
tvars == <<buf, vtype, callerTouched, objectTouched, tid, l, bad>>

R == Recs[tid]
N == IF R.kind = "session" THEN Len(R.events) ELSE 1

TInit == /\ tid \in {t \in 1..Len(Recs) : Recs[t].kind = "pure" \/ Recs[t].cls = Kind}
         /\ l = 0 /\ bad = {} /\ Init

IsOp(e, o) == e.op = o
ModelStep(e) ==
  \/ \E k \in 1..NC : (IsOp(e, OpName("construct", k)) /\ Construct(k))
                      \/ (IsOp(e, OpName("reset", k)) /\ Reset(k))
                      \/ (IsOp(e, OpName("caller_write", k)) /\ CallerWrite(k))
  \/ \E m \in InPlaceOps : IsOp(e, m) /\ InPlace(m)
  \/ \E m \in FuncOps : IsOp(e, m) /\ Functional(m)
  \/ \E r \in ReadOps : IsOp(e, r) /\ Read(r)
Known(e) == \/ \E k \in 1..NC : e.op \in {OpName("construct", k), OpName("reset", k), OpName("caller_write", k)}
            \/ e.op \in InPlaceOps \cup FuncOps \cup ReadOps

SessionStep ==
  LET e == R.events[l + 1] IN
  /\ IF Known(e) THEN ModelStep(e) ELSE UNCHANGED vars
  /\ bad' = bad \cup Fails(Known(e), "UnknownOp")
               \cup Fails(\A k \in 1..NC : ~e.shares[k], "NoAlias")
               \cup Fails(\A k \in 1..NC : e.caller_ok[k], "CallerIntact")
               \cup Fails(e.object_ok, "ObjectIntact")
               \cup Fails(e.isarr, "ValuesNumericArray")
               \cup Fails(e.len_ok, "LenIsNpts")
               \cup Fails(e.time_ok, "TimeGrid")
               \* the model must agree with the observation (no aliasing predicted <=> none observed)
               \cup Fails((buf' = 0) = (\A k \in 1..NC : ~e.shares[k]), "DivergeAlias")

PureStep ==
  /\ UNCHANGED vars
  /\ bad' = bad \cup Fails(R.pre = R.post, "ArgsUnchanged")
               \cup Fails(R.raised \/ R.res1 = R.res2, "Deterministic")
               \* the result handed out by the first call is the caller's: the later calls have not changed it
               \cup Fails(R.raised \/ R.res1 = R.res1h, "ResultIntact")

TStep == /\ l >= 0 /\ l < N /\ l' = l + 1 /\ tid' = tid
         /\ IF R.kind = "session" THEN SessionStep ELSE PureStep
TFinish == l = N /\ l' = -1 /\ UNCHANGED <<buf, vtype, callerTouched, objectTouched, tid, bad>>
TNext == TStep \/ TFinish
TSpec == TInit /\ [][TNext]_tvars
Verdict == l = -1 => EmitVerdict(R.tid, bad, N)
=============================================================================

------------------------------- MODULE Cluster -------------------------------
(***************************************************************************)
(* C18 -- two-component rotation and cluster alignment.                    *)
(*                                                                         *)
(* Rotation:  Combine(ns, we, theta) = ns*cos(theta) + we*sin(theta),      *)
(*            scan angles = linspace(0-off, 180-off, points) mod 360.      *)
(* Cluster:   k equally sampled signals, one of them the master.           *)
(*   TimeMatch(steps): for every non-master signal the lag L in            *)
(*     (-steps, steps) minimising the summed squared residual against the  *)
(*     master over n-steps samples is removed by shifting the signal, the  *)
(*     vacated end padded with the edge value (lengths unchanged);         *)
(*   SameStart(s, e): every non-master signal is shifted by the difference *)
(*     between ITS OWN average over samples s+1..e and the master's.       *)
(* Signals are sequences of floats (FP); indices 1-based, master 1-based.  *)
(***************************************************************************)
EXTENDS FP, FPSeq, Integers, Sequences

\* ---- rotation ---------------------------------------------------------------
Deg2Rad == FDiv(Pi, FInt(180))
Combine(ns, we, theta) ==
  LET c == FCos(FMul(theta, Deg2Rad))  s == FSin(FMul(theta, Deg2Rad))
  IN [j \in 1..Len(ns) |-> FAdd(FMul(ns[j], c), FMul(we[j], s))]
\* numpy.linspace(a, b, p)[i] (0-based i), then mod 360
FMod360(x) == FSub(x, FMul(FInt(360), FInt(FFloor(FDiv(x, FInt(360))))))
ScanAngle(off, points, i) ==
  LET a == FSub(Zero, off)  b == FSub(FInt(180), off)
      raw == IF i = points - 1 THEN b ELSE FAdd(a, FMul(FInt(i), FDiv(FSub(b, a), FInt(points - 1))))
  IN FMod360(raw)

\* ---- lag matching -------------------------------------------------------------
Lags(steps) == (1 - steps)..(steps - 1)
\* summed squared residual when the other signal `om` lags the master `bm` by L samples (L < 0: leads)
SSR(om, bm, L, steps) ==
  LET n == Len(bm)  idx == [j \in 1..(n - steps) |-> j]
  IN IF L >= 0 THEN FoldLeft(LAMBDA acc, j : FAdd(acc, FSq(FSub(om[j + L], bm[j]))), Zero, idx)
     ELSE FoldLeft(LAMBDA acc, j : FAdd(acc, FSq(FSub(bm[j - L], om[j]))), Zero, idx)
BestLags(om, bm, steps) ==
  {L \in Lags(steps) : \A L2 \in Lags(steps) : FLe(SSR(om, bm, L, steps), SSR(om, bm, L2, steps))}
\* remove lag L: shift towards the start (L > 0, tail padded with the last value) or the end (L < 0)
Shift(om, L) ==
  LET n == Len(om)
  IN [j \in 1..n |-> IF j + L > n THEN om[n] ELSE IF j + L < 1 THEN om[1] ELSE om[j + L]]
\* after removing lag L the overlapping samples coincide with the master
Overlap(n, L) == IF L >= 0 THEN 1..(n - L) ELSE (1 - L)..n

\* ---- same start ------------------------------------------------------------------
Avg(x, s, e) == FMean(SubSeq(x, s + 1, e))
SameStartOf(x, master, s, e) ==
  LET d == FSub(Avg(x, s, e), Avg(master, s, e)) IN [j \in 1..Len(x) |-> FSub(x[j], d)]
=============================================================================

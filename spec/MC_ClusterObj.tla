---------------------------- MODULE MC_ClusterObj ----------------------------
(***************************************************************************)
(* Exhaustive / random exploration of the cluster object.                  *)
(* CONFIG_FILE (integers): one row per initial cluster                     *)
(*     id, k, n, master (1-based), then k*n floats                         *)
(* Every interleaving of the operations below up to Depth steps is         *)
(* generated from every initial cluster; with Emit every transition is     *)
(* printed for the lock-step replay on real objects.                       *)
(***************************************************************************)
EXTENDS ClusterObj, IOUtils, TableIO

CONSTANTS Emit,        \* BOOLEAN
          Depth,       \* number of operations per behaviour
          StepSet      \* search windows of time_match, e.g. {2, 3}

Windows == {<<0, 1>>, <<0, 2>>, <<1, 3>>, <<0, 4>>}   \* section windows <<s, e>> (samples s+1..e) of same_start
Consts == {2, -1}                                     \* integers c: add_constant(c / 2)
Delays == {1, -1}                                     \* integer delays of CompDelay

Cfg == IntTable(IOEnv.CONFIG_FILE)

VARIABLES cid, sigs, master, last
vars == <<cid, sigs, master, last>>
St == [sigs |-> sigs, master |-> master]

Sig(row, off, n, i) == [j \in 1..n |-> FloatAt(row, off + 2 * n * (i - 1), j)]
Init == /\ cid \in 1..Len(Cfg)
        /\ sigs = [i \in 1..Cfg[cid][2] |-> Sig(Cfg[cid], 4, Cfg[cid][3], i)]
        /\ master = Cfg[cid][4]
        /\ last = <<"init", 0, 0>>

\* flat integer encoding of a state: k, n, master, then the samples (two integers each)
RECURSIVE FlatSeq(_)
FlatSeq(ss) == IF Len(ss) = 0 THEN <<>> ELSE ss[1] \o FlatSeq(Tail(ss))
EncSig(x) == FlatSeq([j \in 1..Len(x) |-> <<x[j][1], x[j][2]>>])
Enc(S) == <<K(S), NPts(S), S.master>> \o FlatSeq([i \in 1..K(S) |-> EncSig(S.sigs[i])])

Do(T, op) == /\ sigs' = T.sigs /\ master' = T.master /\ cid' = cid /\ last' = op
             /\ (Emit => PrintT(<<"E", TLCGet("level"), cid, Enc(St), op, Enc(T)>>))

SetMaster == \E m \in 1..K(St) : m # master /\ Do(SetMasterOf(St, m), <<"set_master", m, 0>>)
TimeMatch == \E st \in StepSet : st < NPts(St) /\ \E f \in LagChoices(St, st) : Do(TimeMatchOf(St, f), <<"time_match", st, 0>>)
SameStart == \E w \in Windows : w[2] <= NPts(St) /\ Do(SameStartAll(St, w[1], w[2]), <<"same_start", w[1], w[2]>>)
CompAdd == \E i \in 1..K(St), c \in Consts : Do(CompAddOf(St, i, FRat(c, 2)), <<"comp_add", i, c>>)
CompDelay == \E i \in 1..K(St), L \in Delays : Do(CompDelayOf(St, i, L), <<"comp_delay", i, L>>)

Next == SetMaster \/ TimeMatch \/ SameStart \/ CompAdd \/ CompDelay
Spec == Init /\ [][Next]_vars
Bound == TLCGet("level") <= Depth

-----------------------------------------------------------------------------
\* properties of the model itself (what C18 says about each step, under every interleaving)
Tol == FStr("1e-12")
Size == FAdd(One, FoldLeft(LAMBDA acc, i : FMax(acc, FMaxAbs(sigs[i])), Zero, [i \in 1..Len(sigs) |-> i]))
TypeOK == /\ master \in 1..Len(sigs) /\ Len(sigs) = Cfg[cid][2]
          /\ \A i \in 1..Len(sigs) : Len(sigs[i]) = Cfg[cid][3]
\* whichever signal is master and however many signals there are
AlignedAfterSameStart == last[1] = "same_start" => Aligned(St, last[2], last[3], FMul(Tol, Size))
\* the alignment operations leave the master alone and keep every length
AlignKeepsMaster ==
  [][last'[1] \in {"time_match", "same_start"} => MasterKept(St, [sigs |-> sigs', master |-> master'])]_vars
\* time_match removes a residual-minimising lag from every other component
LagIsMinimiser ==
  [][last'[1] = "time_match" => ResidualMinimal(St, [sigs |-> sigs', master |-> master'], last'[2])]_vars
\* same_start twice is same_start once (the second call finds nothing to do)
SameStartIdempotent ==
  [][(last[1] = "same_start" /\ last' = last) =>
        \A i \in 1..Len(sigs) : \A j \in 1..Len(sigs[i]) : Close(sigs'[i][j], sigs[i][j], FMul(Tol, Size))]_vars
=============================================================================

------------------------------ MODULE MC_Fourier ------------------------------
(***************************************************************************)
(* Exhaustive instance of Fourier.                                         *)
(* Part 1 (integer): behaviour = the record length npts grows from 2 to    *)
(*   NMax one sample per step; for p2_plus in 0..3 the model's transform   *)
(*   length must be the minimal power of two >= npts times 2^p, and the    *)
(*   number of bins / last frequency the implementation reports must match *)
(*   (LEN_FILE row npts: npts, then for p = 0..3: bins(Signal),            *)
(*   bins(calc_fa_spectrum), then unpadded bins, then bins for n = npts+1).*)
(* Part 2 (float): every record over {-1,0,1,2} up to MaxLen samples;      *)
(*   laws of the definitional transform (linear, trailing zeros, Parseval, *)
(*   exact inverse) and the implementation's spectra for eight variants in *)
(*   lock-step (TABLE_FILE row: code, n, then per variant: N, bins,        *)
(*   bins complex values, bins frequencies).                               *)
(***************************************************************************)
EXTENDS Fourier, IOUtils, TLC, VerdictLib, TableIO

CONSTANTS MaxLen, NMax
LenTab == IntTable(IOEnv.LEN_FILE)
Tab == IntTable(IOEnv.TABLE_FILE)
NL == 4
Dt == FStr("0.3")          \* 1/dt is not a whole number of Hz

VARIABLES part, npts, xs, code
vars == <<part, npts, xs, code>>
Init == \/ part = "len" /\ npts = 2 /\ xs = <<>> /\ code = 0
        \/ part = "rec" /\ npts = 0 /\ xs = <<>> /\ code = 0
Grow == part = "len" /\ npts < NMax /\ npts' = npts + 1 /\ UNCHANGED <<part, xs, code>>
Sample(k) == part = "rec" /\ Len(xs) < MaxLen /\ xs' = Append(xs, FInt(k - 2)) /\ code' = code * NL + k
             /\ npts' = Len(xs) + 1 /\ part' = part
Next == Grow \/ \E k \in 1..NL : Sample(k)
Spec == Init /\ [][Next]_vars

-----------------------------------------------------------------------------
\* part 1
PadLenLaws == part = "len" => \A p \in 0..3 :
  LET N == PadLen(npts, "p2", p)
  IN N >= npts /\ IsPow2(N) /\ (p = 0 => (N = 1 \/ N \div 2 < npts)) /\ N = PadLen(npts, "default", 0) * Pow2(p)
LenConforms == part = "len" =>
  LET r == LenTab[npts - 1] IN
  /\ Chk(r[1] = npts, npts, "TableIndex")
  /\ Chk(\A p \in 0..3 : r[2 + 2 * p] = Bins(PadLen(npts, "p2", p)) /\ r[3 + 2 * p] = Bins(PadLen(npts, "p2", p)), npts, "PadLen")
  /\ Chk(r[10] = Bins(npts) /\ r[11] = Bins(npts + 1), npts, "BinCount")

\* part 2: laws of the definition
n == Len(xs)
N0 == PadLen(n, "default", 0)
Tol == FStr("1e-12")
X0 == Dft(xs, N0)
Linear == (part = "rec" /\ n >= 2) =>
  LET ys == [j \in 1..n |-> FInt(((j * j) % 3) - 1)]
      zs == [j \in 1..n |-> FAdd(FMul(FInt(3), xs[j]), FMul(FRat(-1, 2), ys[j]))]
      Y == Dft(ys, N0)  Z == Dft(zs, N0)
  IN \A k \in 1..N0 : CClose(Z[k], CAdd(CScale(FInt(3), X0[k]), CScale(FRat(-1, 2), Y[k])), FMul(Tol, FInt(64)))
TrailingZeros == (part = "rec" /\ n >= 2 /\ n < N0) =>
  LET Z == Dft(Append(xs, Zero), N0) IN \A k \in 1..N0 : CClose(Z[k], X0[k], Tol)
Parseval == (part = "rec" /\ n >= 2) =>
  LET lhs == FSum(FMap(FSq, xs))
      half == FSum([k \in 1..((N0 \div 2) - 1) |-> CAbs2(X0[k + 1])])
      rhs == FDiv(FAdd(FAdd(CAbs2(X0[1]), FMul(Two, half)), FSq(NyquistSum(xs))), FInt(N0))
  IN Close(lhs, rhs, FMul(Tol, FAdd(lhs, One)))
\* inverse DFT of the Hermitian completion without mean and Nyquist bins = InverseTarget
InverseExact == (part = "rec" /\ n >= 2) =>
  LET tgt == InverseTarget(xs, N0)
      W == Twiddles(N0)
      inv(j) == FDiv(FSum([k \in 1..((N0 \div 2) - 1) |->
                   LET w == W[((k * (j - 1)) % N0) + 1]               \* e^{-i th}; we need 2 Re(X e^{+i th})
                   IN FMul(Two, FAdd(FMul(X0[k + 1][1], w[1]), FMul(X0[k + 1][2], w[2])))]), FInt(N0))
  IN \A j \in 1..N0 : Close(inv(j), tgt[j], FMul(Tol, FInt(64)))

\* part 2: implementation in lock-step
Row == Tab[code]
\* variants: name, transform length
Variants == << PadLen(n, "default", 0), PadLen(n, "p2", 0), PadLen(n, "p2", 1), n, n + 1, 2 * n, n, PadLen(n, "default", 0) >>
RECURSIVE VOff(_)
VOff(v) == IF v = 1 THEN 2 ELSE VOff(v - 1) + 2 + 6 * Row[VOff(v - 1) + 2]
Conforms == (part = "rec" /\ n >= 2) =>
  /\ Chk(Row[1] = code /\ Row[2] = n, code, "TableIndex")
  /\ \A v \in 1..8 :
       LET o == VOff(v)  NN == Row[o + 1]  b == Row[o + 2]
           W == Twiddles(Variants[v])
           tol == FMul(FMul(FStr("1e-9"), Dt), FAdd(FSumAbs(xs), FStr("1e-300")))
           val(k) == <<FloatAt(Row, o + 2, 2 * k - 1), FloatAt(Row, o + 2, 2 * k)>>
           frq(k) == FloatAt(Row, o + 2 + 4 * b, k)
       IN /\ Chk(NN = Variants[v], code, "PadLen")
          /\ Chk(b = Bins(Variants[v]), code, "BinCount")
          /\ Chk(b = Bins(Variants[v]) => \A k \in 1..b : CClose(val(k), FasBin(xs, Dt, Variants[v], W, k - 1), tol), code, "DftValues")
          /\ Chk(b = Bins(Variants[v]) => \A k \in 1..b :
                   CloseRel(frq(k), Freq(k - 1, Variants[v], Dt), Tol, FAbs(Freq(k - 1, Variants[v], Dt)), Zero), code, "FreqGrid")
=============================================================================

SPECIFICATION Spec
CONSTANT MaxLen = 6
INVARIANT StartZero
INVARIANT Twin
INVARIANT Linear
INVARIANT PeakLaws
INVARIANT ExactForLinearAcc
INVARIANT Conforms
CHECK_DEADLOCK FALSE

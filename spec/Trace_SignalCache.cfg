SPECIFICATION TSpec
CONSTANT Kind = "AccSignal"
CONSTANT AsFound = FALSE
CONSTANT Emit = FALSE
INVARIANT Verdict
INVARIANT ModelNoStale
CHECK_DEADLOCK FALSE

----------------------------- MODULE Crossings -----------------------------
(***************************************************************************)
(* C12 -- zero crossings and per-half-cycle ("switched") peaks.            *)
(*                                                                         *)
(* Zero crossings are fully determined by the statement: a one-pass        *)
(* machine (ZcStep) and a declarative twin (ZcSet).                        *)
(*                                                                         *)
(* Switched peaks are NOT fully determined (ties inside an excursion):     *)
(* the specification is a RELATION ValidSwitched(xs, out), given           *)
(*  * declaratively (SwDecl), straight from the statement, and             *)
(*  * as a one-pass acceptor (SwStart/SwStep/SwEnd) that consumes one      *)
(*    sample per step together with the information whether that index is  *)
(*    reported -- this is what validates 5000-sample traces.               *)
(* MC_Crossings checks on every short series and EVERY candidate index set *)
(* that acceptor and declarative relation agree.                           *)
(*                                                                         *)
(* Indices are 0-based.  Sg(x) is the strict sign of a sample (-1, 0, 1),  *)
(* Ab(x) its absolute value, Cmp(a, b) = sign(b - a); the instance chooses *)
(* integers or floats.                                                     *)
(***************************************************************************)
EXTENDS Peaks

\* ---- zero crossings -------------------------------------------------------
\* index i is a zero crossing:  i = 0, or x_i = 0 (first of its run unless keepAdj), or a strict sign change
IsZc(xs, i, keepAdj, Sg(_)) ==
  \/ i = 0
  \/ Sg(xs[i + 1]) = 0 /\ (keepAdj \/ Sg(xs[i]) # 0)
  \/ Sg(xs[i + 1]) * Sg(xs[i]) < 0
ZcSet(xs, keepAdj, Sg(_)) == {i \in 0..(Len(xs) - 1) : IsZc(xs, i, keepAdj, Sg)}

\* one-pass: does sample number i (0-based) with sign s, following a sample of sign sp, get reported?
ZcEmit(i, sp, s, keepAdj) == i = 0 \/ (s = 0 /\ (keepAdj \/ sp # 0)) \/ s * sp < 0

\* ---- switched peaks: declarative relation ------------------------------------
\* excursion of a strict-sign index i: the maximal run of samples of that sign around i
ExcLo(xs, i, Sg(_)) == CHOOSE j \in 0..i : /\ \A m \in j..i : Sg(xs[m + 1]) = Sg(xs[i + 1])
                                           /\ (j = 0 \/ Sg(xs[j]) # Sg(xs[i + 1]))
ExcHi(xs, i, Sg(_)) == CHOOSE j \in i..(Len(xs) - 1) : /\ \A m \in i..j : Sg(xs[m + 1]) = Sg(xs[i + 1])
                                                       /\ (j = Len(xs) - 1 \/ Sg(xs[j + 2]) # Sg(xs[i + 1]))
SwDecl(xs, out, Sg(_), Ab(_), Cmp(_, _)) ==
  LET n == Len(xs)  O == {out[k] : k \in 1..Len(out)}
  IN /\ Ascending(out) /\ InRange(xs, out)
     \* each excursion contains exactly one reported index, located at its largest |value|
     /\ \A i \in 0..(n - 1) : Sg(xs[i + 1]) # 0 =>
          LET lo == ExcLo(xs, i, Sg)  hi == ExcHi(xs, i, Sg)  In == {r \in O : lo <= r /\ r <= hi}
          IN /\ Cardinality(In) = 1
             /\ \A r \in In : Cmp(Ab(xs[r + 1]), Ab(xs[i + 1])) <= 0
     \* any other reported index is a zero-valued turning point (a member of the C11 set)
     /\ \A r \in O : Sg(xs[r + 1]) = 0 => r \in ReportedSet(xs, Cmp)
     \* consecutive reported indices do not share a strict sign
     /\ \A k \in 1..(Len(out) - 1) : ~(Sg(xs[out[k] + 1]) # 0 /\ Sg(xs[out[k] + 1]) = Sg(xs[out[k + 1] + 1]))

\* ---- switched peaks: one-pass acceptor ------------------------------------------
\* sg/m/c/ra  current excursion: sign, max |value|, number of reported indices, |value| at the reported one
\* ls         strict sign of the previous reported index (0: none or zero-valued)
\* k          number of entries of `out` consumed
\* pend       zero-valued reported index waiting to be confirmed as a turning point (-1: none)
\* pk         the C11 automaton running alongside
\* bad        failed clauses
SwInit == [sg |-> 0, m |-> 0, c |-> 0, ra |-> 0, ls |-> 0, k |-> 0, pend |-> -1, pk |-> [n |-> 0], bad |-> {}]

CloseExc(s, Cmp(_, _)) ==
  IF s.sg = 0 THEN {}
  ELSE (IF s.c = 1 THEN {} ELSE {"OnePerExcursion"})
       \cup (IF s.c >= 1 /\ Cmp(s.ra, s.m) # 0 THEN {"AtExcursionMax"} ELSE {})

\* x: the sample, i: its 0-based index, out: the candidate list
SwStep(s, x, i, out, Sg(_), Ab(_), Cmp(_, _)) ==
  LET sx == Sg(x)
      isRep == s.k < Len(out) /\ out[s.k + 1] = i
      pk2 == IF s.pk.n = 0 THEN PkStart(x) ELSE PkStep(s.pk, x, Cmp(s.pk.last, x))
      moved == s.pk.n > 0 /\ Cmp(s.pk.last, x) # 0
      \* a pending zero-valued index is confirmed by the first strict movement after it
      pendBad == IF moved /\ s.pend > 0 /\ pk2.emit # s.pend THEN {"ExtrasAreZeroTurningPoints"} ELSE {}
      pend1 == IF moved THEN -1 ELSE s.pend
      closing == sx # s.sg
      closeBad == IF closing THEN CloseExc(s, Cmp) ELSE {}
      sg1 == sx
      m1 == IF sx = 0 THEN 0 ELSE IF closing THEN Ab(x) ELSE (IF Cmp(s.m, Ab(x)) > 0 THEN Ab(x) ELSE s.m)
      c1 == IF closing THEN 0 ELSE s.c
      ra1 == IF closing THEN 0 ELSE s.ra
      repBad == IF ~isRep THEN {}
                ELSE IF sx # 0 THEN (IF s.ls = sx THEN {"NoSharedSign"} ELSE {})
                ELSE (IF i = 0 \/ pk2.cand = i THEN {} ELSE {"ExtrasAreZeroTurningPoints"})
  IN [sg |-> sg1, m |-> m1,
      c |-> IF isRep /\ sx # 0 THEN c1 + 1 ELSE c1,
      ra |-> IF isRep /\ sx # 0 /\ c1 = 0 THEN Ab(x) ELSE ra1,
      ls |-> IF isRep THEN sx ELSE s.ls,
      k |-> IF isRep THEN s.k + 1 ELSE s.k,
      pend |-> IF isRep /\ sx = 0 THEN i ELSE pend1,
      pk |-> pk2,
      bad |-> s.bad \cup pendBad \cup closeBad \cup repBad]

\* after the last sample: close the last excursion; every entry of out must have been consumed
SwEnd(s, out, Cmp(_, _)) ==
  s.bad \cup CloseExc(s, Cmp) \cup (IF s.k = Len(out) THEN {} ELSE {"SwitchedAscending"})

\* ---- subsequence (both lists ascending) --------------------------------------
IsSubseqOf(a, b) == Ascending(a) /\ {a[k] : k \in 1..Len(a)} \subseteq {b[k] : k \in 1..Len(b)}
=============================================================================

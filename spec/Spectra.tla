------------------------------- MODULE Spectra -------------------------------
(***************************************************************************)
(* C03 -- response spectra are peak responses with consistent pseudo-      *)
(* spectral relations.                                                     *)
(*   S_d = max|u|,  PSV = w S_d,  PSA = w^2 S_d,  true S_v = max|v|,       *)
(*   true S_a = max|-(2 xi w v + w^2 u)|;  for T < 6 (integration) steps,  *)
(*   T = 0 included (S_d = 0), the reported spectral acceleration is PGA.  *)
(* Object rule: an AccSignal integrates at a step no coarser than          *)
(*   TargetDt = max(T_min/20, dt/min_dt_ratio), i.e. refines the record by *)
(*   an integer k >= ceil(dt/TargetDt) when TargetDt < dt.                 *)
(* Energy spectra: E_in = sum a_i v_i dt, E_k = sum |delta(v^2/2)|.        *)
(***************************************************************************)
EXTENDS Oscillator

\* ---- integer ("tick") form of the branch rules ---------------------------------------
\* dt = d ticks, T = t ticks, min_dt_ratio = q
PgaBranchT(d, t) == t < 6 * d
CeilDivS(a, b) == (a + b - 1) \div b
\* TargetDt < dt  <=>  t/20 < d and q > 1 ; then k_min = ceil(d / max(t/20, d/q)) = min(ceil(20 d / t), q)
NeedsRefine(d, tmin, q) == tmin < 20 * d /\ q > 1
KMinT(d, tmin, q) == IF ~NeedsRefine(d, tmin, q) THEN 1
                     ELSE LET c == CeilDivS(20 * d, tmin) IN IF c < q THEN c ELSE q

\* ---- float form ---------------------------------------------------------------------------
PgaBranch(T, dt) == FLt(T, FMul(FInt(6), dt))
TargetDt(tmin, dt, q) == FMax(FDiv(tmin, FInt(20)), FDiv(dt, FInt(q)))
KMin(tmin, dt, q) == IF FLt(TargetDt(tmin, dt, q), dt) THEN FCeil(FMul(FDiv(dt, TargetDt(tmin, dt, q)), FStr("0.999999999999"))) ELSE 1

\* record refined k times, optionally followed by k-1 copies of the last value (a clamped tail of < 1 step)
WithTail(a, k, tail) == IF tail /\ k > 1 THEN Refined(a, k) \o [j \in 1..(k - 1) |-> a[Len(a)]] ELSE Refined(a, k)

\* ---- what an AccSignal reports for one period T > 0 of its period list (shortest non-zero period tmin, damping xi,
\* min_dt_ratio q): the spectra of the record refined by SOME whole k in [k_min, 2 k_min + 2], with or without the clamped
\* tail; S_a is the PGA below six (refined) steps and w^2 S_d otherwise.  Shared by Trace_Spectra and the object models.
RelNear(x, y, rel) == CloseRel(x, y, rel, FAbs(y), FStr("1e-300"))
ObjectSpectrumOK(a, dt, xi, q, tmin, T, sd, sa) ==
  LET w == FDiv(TwoPi, T)  pga == FMaxAbs(a)  kmin == KMin(tmin, dt, q)
      match(k, tail) ==
        LET dtk == FDiv(dt, FInt(k))  rec == WithTail(a, k, tail)
            pu == Peaks3(Flow(T, xi, dtk), rec).pu
            tu == AbsTol(T, dtk, Len(rec), pu, FDiv(pga, FSq(w)))
        IN /\ Close(sd, pu, tu)
           /\ (IF FLt(T, FMul(FInt(6), dtk)) THEN FEq(sa, pga) ELSE RelNear(sa, FMul(FSq(w), sd), FStr("1e-12")))
  IN \E k \in kmin..(2 * kmin + 2) : match(k, TRUE) \/ match(k, FALSE)

\* energy spectra over a velocity series v (response to a at step dt)
InputEnergy(a, v, dt) == FSum([i \in 1..Len(a) |-> FMul(FMul(a[i], v[i]), dt)])
KineticEnergy(v) == FSum([i \in 1..(Len(v) - 1) |-> FAbs(FSub(FMul(Half, FSq(v[i + 1])), FMul(Half, FSq(v[i]))))])
ModelVelocity(fl, a) == LET ys == Response(fl, a) IN [i \in 1..Len(a) |-> Velo(fl, ys[i])]
=============================================================================

------------------------------ MODULE MC_Surface ------------------------------
(***************************************************************************)
(* Exhaustive instance of Surface: every record over {-1, 0, 2} up to      *)
(* MaxLen samples, dt = 1/2, travel times {0, 1/8, 1/4, 1/2, 3/4} s        *)
(* (delays 0, 1/2, 1, 2, 3 samples), reductions {1, 1/2}.  All arithmetic  *)
(* is exact here; the invariants are the consequences the property lists,  *)
(* proved of the definition itself.  (The implementation is bound to the   *)
(* same definition by Trace_Surface, which also replays this lattice.)     *)
(***************************************************************************)
EXTENDS Surface, TLC

CONSTANTS MaxLen
Lv == <<FInt(-1), Zero, Two>>
Dt == Half
TT == <<Zero, FRat(1, 8), FRat(1, 4), Half, FRat(3, 4)>>
Reds == {One, Half}

VARIABLES xs
Init == xs = <<>>
Next == \E k \in 1..3 : Len(xs) < MaxLen /\ xs' = Append(xs, Lv[k])
Spec == Init /\ [][Next]_xs

n == Len(xs)
Single(k, nodal, ru, rd) == EnergyRow(xs, Dt, <<TT[k]>>, 1, nodal, ru, rd)

CumAbsMonotone == n >= 2 => \A k \in 1..5 : \A nodal \in BOOLEAN : \A rd \in Reds :
  LET c == CumAbs(Single(k, nodal, One, rd)) IN FLe(Zero, c[1]) /\ \A j \in 1..(Len(c) - 1) : FLe(c[j], c[j + 1])
ZeroTravelNodalZero == n >= 2 => \A r \in Reds : \A j \in 1..n : FEq(Single(1, TRUE, r, r)[j], Zero)
ScaleSquared == n >= 2 => \A k \in 1..5 : \A nodal \in BOOLEAN :
  LET e1 == Single(k, nodal, One, Half)
      e2 == EnergyRow(FScale(FInt(-2), xs), Dt, <<TT[k]>>, 1, nodal, One, Half)
      c1 == CumAbs(e1)  c2 == CumAbs(e2)
  IN /\ \A j \in 1..Len(e1) : FEq(e2[j], FMul(FInt(-4), e1[j]))            \* E(alpha a) = alpha |alpha| E(a)
     /\ FEq(c2[Len(c2)], FMul(FInt(4), c1[Len(c1)]))                       \* cumulative |change| scales with alpha^2
RowEqualsSingle == n >= 2 => \A nodal \in BOOLEAN :
  \A k \in 1..5 : LET b == EnergyRow(xs, Dt, TT, k, nodal, One, Half)  s == Single(k, nodal, One, Half)
                  IN Len(b) = n + 3 /\ \A j \in 1..Len(s) : FEq(b[j], s[j])
Lengths == n >= 2 => \A k \in 1..5 : Len(Single(k, TRUE, One, One)) = n + MaxShift(<<TT[k]>>, Dt)
=============================================================================

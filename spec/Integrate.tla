----------------------------- MODULE Integrate -----------------------------
(***************************************************************************)
(* C08 -- velocity and displacement are cumulative trapezoid integrals of  *)
(* the acceleration record; PGA/PGV/PGD are the maximum absolute values.   *)
(*                                                                         *)
(* Kernel: a one-sample-per-step machine.  Its state after consuming       *)
(* x_1..x_n is the value of every series at sample n.  The machine is the  *)
(* incremental reading of the property ("v[i]-v[i-1] = dt*(a[i]+a[i-1])/2")*)
(* ; FCumTrap in FPSeq is the declarative reading; MC_Integrate checks on  *)
(* an exact lattice that they coincide and that the consequences the       *)
(* property lists (linearity, exactness for linear acceleration, peak      *)
(* laws) hold of the machine.                                              *)
(***************************************************************************)
EXTENDS FP, FPSeq, Integers, Sequences

\* ---- trapezoid machine ---------------------------------------------------
TrapStart(x) ==
  [n |-> 1, a |-> x, v |-> Zero, d |-> Zero, pa |-> FAbs(x), pv |-> Zero, pd |-> Zero]

TrapInc(dt, y1, y0) == FMul(dt, FDiv(FAdd(y1, y0), Two))

TrapStep(s, x, dt) ==
  LET v2 == FAdd(s.v, TrapInc(dt, x, s.a))
      d2 == FAdd(s.d, TrapInc(dt, v2, s.v))
  IN [n |-> s.n + 1, a |-> x, v |-> v2, d |-> d2,
      pa |-> FMax(s.pa, FAbs(x)), pv |-> FMax(s.pv, FAbs(v2)), pd |-> FMax(s.pd, FAbs(d2))]

TrapFeed(s, x, dt) == IF s.n = 0 THEN TrapStart(x) ELSE TrapStep(s, x, dt)
Empty == [n |-> 0, a |-> Zero, v |-> Zero, d |-> Zero, pa |-> Zero, pv |-> Zero, pd |-> Zero]

TrapRun(xs, dt) == FoldLeft(LAMBDA s, x : TrapFeed(s, x, dt), Empty, xs)

\* ---- rectangle rule (trap = False) -----------------------------------------
\* The property fixes only "rectangle-rule increments" and a zero start: an increment is dt times
\* the integrand at one end of the panel, the same end for the whole series.  Side "L" = value at
\* the previous sample, "R" = value at the current sample.
RectInc(dt, yprev, ycur, side) == FMul(dt, IF side = "L" THEN yprev ELSE ycur)

\* ---- tolerances for float traces -----------------------------------------
\* "v[i] - v[i-1] = inc" for floats that were produced by  v[i] = fl(v[i-1] + fl(inc)):
\* the defect is bounded by a few ulps of the largest operand.
IncTol(vcur, vprev, inc) ==
  FMul(FMul(FInt(8), Eps), FAdd(FAdd(FAbs(vcur), FAbs(vprev)), FAbs(inc)))

IncOK(vcur, vprev, inc) == Close(FSub(vcur, vprev), inc, IncTol(vcur, vprev, inc))
=============================================================================
